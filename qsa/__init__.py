"""qsa - quara static analysis.

Pure-`ast` checkers for the properties in /verif/properties.jsonl.  Nothing in this
package imports or runs `quara`; everything is decided from the syntax trees of
/repo/quara/**/*.py as they are on disk when a check starts.
"""
import os

REPO = os.environ.get("QSA_REPO", "/repo")
VERIF = os.path.dirname(os.path.dirname(os.path.abspath(__file__)))
