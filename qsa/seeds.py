"""Seed / random-stream discipline (rules G1-G4, H1-H3).

Values are classified as STREAM (result of to_stream, a Generator(...), an element of a list of
spawned generators) or RAW (a seed-or-generator parameter that may still be an integer).  A
*seed sink* is a parameter that reaches `to_stream`, computed as a fixpoint over the resolved
call graph (including the `joblib.delayed(f)(...)` call form).  Parameter kinds are joined over
all call sites in the repository; a function nobody calls is an entry point and keeps RAW.
"""
from __future__ import annotations

import ast
from typing import Dict, List, Optional, Set, Tuple

from .astutil import kwarg, unparse
from .index import Class, Func, Index, dotted, own_nodes, parents
from .resolve import Resolver, Unresolved, bind_call

SAMPLERS = {"random", "standard_normal", "normal", "uniform", "multinomial", "choice", "integers", "shuffle", "permutation",
            "binomial", "poisson", "exponential", "rand", "randn", "randint", "random_sample", "bytes", "dirichlet"}
SEEDISH = ("seed", "generator", "stream", "random_state")


def is_seedish(name: str) -> bool:
    n = name.lower()
    return any(k in n for k in SEEDISH)


class CallSite:
    def __init__(self, func: Func, node: ast.Call, targets: List[Func], args: ast.Call, delayed: bool):
        self.func, self.node, self.targets, self.args, self.delayed = func, node, targets, args, delayed


class Seeds:
    def __init__(self, ctx, scope_prefixes=("quara.",), exclude=("quara.interface",)):
        self.ctx = ctx
        self.ix: Index = ctx.ix
        self.res: Resolver = ctx.res
        self.funcs = [f for q, f in self.ix.funcs.items()
                      if q.startswith(scope_prefixes) and not q.startswith(exclude)]
        self.to_stream = self.ix.funcs.get("quara.utils.number_util.to_stream")
        self.sites: List[CallSite] = []
        self._collect_sites()
        self.sinks: Set[Tuple[str, str]] = set()
        self._sink_fixpoint()
        self.param_kind: Dict[Tuple[str, str], str] = {}
        self._param_kinds()

    # -------------------------------------------------------------- call sites
    def _targets(self, f: Func, call: ast.Call) -> Tuple[List[Func], ast.Call, bool]:
        """(callee functions, call node carrying the arguments, is delayed-form)"""
        fn = call.func
        # joblib.delayed(g)(args...)
        if isinstance(fn, ast.Call) and (dotted(fn.func) or "").split(".")[-1] == "delayed" and fn.args:
            g = fn.args[0]
            ts: List[Func] = []
            t = self.ix.resolve_expr(f.module, g, f)
            if isinstance(t, Func):
                ts = [t]
            elif isinstance(g, ast.Attribute):
                # bound method of an object: resolve by receiver type, else by name over the hierarchy
                cs = self.res.expr_classes(f, g.value)
                for c in cs:
                    ts += c.overrides(g.attr)
                if not ts:
                    ts = [m for m in self.res._byname.get(g.attr, [])]
            return ts, call, True
        out = []
        for t in self.res.resolve_call(f, call, by_name=True):
            if isinstance(t, Func):
                out.append(t)
            elif isinstance(t, Class):
                i = t.lookup("__init__")
                if i is not None:
                    out.append(i)
        return out, call, False

    def _collect_sites(self):
        for f in self.funcs:
            for n in own_nodes(f.node):
                if isinstance(n, ast.Call):
                    ts, argcall, delayed = self._targets(f, n)
                    if ts:
                        self.sites.append(CallSite(f, n, ts, argcall, delayed))

    @staticmethod
    def bound(site_func: Func, call: ast.Call, t: Func, delayed: bool) -> bool:
        if t.kind in ("function", "static"):
            return False
        if t.name == "__init__":
            return True
        fn = call.func.args[0] if delayed else call.func
        return isinstance(fn, ast.Attribute)

    def bindings(self, s: CallSite):
        for t in s.targets:
            b, _ = bind_call(s.args, t, self.bound(s.func, s.node, t, s.delayed))
            yield t, b

    # ------------------------------------------------------------------- sinks
    def _sink_fixpoint(self):
        if self.to_stream is None:
            return
        self.sinks.add((self.to_stream.qualname, self.to_stream.params[0]))
        changed = True
        while changed:
            changed = False
            for s in self.sites:
                for t, b in self.bindings(s):
                    for p, e in b.items():
                        if (t.qualname, p) in self.sinks and isinstance(e, ast.Name) and e.id in s.func.params:
                            k = (s.func.qualname, e.id)
                            if k not in self.sinks:
                                self.sinks.add(k)
                                changed = True
        # a parameter stored as the seed of a sampling object (MProcess) and later given to to_stream
        for f in self.funcs:
            if f.self_name:
                for n in own_nodes(f.node):
                    if isinstance(n, ast.Call) and self.to_stream in self.res.resolve_call(f, n, by_name=False) and n.args:
                        a = n.args[0]
                        if isinstance(a, ast.Attribute) and isinstance(a.value, ast.Name) and a.value.id == f.self_name:
                            # self._x = param  in the same method
                            for st in own_nodes(f.node):
                                if isinstance(st, ast.Assign) and any(unparse(t) == unparse(a) for t in st.targets) \
                                        and isinstance(st.value, ast.Name) and st.value.id in f.params:
                                    self.sinks.add((f.qualname, st.value.id))

    # ------------------------------------------------------------ local kinds
    def is_stream_call(self, f: Func, e) -> bool:
        """e is a call that produces a stream: to_stream(...), np.random.Generator(...), default_rng(...), RandomState(...)"""
        if isinstance(e, ast.Call):
            dn = dotted(e.func) or ""
            if self.to_stream is not None and self.to_stream in self.res.resolve_call(f, e, by_name=False):
                return True
            if dn.split(".")[-1] in ("Generator", "default_rng", "RandomState"):
                return True
        return False

    def stream_vars(self, f: Func) -> Tuple[Set[str], Set[str]]:
        """(names holding a stream, names holding a list of streams) in f."""
        streams: Set[str] = set()
        lists: Set[str] = set()

        def is_stream_expr(e) -> bool:
            if isinstance(e, ast.Call):
                dn = dotted(e.func) or ""
                if self.to_stream is not None and self.to_stream in self.res.resolve_call(f, e, by_name=False):
                    return True
                if dn.split(".")[-1] in ("Generator", "default_rng", "RandomState"):
                    return True
            if isinstance(e, ast.Name):
                return e.id in streams
            if isinstance(e, ast.Subscript) and isinstance(e.value, ast.Name) and e.value.id in lists:
                return True
            if isinstance(e, ast.Attribute) and e.attr in ("random_state", "_random_state"):
                return True
            return False

        for _ in range(3):
            for n in own_nodes(f.node):
                if isinstance(n, ast.Assign) and len(n.targets) == 1 and isinstance(n.targets[0], ast.Name):
                    v = n.value
                    if is_stream_expr(v):
                        streams.add(n.targets[0].id)
                    elif isinstance(v, ast.ListComp) and is_stream_expr(v.elt):
                        lists.add(n.targets[0].id)
                    elif isinstance(v, ast.BinOp) and isinstance(v.op, ast.Mult) and isinstance(v.left, ast.List) and v.left.elts \
                            and is_stream_expr(v.left.elts[0]):
                        lists.add(n.targets[0].id)
                elif isinstance(n, (ast.For, ast.comprehension)):
                    it, tg = n.iter, n.target
                    if isinstance(it, ast.Name) and it.id in lists and isinstance(tg, ast.Name):
                        streams.add(tg.id)
                    if isinstance(it, ast.Call) and dotted(it.func) == "enumerate" and it.args and isinstance(it.args[0], ast.Name) \
                            and it.args[0].id in lists and isinstance(tg, ast.Tuple) and len(tg.elts) == 2 and isinstance(tg.elts[1], ast.Name):
                        streams.add(tg.elts[1].id)
                    if isinstance(it, ast.Call) and dotted(it.func) == "zip" and isinstance(tg, ast.Tuple):
                        for a, t in zip(it.args, tg.elts):
                            if isinstance(a, ast.Name) and a.id in lists and isinstance(t, ast.Name):
                                streams.add(t.id)
        return streams, lists

    def _param_kinds(self):
        """STREAM if every in-repo call site passes a stream; RAW otherwise (or when never called)."""
        incoming: Dict[Tuple[str, str], List[str]] = {}
        cache: Dict[str, Tuple[Set[str], Set[str]]] = {}
        for it in range(4):
            incoming = {}
            for s in self.sites:
                sv = cache.get(s.func.qualname)
                if sv is None:
                    sv = cache[s.func.qualname] = self.stream_vars(s.func)
                for t, b in self.bindings(s):
                    for p, e in b.items():
                        if (t.qualname, p) not in self.sinks:
                            continue
                        kind = "RAW"
                        if isinstance(e, ast.Name):
                            if e.id in sv[0]:
                                kind = "STREAM"
                            elif e.id in s.func.params and self.param_kind.get((s.func.qualname, e.id)) == "STREAM":
                                kind = "STREAM"
                        elif isinstance(e, ast.Constant) and e.value is None:
                            kind = "NONE"
                        elif isinstance(e, ast.Subscript) and isinstance(e.value, ast.Name) and e.value.id in sv[1]:
                            kind = "STREAM"
                        elif isinstance(e, ast.Attribute) and e.attr in ("random_state", "_random_state"):
                            kind = "STREAM"
                        incoming.setdefault((t.qualname, p), []).append(kind)
            new = {}
            for k in self.sinks:
                kinds = incoming.get(k)
                if kinds and all(x == "STREAM" for x in kinds):
                    new[k] = "STREAM"
                else:
                    new[k] = "RAW"
            if new == self.param_kind:
                break
            self.param_kind = new
        self.incoming = incoming

    # ------------------------------------------------------------- loop facts
    @staticmethod
    def enclosing_loops(node: ast.AST) -> List[ast.AST]:
        out = []
        child = node
        for p in parents(node):
            if isinstance(p, (ast.FunctionDef, ast.AsyncFunctionDef, ast.Lambda)):
                break
            if isinstance(p, (ast.For, ast.While)) and child in p.body:
                out.append(p)
            if isinstance(p, (ast.ListComp, ast.GeneratorExp, ast.SetComp, ast.DictComp)):
                out.append(p)
            child = p
        return out

    @staticmethod
    def loop_variant_names(loop: ast.AST) -> Set[str]:
        names: Set[str] = set()
        if isinstance(loop, (ast.For,)):
            for n in ast.walk(loop.target):
                if isinstance(n, ast.Name):
                    names.add(n.id)
            for st in loop.body:
                for n in ast.walk(st):
                    if isinstance(n, ast.Name) and isinstance(n.ctx, ast.Store):
                        names.add(n.id)
        elif isinstance(loop, ast.While):
            for st in loop.body:
                for n in ast.walk(st):
                    if isinstance(n, ast.Name) and isinstance(n.ctx, ast.Store):
                        names.add(n.id)
        else:
            for g in loop.generators:
                for n in ast.walk(g.target):
                    if isinstance(n, ast.Name):
                        names.add(n.id)
        return names
