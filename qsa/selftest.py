"""Seeded-variant matrix: each rule is tested both ways on scratch copies of /repo/quara.

A *breaking* variant edits one rule instance; the check must report a new VIOLATION (of the
named rule when one is given).  A *neutral* variant is a behaviour-preserving rewrite; the check
must stay exactly as quiet as on the unchanged tree (no new violation, nothing undecided).
Variants are text edits anchored on a unique fragment of the current source; a variant whose
anchor is gone is counted as stale and skipped (the rule's own floors guard against vanished
anchors), it is never a verdict.  Scratch copies live in a fresh temporary directory and are
removed immediately.
"""
from __future__ import annotations

import importlib
import multiprocessing as mp
import os
import shutil
import tempfile
from typing import Dict, List, Optional


class V:
    def __init__(self, name, file, old, new, expect="fire", rule=None, count=1, also=None, note=""):
        self.name, self.file, self.old, self.new = name, file, old, new
        self.expect, self.rule, self.count, self.note = expect, rule, count, note
        self.also = also or []  # further (file, old, new) edits of the same variant
        self.patch = None       # or: a unified diff applied with `git apply` (confirmed seeds, neutral refactorings)


def variants_for(pid: str) -> List[V]:
    try:
        m = importlib.import_module("qsa.variants.%s" % pid.lower())
        out = list(m.VARIANTS)
    except ImportError:
        out = []
    return out + patch_variants(pid)


def patch_variants(pid: str) -> List[V]:
    """The confirmed breaking changes kept under /verif/seeded (must fire for their own property) and the behaviour-preserving
    refactorings kept under /verif/neutral (must leave every property as quiet as the unchanged tree), as unified diffs."""
    import glob
    import json
    from . import VERIF
    out = []
    for d in sorted(glob.glob(os.path.join(VERIF, "seeded", "*"))):
        pf, mf = os.path.join(d, "patch.diff"), os.path.join(d, "meta.json")
        if not (os.path.isfile(pf) and os.path.isfile(mf)):
            continue
        try:
            with open(mf) as fh:
                meta = json.load(fh)
        except ValueError:
            continue
        if meta.get("property") == pid:
            v = V("seeded/" + os.path.basename(d), None, None, None, expect="fire")
            v.patch = pf
            out.append(v)
    for pf in sorted(glob.glob(os.path.join(VERIF, "neutral", "*", "*.diff"))):
        v = V("neutral/%s/%s" % (os.path.basename(os.path.dirname(pf)), os.path.basename(pf)), None, None, None, expect="silent")
        v.patch = pf
        out.append(v)
    return out


def _apply_patch(root: str, patch: str) -> bool:
    import subprocess
    try:
        r = subprocess.run(["git", "apply", "--whitespace=nowarn", patch], cwd=root, capture_output=True, text=True, timeout=60)
    except (OSError, subprocess.SubprocessError):
        return False
    return r.returncode == 0


def _apply(root: str, file: str, old: str, new: str, count: int) -> bool:
    p = os.path.join(root, file)
    if not os.path.exists(p):
        return False
    with open(p, encoding="utf-8", newline="") as fh:
        s = fh.read()
    if "\r\n" in s:
        old, new = old.replace("\n", "\r\n"), new.replace("\n", "\r\n")
    if s.count(old) != count:
        return False
    with open(p, "w", encoding="utf-8", newline="") as fh:
        fh.write(s.replace(old, new))
    return True


def _run_one(args):
    pid, repo, v, base_viol, base_code = args
    from .cli import run_property
    tmp = tempfile.mkdtemp(prefix="qsa-variant-")
    try:
        shutil.copytree(os.path.join(repo, "quara"), os.path.join(tmp, "quara"),
                        ignore=shutil.ignore_patterns("__pycache__", "*.pyc"))
        if v.patch:
            if not _apply_patch(tmp, v.patch):
                return (v.name, v.expect, "stale", "")
        else:
            ok = _apply(tmp, v.file, v.old, v.new, v.count)
            for f2, o2, n2 in v.also:
                ok = ok and _apply(tmp, f2, o2, n2, 1)
            if not ok:
                return (v.name, v.expect, "stale", "")
            import ast
            try:
                with open(os.path.join(tmp, v.file), encoding="utf-8") as fh:
                    ast.parse(fh.read())
            except SyntaxError as e:
                return (v.name, v.expect, "broken-variant", "does not parse: %s" % e)
        code, rep = run_property(pid, tmp, "quick", write=False, quiet=True, selftest=False)
        new_viol = [o for o in rep.obs if o.status == "VIOLATION" and o.known is None and o.key() not in base_viol]
        und = [e for e in rep.errors]
        if v.expect == "fire":
            hit = [o for o in new_viol if v.rule is None or o.rule == v.rule]
            if hit:
                return (v.name, v.expect, "ok", "%s %s: %s" % (hit[0].rule, hit[0].func.split(".")[-1], hit[0].detail[:140]))
            if new_viol:
                return (v.name, v.expect, "wrong-rule", "fired %s, expected %s" % (sorted({o.rule for o in new_viol}), v.rule))
            return (v.name, v.expect, "MISSED", "no new violation (exit %d; %s)" % (code, "; ".join(und)[:200]))
        else:
            if new_viol:
                return (v.name, v.expect, "FALSE-ALARM", "%s %s: %s" % (new_viol[0].rule, new_viol[0].func, new_viol[0].detail[:160]))
            if code != base_code:
                return (v.name, v.expect, "NOT-SILENT", "exit %d vs %d: %s" % (code, base_code, "; ".join(und)[:240]))
            return (v.name, v.expect, "ok", "")
    finally:
        shutil.rmtree(tmp, ignore_errors=True)


def run_matrix(pid: str, repo: str, rep, jobs: Optional[int] = None) -> dict:
    vs = variants_for(pid)
    if not vs:
        return {"variants": 0, "note": "no seeded variants registered for this property"}
    rep.match_known()
    base_viol = {o.key() for o in rep.obs if o.status == "VIOLATION"}
    base_code = 1 if any(o.status == "VIOLATION" and o.known is None for o in rep.obs) else (2 if rep.errors or any(
        o.status == "UNDECIDED" for o in rep.obs) else 0)
    # floors are evaluated in finish(); emulate for the baseline code
    counts = {}
    for o in rep.obs:
        if o.status != "INFO":
            counts[o.rule] = counts.get(o.rule, 0) + 1
    if base_code == 0 and any(counts.get(r, 0) < fl for r, fl in rep.floors.items()):
        base_code = 2
    jobs = jobs or min(16, os.cpu_count() or 4)
    args = [(pid, repo, v, base_viol, base_code) for v in vs]
    if jobs > 1 and len(args) > 1:
        with mp.get_context("fork").Pool(min(jobs, len(args))) as pool:
            results = pool.map(_run_one, args, chunksize=1)   # variants differ a lot in cost (second opinions): no batching
    else:
        results = [_run_one(a) for a in args]
    summary = {"variants": len(vs), "breaking_expected": sum(1 for v in vs if v.expect == "fire"),
               "neutral_expected": sum(1 for v in vs if v.expect == "silent"),
               "fired": 0, "silent": 0, "stale": 0, "failures": []}
    details = []
    for name, expect, status, info in results:
        details.append({"variant": name, "expect": expect, "status": status, "info": info})
        if status == "ok":
            summary["fired" if expect == "fire" else "silent"] += 1
        elif status == "stale":
            summary["stale"] += 1
            rep.note("self-test variant %s is stale (its anchor text is not in the current tree); skipped" % name)
        else:
            summary["failures"].append("%s (%s): %s %s" % (name, expect, status, info))
    summary["details"] = details
    for fmsg in summary["failures"]:
        rep.error("self-test: " + fmsg)
    return summary
