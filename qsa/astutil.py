"""Small syntax helpers shared by the rules."""
from __future__ import annotations

import ast
import copy
from typing import Dict, List, Optional, Set

from .index import Func, dotted, own_nodes, parents


def body_wo_doc(node) -> List[ast.stmt]:
    b = list(node.body)
    if b and isinstance(b[0], ast.Expr) and isinstance(b[0].value, ast.Constant) and isinstance(b[0].value.value, str):
        b = b[1:]
    return b


def const(node) -> Optional[object]:
    """Numeric/str/bool/None literal value (handles unary minus), else the sentinel NOCONST."""
    if isinstance(node, ast.Constant):
        return node.value
    if isinstance(node, ast.UnaryOp) and isinstance(node.op, ast.USub) and isinstance(node.operand, ast.Constant) \
            and isinstance(node.operand.value, (int, float)):
        return -node.operand.value
    return NOCONST


class _NoConst:
    def __repr__(self):
        return "NOCONST"


NOCONST = _NoConst()


def is_num(node, value) -> bool:
    c = const(node)
    return c is not NOCONST and isinstance(c, (int, float)) and not isinstance(c, bool) and c == value


def kwarg(call: ast.Call, name: str) -> Optional[ast.AST]:
    for k in call.keywords:
        if k.arg == name:
            return k.value
    return None


def arg(call: ast.Call, idx: int, name: Optional[str] = None) -> Optional[ast.AST]:
    """Positional argument `idx`, or keyword `name`."""
    plain = [a for a in call.args]
    if idx < len(plain) and not any(isinstance(a, ast.Starred) for a in plain[: idx + 1]):
        return plain[idx]
    if name:
        return kwarg(call, name)
    return None


def assignments(func_node) -> Dict[str, List[ast.AST]]:
    """name -> list of binding constructs in the function's own body."""
    out: Dict[str, List[ast.AST]] = {}

    def tgt(t, node):
        if isinstance(t, ast.Name):
            out.setdefault(t.id, []).append(node)
        elif isinstance(t, (ast.Tuple, ast.List)):
            for e in t.elts:
                tgt(e, node)
        elif isinstance(t, ast.Starred):
            tgt(t.value, node)

    for n in own_nodes(func_node):
        if isinstance(n, ast.Assign):
            for t in n.targets:
                tgt(t, n)
        elif isinstance(n, (ast.AugAssign, ast.AnnAssign)):
            tgt(n.target, n)
        elif isinstance(n, (ast.For, ast.AsyncFor, ast.comprehension)):
            tgt(n.target, n)
        elif isinstance(n, ast.withitem) and n.optional_vars is not None:
            tgt(n.optional_vars, n)
        elif isinstance(n, ast.NamedExpr):
            tgt(n.target, n)
        elif isinstance(n, ast.ExceptHandler) and n.name:
            out.setdefault(n.name, []).append(n)
    return out


def single_defs(func: Func) -> Dict[str, ast.AST]:
    """Locals bound exactly once by a plain `name = expr` (not parameters)."""
    params = {p.arg for p in func.all_params}
    out = {}
    mutated = mutated_names(func.node)
    for name, binds in assignments(func.node).items():
        if name in params:
            continue
        if name in mutated and any(isinstance(b, ast.Assign) and isinstance(b.value, (ast.List, ast.Dict, ast.ListComp)) or
                                   (isinstance(b, ast.Assign) and isinstance(b.value, ast.Call) and unparse(b.value.func) in ("list", "dict", "collections.deque", "deque"))
                                   for b in binds):
            continue
        if len(binds) != 1:
            # several bindings that all assign the very same expression count as one (a block duplicated by inlining / copy-paste)
            if all(isinstance(b, ast.Assign) and len(b.targets) == 1 and isinstance(b.targets[0], ast.Name) for b in binds) \
                    and len({ast.dump(b.value) for b in binds}) == 1 \
                    and not any(isinstance(x, ast.Name) and x.id == name for x in ast.walk(binds[0].value)):
                out[name] = binds[0].value
            continue
        b = binds[0]
        if isinstance(b, ast.Assign) and len(b.targets) == 1 and isinstance(b.targets[0], ast.Name):
            out[name] = b.value
        elif isinstance(b, ast.AnnAssign) and b.value is not None and isinstance(b.target, ast.Name):
            out[name] = b.value
    return out


def mutated_names(func_node) -> Set[str]:
    """locals that are grown / updated in place (append, extend, subscript store ...): they do not hold their defining expression"""
    mutated = set()
    for n in own_nodes(func_node):
        if isinstance(n, ast.Call) and isinstance(n.func, ast.Attribute) and isinstance(n.func.value, ast.Name) \
                and n.func.attr in ("append", "extend", "insert", "appendleft", "reverse", "sort", "pop", "remove", "update", "setdefault", "clear"):
            mutated.add(n.func.value.id)
        elif isinstance(n, (ast.Assign, ast.AugAssign)):
            for t in (n.targets if isinstance(n, ast.Assign) else [n.target]):
                b = t
                while isinstance(b, ast.Subscript):
                    b = b.value
                if b is not t and isinstance(b, ast.Name):
                    mutated.add(b.id)
    return mutated


def expand_star_args(func: Func, call: ast.Call) -> ast.Call:
    """`g(*[h(v) for v in (a, b, c)], z)` -> `g(h(a), h(b), h(c), z)` when the starred sequence is a literal tuple / list or a
    one-generator comprehension over one (directly, or through locals bound once); otherwise the call is returned unchanged"""
    if not any(isinstance(a, ast.Starred) for a in call.args):
        return call
    sd = single_defs(func)

    def seq(e, depth=8):
        if depth <= 0:
            return None
        if isinstance(e, ast.Name) and e.id in sd:
            return seq(sd[e.id], depth - 1)
        if isinstance(e, (ast.Tuple, ast.List)) and not any(isinstance(x, ast.Starred) for x in e.elts):
            return list(e.elts)
        if isinstance(e, ast.Call) and isinstance(e.func, ast.Name) and e.func.id in ("list", "tuple") and len(e.args) == 1 and not e.keywords:
            return seq(e.args[0], depth - 1)
        if isinstance(e, (ast.ListComp, ast.GeneratorExp)) and len(e.generators) == 1 and not e.generators[0].ifs \
                and isinstance(e.generators[0].target, ast.Name):
            base = seq(e.generators[0].iter, depth - 1)
            if base is None:
                return None
            v = e.generators[0].target.id
            out = []
            for b in base:
                class S(ast.NodeTransformer):
                    def visit_Name(self, n):
                        return clone(b) if n.id == v and isinstance(n.ctx, ast.Load) else n
                out.append(ast.fix_missing_locations(S().visit(clone(e.elt))))
            return out
        return None
    new_args = []
    for a in call.args:
        if isinstance(a, ast.Starred):
            xs = seq(a.value)
            if xs is None:
                return call
            new_args += [clone(x) for x in xs]
        else:
            new_args.append(a)
    c = ast.Call(func=call.func, args=new_args, keywords=call.keywords)
    ast.copy_location(c, call)
    return c


def lazy_accessor(func: Func, field: str):
    """Shape of a lazily building accessor of self.<field>, read per path: (guarded, build statements, returns_ok).
      guarded       some path is taken only when `self.<field> is None` holds and some only when it does not
      build stmts   the simple statements that run only under `self.<field> is None`
      returns_ok    every returning path hands out self.<field> (or, on a building path, the very value it stored there)"""
    from .symsum import cases, returning
    atom = "self.%s is None" % field
    cs = cases(func)
    if not cs:
        return False, [], False
    rc = returning(cs)
    pols = set()
    ok = bool(rc)
    for c in rc:
        pol = next((p for t, p, _ in c.guards if t == atom), None)
        pols.add(pol)
        v = unparse(c.value) if c.value is not None else None
        if v is not None and (v == "self.%s" % field or v.startswith(("self.%s[" % field, "self.%s." % field))):
            continue
        st = c.attrs.get("self.%s" % field)
        if pol is True and st is not None and st[0] is not None and v == unparse(st[0]) and v != "None":
            continue
        ok = False
    region = []
    for n in own_nodes(func.node):
        if isinstance(n, ast.stmt) and not isinstance(n, (ast.If, ast.For, ast.While, ast.Try, ast.With, ast.FunctionDef)):
            if any(t == atom and p for t, p, _ in guards_of(n)):
                region.append(n)
    return (True in pols and (False in pols or None in pols)), region, ok


def always_exits(stmts) -> bool:
    """no path falls off the end of the block: it ends in return / raise, or in an if/else whose branches both do"""
    if not stmts:
        return False
    last = stmts[-1]
    if isinstance(last, (ast.Return, ast.Raise)):
        return True
    if isinstance(last, ast.If):
        return bool(last.orelse) and always_exits(last.body) and always_exits(last.orelse)
    return False


def dict_items(e: ast.AST) -> Optional[Dict[object, ast.AST]]:
    """{constant key: value node} for a dict display with constant keys or a dict(k=v, ...) call; None otherwise"""
    if isinstance(e, ast.Dict) and all(k is not None and isinstance(k, ast.Constant) for k in e.keys):
        return {k.value: v for k, v in zip(e.keys, e.values)}
    if isinstance(e, ast.Call) and isinstance(e.func, ast.Name) and e.func.id == "dict" and not e.args and all(k.arg for k in e.keywords):
        return {k.arg: k.value for k in e.keywords}
    return None


def literal_seq(func: Func, e: ast.AST, depth: int = 3) -> Optional[ast.AST]:
    """the List/Tuple/Set literal that `e` denotes: the literal itself, a local bound once to it, a module-level constant of
    the function's module, or a class attribute (self.X / Cls.X) bound once in the class body; None otherwise"""
    if depth <= 0 or e is None:
        return None
    if isinstance(e, (ast.List, ast.Tuple, ast.Set)):
        return e
    if isinstance(e, ast.Call) and isinstance(e.func, ast.Name) and e.func.id in ("list", "tuple", "set", "frozenset") and len(e.args) == 1 and not e.keywords:
        return literal_seq(func, e.args[0], depth - 1)
    if isinstance(e, ast.Name):
        f = func
        while f is not None:
            if e.id in {p.arg for p in f.all_params}:
                return None
            binds = assignments(f.node).get(e.id)
            if binds:
                d = single_defs(f).get(e.id)
                return literal_seq(f, d, depth - 1) if d is not None else None
            f = f.parent
        d = func.module.assigns.get(e.id)
        # a module constant must be bound once at module level
        n = sum(1 for st in func.module.tree.body if isinstance(st, (ast.Assign, ast.AnnAssign, ast.AugAssign))
                for t in (st.targets if isinstance(st, ast.Assign) else [st.target]) if isinstance(t, ast.Name) and t.id == e.id)
        return literal_seq(func, d, depth - 1) if d is not None and n == 1 else None
    if isinstance(e, ast.Attribute) and isinstance(e.value, ast.Name):
        c = func.cls
        f = func
        while c is None and f is not None:
            f = f.parent
            c = f.cls if f is not None else None
        if c is not None and (e.value.id == c.name or (func.self_name and e.value.id == func.self_name) or e.value.id == "cls"):
            d = c.class_attrs.get(e.attr)
            if d is not None:
                return literal_seq(func, d, depth - 1)
    return None


def element_defs(func: Func) -> Dict[str, ast.AST]:
    """Loop variables that range over a list built by a one-generator comprehension: `L = [E for v in I]; for x in L` /
    `for i, x in enumerate(L)` gives x -> E (E keeps the comprehension's own variable v).  Every loop binding x must range
    over the same L, and L must be bound once."""
    sd = single_defs(func)
    cand: Dict[str, set] = {}
    bad = set()
    for n in own_nodes(func.node):
        if not isinstance(n, (ast.For, ast.comprehension)):
            continue
        it, t = n.iter, n.target
        if isinstance(it, ast.Call) and isinstance(it.func, ast.Name) and it.func.id == "enumerate" and len(it.args) == 1 \
                and isinstance(t, ast.Tuple) and len(t.elts) == 2:
            it, t = it.args[0], t.elts[1]
        for x in ast.walk(n.target):
            if isinstance(x, ast.Name) and x is not t:
                bad.add(x.id)
        if isinstance(t, ast.Name):
            if isinstance(it, ast.Name) and isinstance(sd.get(it.id), ast.ListComp) and len(sd[it.id].generators) == 1 \
                    and not sd[it.id].generators[0].ifs:
                cand.setdefault(t.id, set()).add(it.id)
            else:
                bad.add(t.id)
    binds = assignments(func.node)
    out = {}
    for x, ls in cand.items():
        if x in bad or len(ls) != 1:
            continue
        if any(not isinstance(b, (ast.For, ast.comprehension)) for b in binds.get(x, [])):
            continue
        out[x] = sd[next(iter(ls))].elt
    return out


def clone(node):
    """Deep copy of an AST subtree without the index's back links (_parent, _func, ...)."""
    if isinstance(node, list):
        return [clone(x) for x in node]
    if not isinstance(node, ast.AST):
        return node
    new = node.__class__()
    for f in node._fields:
        if hasattr(node, f):
            setattr(new, f, clone(getattr(node, f)))
    for a in ("lineno", "col_offset", "end_lineno", "end_col_offset"):
        if hasattr(node, a):
            setattr(new, a, getattr(node, a))
    return new


class _Subst(ast.NodeTransformer):
    def __init__(self, defs, depth):
        self.defs = defs
        self.depth = depth

    def visit_Name(self, node):
        if isinstance(node.ctx, ast.Load) and node.id in self.defs and self.depth > 0:
            v = clone(self.defs[node.id])
            return _Subst(self.defs, self.depth - 1).visit(v)
        return node


def inline(func: Func, expr: ast.AST, depth: int = 6, defs=None) -> ast.AST:
    """`expr` with single-assignment locals replaced by their defining expressions."""
    defs = single_defs(func) if defs is None else defs
    e = clone(expr)
    return ast.fix_missing_locations(_Subst(defs, depth).visit(e))


def returns(func: Func) -> List[ast.Return]:
    return [n for n in own_nodes(func.node) if isinstance(n, ast.Return)]


def names_in(node) -> Set[str]:
    return {n.id for n in ast.walk(node) if isinstance(n, ast.Name)}


def is_zero_expr(node) -> bool:
    """Syntactically zero reference operand: 0, 0.0, np.zeros(...), np.zeros_like(...)."""
    if is_num(node, 0):
        return True
    if isinstance(node, ast.Call):
        d = dotted(node.func) or ""
        if d.split(".")[-1] in ("zeros", "zeros_like"):
            return True
    return False


def unparse(node) -> str:
    try:
        return " ".join(ast.unparse(node).split())
    except Exception:
        return ast.dump(node)


def stmt_of(node) -> ast.stmt:
    cur = node
    while cur is not None and not isinstance(cur, ast.stmt):
        cur = getattr(cur, "_parent", None)
    return cur


# --------------------------------------------------------------------------------------------------
# Normalisation helpers: rules match modulo harmless rewrites (renamed / introduced locals, nested vs
# conjoined conditions, De Morgan, guard clauses, `== True`, `not x is None`, x * x, np.dot ...)
# --------------------------------------------------------------------------------------------------
def norm_atom(e: ast.AST, positive: bool = True):
    """(canonical text, polarity) of a test atom."""
    while True:
        if isinstance(e, ast.UnaryOp) and isinstance(e.op, ast.Not):
            e, positive = e.operand, not positive
            continue
        if isinstance(e, ast.Compare) and len(e.ops) == 1:
            op, l, r = e.ops[0], e.left, e.comparators[0]
            if isinstance(op, (ast.Eq, ast.Is)) and isinstance(r, ast.Constant) and r.value is True:
                e = l
                continue
            if isinstance(op, (ast.Eq, ast.Is)) and isinstance(r, ast.Constant) and r.value is False:
                e, positive = l, not positive
                continue
            if isinstance(op, (ast.NotEq, ast.IsNot)) and isinstance(r, ast.Constant) and r.value is True:
                e, positive = l, not positive
                continue
            if isinstance(op, (ast.NotEq, ast.IsNot)) and isinstance(r, ast.Constant) and r.value is False:
                e = l
                continue
            neg = {ast.NotEq: ast.Eq, ast.IsNot: ast.Is, ast.NotIn: ast.In, ast.GtE: ast.Lt, ast.LtE: ast.Gt}
            for k, v in neg.items():
                if isinstance(op, k) and not isinstance(op, (ast.GtE, ast.LtE)):
                    e = ast.Compare(left=l, ops=[v()], comparators=[r])
                    positive = not positive
                    break
            else:
                break
            continue
        break
    return unparse(e), positive


def conjuncts(test: ast.AST, positive: bool = True):
    """The test as a conjunction of (canonical atom text, polarity, atom node): `a and b`, `not (a or b)` are split;
    returns None when the test (under this polarity) is a genuine disjunction."""
    if isinstance(test, ast.UnaryOp) and isinstance(test.op, ast.Not):
        return conjuncts(test.operand, not positive)
    if isinstance(test, ast.BoolOp):
        is_and = isinstance(test.op, ast.And)
        if is_and == positive:
            out = []
            for v in test.values:
                c = conjuncts(v, positive)
                if c is None:
                    return None
                out += c
            return out
        return None
    t, pol = norm_atom(test, positive)
    return [(t, pol, test)]


def guards_of(node: ast.AST, stop=None):
    """Conditions under which `node` is reached inside its function, as a list of (atom text, polarity, atom node):
    enclosing if-tests (with branch polarity) and preceding guard clauses of the enclosing blocks
    (`if T: return / raise / continue / break` makes `not T` hold afterwards).  Disjunctive information is dropped
    (reported as ('?', True, test) so that callers can see it was there)."""
    from .index import parents
    out = []
    child = node
    for p in parents(node):
        if stop is not None and p is stop:
            break
        if isinstance(p, (ast.FunctionDef, ast.AsyncFunctionDef, ast.Lambda)):
            # guard clauses of the function body itself
            _guard_clauses(p.body, child, out)
            break
        if isinstance(p, ast.If):
            in_body = any(child is x for x in p.body)
            in_else = any(child is x for x in p.orelse)
            if in_body or in_else:
                c = conjuncts(p.test, in_body)
                out += c if c is not None else [("?", True, p.test)]
        for field in ("body", "orelse", "finalbody"):
            blk = getattr(p, field, None)
            if isinstance(blk, list) and any(child is x for x in blk):
                _guard_clauses(blk, child, out)
        child = p
    return out


def _guard_clauses(blk, child, out):
    for prev in blk:
        if prev is child:
            break
        if isinstance(prev, ast.If) and not prev.orelse and prev.body and isinstance(prev.body[-1], (ast.Return, ast.Raise, ast.Continue, ast.Break)):
            c = conjuncts(prev.test, False)
            out += c if c is not None else [("?", True, prev.test)]


def deep_inline(func: Func, expr: ast.AST, extra=None, depth: int = 8) -> ast.AST:
    """inline single-definition locals (of func and of its enclosing functions) to a fixpoint"""
    defs = dict(single_defs(func))
    f = func.parent
    while f is not None:
        for k, v in single_defs(f).items():
            defs.setdefault(k, v)
        f = f.parent
    if extra:
        defs.update(extra)
    return inline(func, expr, depth=depth, defs=defs)


def square_base(e: ast.AST):
    """v for `v ** 2`, `v * v`, np.square(v), np.power(v, 2); else None"""
    if isinstance(e, ast.BinOp) and isinstance(e.op, ast.Pow) and is_num(e.right, 2):
        return e.left
    if isinstance(e, ast.BinOp) and isinstance(e.op, ast.Mult) and unparse(e.left) == unparse(e.right):
        return e.left
    if isinstance(e, ast.Call) and (dotted(e.func) or "") in ("np.square", "numpy.square") and len(e.args) == 1:
        return e.args[0]
    if isinstance(e, ast.Call) and (dotted(e.func) or "") in ("np.power", "numpy.power") and len(e.args) == 2 and is_num(e.args[1], 2):
        return e.args[0]
    return None


def compared_constants(func: Func, var: str) -> Optional[List]:
    """The constants a function compares `var` with by `==`: directly (`if var == "state"`) or through a scan of a literal table
    (`for key, x in TABLE: if var == key`, TABLE a literal / local / module-level tuple of tuples).  None when a comparison of
    `var` with something that cannot be resolved to constants is found (the caller must not read that as an empty table)."""
    out = []
    for n in own_nodes(func.node):
        if not (isinstance(n, ast.Compare) and len(n.ops) == 1 and isinstance(n.ops[0], ast.Eq)):
            continue
        l, r = n.left, n.comparators[0]
        if unparse(r) == var:
            l, r = r, l
        if unparse(l) != var:
            continue
        if isinstance(r, ast.Constant):
            out.append(r.value)
            continue
        if not isinstance(r, ast.Name):
            return None
        loops = [p for p in parents(n) if isinstance(p, (ast.For, ast.comprehension))]
        got = None
        for lp in loops:
            tg = lp.target
            pos = None
            if isinstance(tg, ast.Name) and tg.id == r.id:
                pos = -1
            elif isinstance(tg, ast.Tuple):
                for i, e in enumerate(tg.elts):
                    if isinstance(e, ast.Name) and e.id == r.id:
                        pos = i
            if pos is None:
                continue
            seq = literal_seq(func, lp.iter)
            if seq is None:
                return None
            vals = []
            for e in seq.elts:
                if pos == -1:
                    c = e
                elif isinstance(e, (ast.Tuple, ast.List)) and pos < len(e.elts):
                    c = e.elts[pos]
                else:
                    return None
                if not isinstance(c, ast.Constant):
                    return None
                vals.append(c.value)
            got = vals
            break
        if got is None:
            return None
        out.extend(got)
    return out


def const_in(func: Func, e: ast.AST):
    """const(e), seeing through a name bound once in the function - or once at module level - to a literal; NOCONST otherwise"""
    c = const(e)
    if c is not NOCONST or not isinstance(e, ast.Name):
        return c
    f = func
    while f is not None:
        if e.id in {p.arg for p in f.all_params}:
            return NOCONST
        if assignments(f.node).get(e.id):
            d = single_defs(f).get(e.id)
            return const(d) if d is not None else NOCONST
        f = f.parent
    d = func.module.assigns.get(e.id)
    n = sum(1 for st in func.module.tree.body if isinstance(st, (ast.Assign, ast.AnnAssign, ast.AugAssign))
            for t in (st.targets if isinstance(st, ast.Assign) else [st.target]) if isinstance(t, ast.Name) and t.id == e.id)
    return const(d) if d is not None and n == 1 else NOCONST

