"""C13 - results depend only on arguments: no operand mutation, coherent caches, frozen bases,
complete copies, global state written only by its setters, algorithms fully re-configured."""
from __future__ import annotations

import ast

from ..astutil import const, inline, kwarg, returns, single_defs, unparse
from ..effects import Effects, FRESH
from ..index import AnalysisError, Class, Func, dotted, own_nodes, parents
from ..slots import check_field_completeness, class_call_sites
from ..typestate import FieldFlow
from .c04 import effects_for

QUICK_PKGS = ("quara.objects", "quara.utils", "quara.math", "quara.qcircuit", "quara.protocol", "quara.loss_function",
              "quara.minimization_algorithm", "quara.settings")
# (function qualname, parameter) -> reason.  One named symbol per exception.
ALLOWED = {
    ("quara.protocol.qtomography.standard.loss_minimization_estimator.LossMinimizationEstimator.calc_estimate_sequence", "loss"):
        "documented: the estimator configures the loss object it is given for each dataset (freshness decided by C12 W2 / N6)",
    ("quara.protocol.qtomography.standard.loss_minimization_estimator.LossMinimizationEstimator.calc_estimate_sequence", "algo"):
        "documented: the estimator configures the algorithm object it is given for each dataset (freshness decided by N6)",
    ("quara.settings.Settings.set_atol", "cls"): "the documented setter of the global tolerance (N5)",
    ("quara.interface.cvxpy.qtomography.standard.estimator.CvxpyLossMinimizationEstimator.calc_estimate_sequence", "loss"):
        "documented: configures the loss object it is given",
    ("quara.interface.cvxpy.qtomography.standard.estimator.CvxpyLossMinimizationEstimator.calc_estimate_sequence", "algo"):
        "documented: configures the algorithm object it is given",
}
SETTER_PREFIXES = ("set_", "_set_", "reset_", "_reset_", "delete_", "_update_", "_calc_", "_validate", "__init__", "__post_init__")


def run(ctx, rep):
    ix = ctx.ix
    rep.rule("N1", "no function or method writes to a parameter (other than attribute updates of its own self in setters and "
                   "constructors), through any alias; allow-listed documented configuration calls excepted", floor=400)
    rep.rule("N2", "each lazily built table of CompositeSystem is initialised to None, read only inside the class through its guarded "
                   "accessor/builder, built from the immutable total basis, and reset by a delete method that clears exactly it", floor=9)
    rep.rule("N3", "basis classes store only fresh storage in _basis, clear the write flag of every ndarray element before "
                   "publication, and offer no setter; Povm does the same for its vecs", floor=5)
    rep.rule("N4", "copy() re-creates the object with a deep copy / the own value of every stored constructor field", floor=20)
    rep.rule("N5", "module globals and class attributes are written from function bodies only in the documented setters", floor=1)
    rep.rule("N6", "projected-gradient algorithms: every field optimize reads that set_constraint_from_standard_qt_and_option can "
                   "set is (re)written by it on every call", floor=1)
    rep.rule("N7", "loss / algorithm / estimator / experiment objects: a field derived from a method argument is stored on every path "
                   "whose conditions depend on the arguments only; no store is skipped because of the object's earlier state (hidden "
                   "memoisation keyed on less than the argument)", floor=25)
    _n1(ctx, rep)
    _n2(ctx, rep)
    _n3(ctx, rep)
    _n4(ctx, rep)
    _n5(ctx, rep)
    _n6(ctx, rep)
    _n7(ctx, rep)
    _n8(ctx, rep)


def _n8(ctx, rep):
    """reading a property never changes the object: a getter stores to no field of self, except a lazily built cache that it guards with
    `is None` and fills from inputs fixed at construction (the caches of N2)"""
    from ..astutil import lazy_accessor
    rep.rule("N8", "property getters do not write to the object they are read from (a default resolved on first read and stored - e.g. the "
                   "global tolerance of that moment - would make later results depend on when the property was first read); lazily built "
                   "caches of construction-time data excepted", floor=100)
    n = 0
    for f in ctx.ix.funcs.values():
        if f.kind != "property" or not f.module.name.startswith("quara.") or not f.self_name:
            continue
        n += 1
        stores = [x for x in own_nodes(f.node) if isinstance(x, ast.Attribute) and isinstance(x.ctx, ast.Store) and isinstance(x.value, ast.Name)
                  and x.value.id == f.self_name]
        if not stores:
            rep.holds("N8", f, "getter %s" % f.name, "no store to self", nontrivial=False)
            continue
        for fld in sorted({x.attr for x in stores}):
            guarded, region, ret_ok = lazy_accessor(f, fld)
            reads_global = any(isinstance(c, ast.Call) and "Settings" in unparse(c.func) for c in ast.walk(f.node))
            if guarded and ret_ok and not reads_global and fld.lstrip("_") == f.name:
                rep.holds("N8", f, "getter %s builds %s" % (f.name, fld), "guarded lazy cache of its own field")
            else:
                rep.violation("N8", f, "getter %s stores self.%s" % (f.name, fld), "reading the property `%s` writes self.%s%s: the object changes by being "
                              "read, and what it keeps depends on the moment of the first read" % (f.name, fld, " (from the global settings)" if reads_global else ""),
                              node=[x for x in stores if x.attr == fld][0])
    if n == 0:
        rep.undecided("N8", "quara", "getters", "no property getters found")


# ------------------------------------------------------------------------------ N1
def _internal(f: Func) -> bool:
    return f.parent is not None or (f.name.startswith("_") and not f.name.startswith("__"))


def _n1(ctx, rep):
    ef: Effects = effects_for(ctx)
    thorough = ctx.tier == "thorough"
    n_fun = 0
    clean = 0
    origin_hits = set()
    origin_reach = {}
    called = set()
    for q, sm in ef.summ.items():
        called |= set(getattr(sm, "callees", ()))
        for site in sm.sites:
            if not site.root:
                # a helper's write counts as reaching a caller only where it lands on something the caller did not create itself
                if any(r[0] != FRESH[0] for r in site.regions):
                    origin_hits |= set(site.origins or ())
                fq = ctx.ix.funcs[q]
                for o in site.origins or ():
                    for r in site.regions:
                        if r[0] != FRESH[0]:
                            origin_reach.setdefault((site.via, o), set()).add((q, "self" if (fq.self_name and r[0] == fq.self_name) else r[0]))

    def nearest_public(q0, origin):
        """public functions (with the parameter concerned) that reach the write `origin` in helper q0 through internal functions only"""
        tops, seen, todo = set(), {q0}, [q0]
        while todo:
            cur = todo.pop()
            for cq, cp in origin_reach.get((cur, origin), ()):
                if _internal(ctx.ix.funcs[cq]):
                    if cq not in seen:
                        seen.add(cq)
                        todo.append(cq)
                else:
                    tops.add((cq, cp))
        return tops
    for q, sm in sorted(ef.summ.items()):
        f = ctx.ix.funcs[q]
        if not thorough and not f.module.name.startswith(QUICK_PKGS):
            continue
        n_fun += 1
        reported = False
        for site in sm.sites:
            rs = [r for r in site.regions if r[0] != FRESH[0]]
            # own attribute updates (self, 0) are the object's own business in constructors and setters;
            # in-place writes into an attribute's storage (self, 1) are reported unless the method is a setter
            keep = []
            for r in rs:
                if f.self_name and r[0] == f.self_name:
                    if r[1] == 0:
                        continue
                    if f.name.startswith(SETTER_PREFIXES) or f.kind == "setter":
                        continue
                keep.append(r)
            if not keep:
                continue
            # root cause only: propagated writes are reported where they originate - unless the origin is an internal
            # helper (nested function, leading-underscore function or method): a helper that updates the working copy its
            # caller hands it is an implementation detail, and the write counts against the first PUBLIC function whose own
            # parameter reaches it
            if not site.root:
                continue
            if _internal(f) and q in called:
                # an internal helper (nested function, leading-underscore function or method) that is only ever handed
                # fresh working copies updates nothing a caller of the public API can see: the write is reported only if it
                # reaches a parameter or the object of some caller
                reaching = {r for r in keep if (q, "self" if (f.self_name and r[0] == f.self_name) else r[0]) in origin_hits}
                if not reaching:
                    rep.info("N1", f, site.node, "internal helper updates its argument in place; every caller hands it storage of its own", node=site.node)
                    continue
                # the write counts against the public callers whose parameter reaches it; documented ones are allow-listed there
                def documented(r):
                    key = (q, "self" if (f.self_name and r[0] == f.self_name) else r[0])
                    tops = nearest_public(q, key)
                    def own_business(t):
                        # the helper works on the object of a constructor / setter that calls it: the same exemption as for a write
                        # spelled out in that constructor / setter
                        tf = ctx.ix.funcs[t[0]]
                        return t[1] == "self" and (tf.name.startswith(SETTER_PREFIXES) or tf.kind == "setter")
                    return bool(tops) and all(t in ALLOWED or own_business(t) for t in tops)
                doc = {r for r in reaching if documented(r)}
                for r in sorted(doc):
                    rep.info("N1", f, site.node, "internal helper of an allow-listed public function / of a constructor or setter: the write reaches only the documented parameter / the object under construction", node=site.node)
                reaching -= doc
                if not reaching:
                    continue
                keep = sorted(reaching)
            params = sorted({r[0] for r in keep})
            allowed = [p for p in params if (q, p) in ALLOWED]
            params = [p for p in params if (q, p) not in ALLOWED]
            for p in allowed:
                rep.info("N1", f, site.node, "allow-listed: %s" % ALLOWED[(q, p)], node=site.node)
            if not params:
                continue
            reported = True
            rep.violation("N1", f, site.node, "writes to its argument %s: %s%s" % (params, site.how, (" [path: %s]" % site.label) if site.label else ""),
                          node=site.node, label=site.label)
        if not reported:
            clean += 1
            rep.holds("N1", f, "effects of %s" % q.split("quara.")[-1], "no parameter in the mutated regions", nontrivial=bool(sm.calls or sm.sites))
    rep.stats["N1_functions_summarised"] = n_fun
    rep.stats["N1_clean"] = clean
    rep.stats["effect_fixpoint_iterations"] = ef.iterations


# ------------------------------------------------------------------------------ N2
def _n2(ctx, rep):
    ix = ctx.ix
    cs = ix.cls("quara.objects.composite_system.CompositeSystem")
    init = cs.methods["__init__"]
    lazy = []
    for n in own_nodes(init.node):
        if isinstance(n, (ast.Assign, ast.AnnAssign)):
            tg = n.targets if isinstance(n, ast.Assign) else [n.target]
            if isinstance(n.value, ast.Constant) and n.value.value is None:
                for t in tg:
                    if isinstance(t, ast.Attribute) and unparse(t.value) == "self":
                        lazy.append(t.attr)
    if len(lazy) < 9:
        rep.undecided("N2", init, "lazy fields", "expected nine lazily built fields initialised to None, found %s" % lazy)
    ff = FieldFlow(ctx, cs)
    # outside readers
    outside = {}
    for f in ix.funcs.values():
        if f.cls is cs:
            continue
        for n in own_nodes(f.node):
            if isinstance(n, ast.Attribute) and n.attr in lazy:
                outside.setdefault(n.attr, []).append((f, n))
    for fld in lazy:
        con = "cache %s" % fld
        acc = cs.methods.get(fld.lstrip("_"))
        if acc is None:
            rep.violation("N2", cs.qualname, con, "no accessor named %s" % fld.lstrip("_"), file=cs.module.relpath, line=cs.node.lineno)
            continue
        problems = []
        # readers inside the class: accessor, builder(s) that assign it, delete method
        readers = [m for m in list(cs.methods.values()) if any(isinstance(n, ast.Attribute) and n.attr == fld and isinstance(n.ctx, ast.Load)
                                                                 and unparse(n.value) == "self" for n in own_nodes(m.node))]
        writers = [m for m in cs.methods.values() if m is not init and any(isinstance(n, ast.Attribute) and n.attr == fld and
                                                                           isinstance(n.ctx, ast.Store) for n in own_nodes(m.node))]
        builders = [m for m in writers if not m.name.startswith("delete_")]
        deleters = [m for m in writers if m.name.startswith("delete_")]
        for m in readers:
            if m is not acc and m not in builders:
                problems.append("%s reads self.%s directly instead of going through the accessor" % (m.name, fld))
        if fld in outside:
            problems.append("read outside the class by %s" % sorted({f.qualname.split("quara.")[-1] for f, _ in outside[fld]}))
        # accessor: `if self._x is None: <build>` then return self._x
        from ..astutil import lazy_accessor
        guarded, region, ret_ok = lazy_accessor(acc, fld)
        if not guarded:
            problems.append("accessor has no `is None` guard")
        else:
            must = set()
            for s in region:
                must |= ff.direct_stores(s, "self")
                for c in ast.walk(s):
                    if isinstance(c, ast.Call):
                        cal = ff.callee(acc, c)
                        if cal is not None:
                            must |= ff.must_writes(cal)
            if fld not in must:
                problems.append("the guarded build does not definitely assign self.%s" % fld)
        if not ret_ok:
            problems.append("accessor does not return self.%s" % fld)
        # builder inputs
        for b in builders or [acc]:
            reads = ff.reads(b) - set(lazy)
            extra = sorted(r for r in reads if r not in ("_total_basis",))
            if extra:
                problems.append("builder %s depends on mutable state %s" % (b.name, extra))
        # delete method clears exactly this field
        own_del = cs.methods.get("delete_" + fld.lstrip("_"))
        for d in deleters:
            if d is not own_del:
                problems.append("%s (the delete method of another cache) clears self.%s" % (d.name, fld))
        if own_del is not None:
            st = ff.direct_stores(ast.Module(body=own_del.node.body, type_ignores=[]), "self")
            if st != {fld}:
                problems.append("%s clears %s instead of exactly self.%s" % (own_del.name, sorted(st), fld))
            vals = [unparse(n.value) for n in own_nodes(own_del.node) if isinstance(n, ast.Assign)]
            if vals != ["None"]:
                problems.append("%s stores %s" % (own_del.name, vals))
            deleters = [own_del]
        if problems:
            rep.violation("N2", acc, con, "; ".join(problems), node=acc.node)
        else:
            rep.holds("N2", acc, con, "None-initialised, guarded accessor, built from the total basis only, %d delete method(s) clear exactly it"
                      % len(deleters), node=acc.node)


# ------------------------------------------------------------------------------ N3
def _n3(ctx, rep):
    ix = ctx.ix
    ef: Effects = effects_for(ctx)
    base = ix.cls("quara.objects.matrix_basis.Basis")
    classes = [base] + base.all_subclasses()
    for c in sorted(classes, key=lambda c: c.qualname):
        init = c.methods.get("__init__")
        if init is None:
            continue
        if "basis" in c.setters or "_basis" in c.setters:
            rep.violation("N3", c.qualname, "setter", "%s offers a setter for its basis" % c.name, file=c.module.relpath, line=c.node.lineno)
        stores = [n for n in own_nodes(init.node) if isinstance(n, (ast.Assign, ast.AnnAssign))
                  and unparse(n.targets[0] if isinstance(n, ast.Assign) else n.target) == "self._basis"]
        if not stores:
            continue
        # re-run the effect states to get the value stored
        vals = _stored_values(ctx, ef, init, stores)
        for st, v in vals:
            params = sorted({r[0] for r in (v[0] | v[1]) if r[0] not in (FRESH[0], init.self_name)})
            if params:
                rep.violation("N3", init, st, "self._basis may hold storage of the argument %s (no copy on that path): the basis shares, and "
                                              "changes with, the caller's matrices" % params, node=st)
            else:
                rep.holds("N3", init, st, "only fresh storage is stored", node=st)
        # ndarray elements frozen on every path
        froz = None if c is base else _freeze_ok(init)   # the abstract root handles no element type itself
        if froz is True:
            rep.holds("N3", init, "write flags in %s.__init__" % c.name, "every ndarray element gets setflags(write=False)", node=init.node)
        elif froz is False:
            rep.violation("N3", init, "write flags in %s.__init__" % c.name, "an ndarray element is stored without clearing its write flag "
                                                                            "(basis elements can then be modified in place)", node=init.node)
    # Povm vecs
    pi = ix.func("quara.objects.povm.Povm.__init__")
    stores = [n for n in own_nodes(pi.node) if isinstance(n, (ast.Assign, ast.AnnAssign)) and unparse(n.targets[0] if isinstance(n, ast.Assign) else n.target) == "self._vecs"]
    vals = _stored_values(ctx, ef, pi, stores)
    ok = bool(vals) and all(not {r[0] for r in (v[0] | v[1]) if r[0] not in (FRESH[0], "self")} for _, v in vals)
    frz = any(isinstance(n, ast.For) and unparse(n.iter) == "self._vecs" and any("setflags(write=False)" in unparse(s) for s in n.body) for n in own_nodes(pi.node))
    rep.check(ok and frz, "N3", pi, "Povm._vecs", "deep copy stored, write flags cleared", "Povm stores its vecs without a deep copy or leaves them writable", node=pi.node)


def _stored_values(ctx, ef: Effects, f: Func, stores):
    """abstract value of the right-hand side of each store, at the store"""
    cfg = ctx.cfg(f)
    out = []
    init = {p.arg: (frozenset([(p.arg, 0)]), frozenset([(p.arg, 1)])) for p in f.all_params}
    ef._cur = (f, ef.summ.get(f.qualname) or __import__("qsa.effects", fromlist=["Summary"]).Summary(), ef.scalars(f), set())

    def transfer(node, st):
        st = dict(st)
        ef._exec(node, st, record=False)
        return tuple(sorted(st.items()))

    def meet(states):
        acc = {}
        for s in states:
            for k, v in s:
                acc[k] = (acc[k][0] | v[0], acc[k][1] | v[1]) if k in acc else v
        return tuple(sorted(acc.items()))

    IN, OUT = cfg.forward(tuple(sorted(init.items())), transfer, meet)
    for st in stores:
        n = cfg.node_of(st)
        if n is None or n.id not in IN:
            continue
        state = dict(IN[n.id])
        out.append((st, ef.val(st.value, state)))
    return out


def _freeze_ok(init: Func):
    """True if every path that puts an ndarray into the basis clears its write flag; False if some
    ndarray-producing branch lacks it; None if no ndarray handling is visible."""
    txt = unparse(init.node)
    if "setflags(write=False)" not in txt:
        # sparse-only constructor (elements converted to csr) or delegating to super
        if "super().__init__" in txt or "csr_matrix" in txt:
            return None
        return False
    # loops building elements: each branch producing an ndarray (flatten / asarray / array) must freeze
    for n in own_nodes(init.node):
        if isinstance(n, ast.If) and isinstance(getattr(n, "_parent", None), ast.For):
            for br in (n.body, n.orelse):
                made = [s for s in br if isinstance(s, ast.Assign) and isinstance(s.value, ast.Call) and
                        (s.value.func.attr if isinstance(s.value.func, ast.Attribute) else (dotted(s.value.func) or ""))
                        in ("flatten", "toarray", "array", "asarray", "copy", "deepcopy", "ravel")]
                if made and not any("setflags(write=False)" in unparse(s) for s in br):
                    return False
    return True


# ------------------------------------------------------------------------------ N4
def _n4(ctx, rep):
    ix = ctx.ix
    for cq, vp in (("quara.objects.state.State", ("vec",)), ("quara.objects.povm.Povm", ("vecs",)), ("quara.objects.gate.Gate", ("hs",)),
                   ("quara.objects.mprocess.MProcess", ("hss",))):
        c = ix.cls(cq)
        m = c.lookup("copy")
        sites = class_call_sites(ctx, m)
        if len(sites) != 1:
            rep.undecided("N4", m, "%s.copy" % c.name, "expected one self.__class__(...) call")
            continue
        for p, ok, why in check_field_completeness(ctx, m, c, sites[0], c.lookup("__init__"), True, value_params=vp + ("c_sys",)):
            con = "%s.copy carries %s" % (c.name, p)
            if ok:
                rep.holds("N4", m, con, why, node=sites[0])
            elif ok is None:
                rep.undecided("N4", m, con, why)
            else:
                rep.violation("N4", m, con, "the copy's '%s' differs from the original: %s" % (p, why), node=sites[0])
        # the value itself is a deep copy
        cp = c.lookup("_copy")
        r = returns(cp) if cp else []
        ok = bool(r) and all("copy.deepcopy(" in unparse(x.value) or "copy.copy(" in unparse(x.value) or ".copy()" in unparse(x.value) for x in r)
        if ok and r:
            # every component is wrapped
            v = r[0].value
            elts = v.elts if isinstance(v, ast.Tuple) else [v]
            ok = all(isinstance(e, ast.Call) and (dotted(e.func) or "").split(".")[-1] in ("deepcopy", "copy") for e in elts)
        rep.check(ok, "N4", cp or cq, "%s._copy" % c.name, "value is deep-copied", "the copied object shares its arrays with the original", node=r[0] if r else None)


# ------------------------------------------------------------------------------ N5
def _n5(ctx, rep):
    ix = ctx.ix
    allowed = {"quara.settings.Settings.set_atol", "quara.qcircuit.experiment.Experiment.reset_seed_data",
               "quara.data_analysis.physicality_violation_check.set_ineq_const_eps", "quara.data_analysis.physicality_violation_check.set_eq_const_eps"}
    found = 0
    for f in ix.funcs.values():
        if f.module.name.startswith(("quara.interface",)) or f.module.name.endswith("simulation_report"):
            continue  # optional-dependency adapters and the PDF/HTML report writer (temp-dir bookkeeping) are out of scope
        glob = set()
        for n in own_nodes(f.node):
            if isinstance(n, ast.Global):
                glob |= set(n.names)
        for n in own_nodes(f.node):
            hit = None
            if isinstance(n, ast.Name) and isinstance(n.ctx, ast.Store) and n.id in glob:
                hit = "global %s" % n.id
            elif isinstance(n, ast.Attribute) and isinstance(n.ctx, ast.Store) and isinstance(n.value, ast.Name):
                t = ix.scope_lookup(f.module, f, n.value.id)
                if isinstance(t, Class) and n.value.id not in ctx.res.locals_of(f):
                    hit = "class attribute %s.%s" % (t.name, n.attr)
                elif f.kind == "classmethod" and f.all_params and n.value.id == f.all_params[0].arg:
                    hit = "class attribute %s.%s" % (f.cls.name if f.cls else "?", n.attr)
            if hit:
                found += 1
                if f.qualname in allowed:
                    rep.holds("N5", f, n, "documented setter writes %s" % hit, node=n)
                else:
                    rep.violation("N5", f, n, "%s is written from a function body: hidden process-global state" % hit, node=n)
    rep.stats["N5_global_writes"] = found


# ------------------------------------------------------------------------------ N6
def _n6(ctx, rep):
    ix = ctx.ix
    c = ix.cls("quara.minimization_algorithm.projected_gradient_descent.ProjectedGradientDescent")
    m = c.methods["set_constraint_from_standard_qt_and_option"]
    for k in [c] + c.all_subclasses():
        opt = k.methods.get("optimize")
        if opt is None or k is c:
            continue
        ff = FieldFlow(ctx, k)
        reads = ff.reads(opt)
        may = ff.may_writes(m)
        must = ff.must_writes(m)
        stale = sorted((reads & may) - must)
        con = "%s: fields set_constraint... may set and optimize reads" % k.name
        if stale:
            rep.violation("N6", m, con, "field(s) %s are read by optimize but only written on some paths of "
                                        "set_constraint_from_standard_qt_and_option (`if self._func_proj is not None: return`): a second tomography or "
                                        "option on the same algorithm object silently keeps the first projection" % stale, node=m.node)
        else:
            rep.holds("N6", m, con, "every such field is written on every path", node=m.node)


# ------------------------------------------------------------------------------ N7
N7_PKGS = ("quara.loss_function", "quara.minimization_algorithm", "quara.protocol", "quara.qcircuit")


def _n7(ctx, rep):
    """A field whose stored value is derived from a method argument must not be kept from an earlier call depending on the
    object's own state: `if self._key != key: self._x = f(arg)` / `if self._x is not None: return` make the result of the next
    call depend on the history of the object, not on its arguments."""
    n = 0
    for f in ctx.ix.funcs.values():
        if not f.module.name.startswith(N7_PKGS) or f.parent is not None or f.cls is None or f.self_name is None:
            continue
        if f.name in ("__init__", "__post_init__"):
            continue
        if f.qualname.endswith("ProjectedGradientDescent.set_constraint_from_standard_qt_and_option"):
            continue        # rule N6 owns this method (known finding F5)
        params = list(f.params)
        if not params:
            continue
        tainted = set(params)
        assigns = [x for x in own_nodes(f.node) if isinstance(x, ast.Assign) and len(x.targets) == 1 and isinstance(x.targets[0], (ast.Name, ast.Tuple))]
        for _ in range(3):
            for a in assigns:
                if any(isinstance(x, ast.Name) and x.id in tainted for x in ast.walk(a.value)):
                    for t in ast.walk(a.targets[0]):
                        if isinstance(t, ast.Name):
                            tainted.add(t.id)
        for st in own_nodes(f.node):
            if not isinstance(st, ast.Assign):
                continue
            for t in st.targets:
                if not (isinstance(t, ast.Attribute) and isinstance(t.value, ast.Name) and t.value.id == f.self_name):
                    continue
                src = sorted({x.id for x in ast.walk(st.value) if isinstance(x, ast.Name) and x.id in tainted})
                if not src:
                    continue
                n += 1
                guards = _state_guards(f, st)
                con = "%s.%s: self.%s <- %s" % (f.cls.name, f.name, t.attr, ", ".join(src))
                bad = [g for g in guards if any(isinstance(x, ast.Attribute) and isinstance(x.value, ast.Name) and x.value.id == f.self_name
                                                and isinstance(x.ctx, ast.Load) for x in ast.walk(g))]
                # a guard that only tests the argument-derived values (or parameters) is a function of the arguments
                if bad:
                    rep.violation("N7", f, con, "the store of self.%s (derived from the argument%s %s) is skipped depending on the object's own state "
                                  "(`%s`): a later call with a different argument can keep the value computed for an earlier one"
                                  % (t.attr, "s" if len(src) > 1 else "", ", ".join(src), unparse(bad[0])[:80]), node=st)
                else:
                    rep.holds("N7", f, con, "stored whenever the path conditions on the arguments allow", node=st)
    rep.stats["N7_argument_derived_stores"] = n


def _state_guards(f, st):
    """tests that decide whether `st` is reached: enclosing if/while tests and earlier `if T: return` statements of the enclosing blocks"""
    out = []
    child = st
    for p in parents(st):
        if isinstance(p, (ast.If, ast.While)):
            out.append(p.test)
        for field in ("body", "orelse", "finalbody"):
            blk = getattr(p, field, None)
            if isinstance(blk, list) and any(child is x for x in blk):
                for prev in blk[:[i for i, x in enumerate(blk) if x is child][0]]:
                    if isinstance(prev, ast.If) and prev.body and isinstance(prev.body[-1], ast.Return):
                        out.append(prev.test)
        if isinstance(p, (ast.FunctionDef, ast.AsyncFunctionDef)):
            break
        child = p
    return out
