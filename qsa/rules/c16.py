"""C16 - outcome bookkeeping (layout only): one row-major index convention, exact symbolic
mutual inverse of the index maps, layouts agree with reported shapes."""
from __future__ import annotations

import ast

from ..astutil import kwarg, unparse
from ..index import AnalysisError, Func, dotted, own_nodes
from ..layout import layout_sites
from ..poly import Poly
from ..symint import SymInterp, Undecided
from .c03 import fully

U = "quara.utils.index_util."
USERS = {
    "quara.objects.mprocess.MProcess.hs": ("self.shape", "self._shape"),
    "quara.objects.multinomial_distribution.MultinomialDistribution.__getitem__": ("self._shape", "self.shape"),
    "quara.objects.state_ensemble.StateEnsemble.state": ("shape", "list(shape)", "self.prob_dist.shape", "list(self.prob_dist.shape)"),
    "quara.objects.povm.Povm._md_index2serial_index": ("self.nums_local_outcomes", "self._nums_local_outcomes"),
    "quara.objects.multinomial_distribution.MultinomialDistribution.marginalize": ("self.shape", "self._shape"),
    "quara.objects.multinomial_distribution.MultinomialDistribution.conditionalize": ("self.shape", "self._shape"),
}


def _concrete_counterexample(enc, dec, rank):
    """('decoder'|'encoder', radices, what was computed, what row-major gives) or None"""
    import itertools
    C = Poly.const
    shapes = {1: [(3,)], 2: [(2, 3), (3, 2)], 3: [(2, 3, 2), (3, 2, 4)], 4: [(2, 3, 2, 2), (2, 2, 3, 2)]}[rank]
    for shape in shapes:
        total = 1
        for x in shape:
            total *= x
        for s_ in range(total):
            # row-major digits of s_
            want, r = [], s_
            for n_ in reversed(shape):
                want.append(r % n_)
                r //= n_
            want = tuple(reversed(want))
            try:
                ds = SymInterp(dec, {}).run({"nums_length": [C(x) for x in shape], "index_serial": C(s_)})
                if len(ds) == 1:
                    got = tuple(int(x.as_const()) for x in ds[0].ret)
                    if got != want:
                        return ("decoder", list(shape), "serial index %d is decoded as %s" % (s_, got), want)
                es = SymInterp(enc, {}).run({"nums_length": [C(x) for x in shape], "index_multi_dimensional": tuple(C(x) for x in want)})
                if len(es) == 1 and int(es[0].ret.as_const()) != s_:
                    return ("encoder", list(shape), "multi-index %s is encoded as %d" % (want, int(es[0].ret.as_const())), s_)
            except (Undecided, AttributeError, TypeError, ValueError):
                return None
    return None


def run(ctx, rep):
    ix = ctx.ix
    rep.rule("X1", "every user of a multi-index goes through index_serial_from_index_multi_dimensional with the object's own shape, or "
                   "through a default-order (row-major) reshape with that shape", floor=6)
    rep.rule("X2", "for every rank 1..4 and all radices, symbolically: encoder(idx) = sum_k idx_k * prod_{j>k} n_j (row-major), "
                   "decoder(encoder(idx)) = idx and encoder(decoder(s)) = s for 0 <= s < prod n", floor=12)
    rep.rule("X3", "lists indexed by two outcome indices are filled in the order their reported shape concatenates the operands", floor=4)
    rep.rule("X4", "a distribution re-created from a reduced / sliced probability array reports that array's own axis sizes, in the "
                   "array's axis order (numpy reductions and mask selections keep the surviving axes in ascending order)", floor=2)
    enc = ix.func(U + "index_serial_from_index_multi_dimensional")
    dec = ix.func(U + "index_multi_dimensional_from_index_serial")
    _x4(ctx, rep)
    # ---- X1
    for q, shapes in USERS.items():
        f = ix.func(q)
        calls = [n for n in own_nodes(f.node) if isinstance(n, ast.Call) and enc in ctx.res.resolve_call(f, n, by_name=False)]
        resh = [n for n in own_nodes(f.node) if isinstance(n, ast.Call) and isinstance(n.func, ast.Attribute) and n.func.attr == "reshape"]
        other = [n for n in own_nodes(f.node) if isinstance(n, ast.Call) and (dotted(n.func) or "").split(".")[-1] in
                 ("ravel_multi_index", "unravel_index", "flatten") and kwarg(n, "order") is not None]
        ok, why = False, "no index conversion found"
        if calls:
            a = calls[0].args[0] if calls[0].args else kwarg(calls[0], "nums_length")
            defs = {unparse(s.targets[0]): unparse(s.value) for s in own_nodes(f.node) if isinstance(s, ast.Assign) and isinstance(s.targets[0], ast.Name)}
            at = unparse(a) if a is not None else ""
            at_res = defs.get(at, at)
            inner = at[5:-1] if at.startswith("list(") else at
            ok = at in shapes or at_res in shapes or defs.get(inner, inner) in shapes
            why = "the radix list handed to the encoder is %s, not the object's shape" % at
        elif resh:
            r = resh[0]
            a = unparse(r.args[0]) if r.args else ""
            ok = a in shapes and kwarg(r, "order") is None and len(r.args) == 1
            why = "reshape(%s%s) is not a default-order reshape with the object's shape" % (a, ", order=..." if kwarg(r, "order") is not None else "")
        if other:
            ok, why = False, "an explicit order= argument changes the index convention"
        rep.check(ok, "X1", f, "multi-index use in %s" % f.name, "single row-major convention", why, node=f.node)
    # ---- X2
    S = Poly.sym
    for rank in range(1, 5):
        n = [S("n%d" % k) for k in range(rank)]
        i = tuple(S("i%d" % k) for k in range(rank))
        total = Poly.const(1)
        for x in n:
            total = total * x
        try:
            ps = SymInterp(enc, {}).run({"nums_length": list(n), "index_multi_dimensional": i})
            if len(ps) != 1:
                raise Undecided("encoder has %d paths" % len(ps))
            got = ps[0].ret
            want = Poly()
            for k in range(rank):
                w = Poly.const(1)
                for j in range(k + 1, rank):
                    w = w * n[j]
                want = want + i[k] * w
            rep.check(got == want, "X2", enc, "encoder rank %d" % rank, "%r (row-major)" % got, "encoder gives %r, row-major is %r" % (got, want), node=enc.node)
            # decoder(encoder(idx)) == idx, with 0 <= i_k < n_k
            ranges = {"i%d" % k: n[k] for k in range(rank)}
            ds = SymInterp(dec, {}).run({"nums_length": list(n), "index_serial": got}, ranges=ranges)
            ok = len(ds) == 1 and tuple(ds[0].ret) == i
            rep.check(ok, "X2", dec, "decoder(encoder(idx)) rank %d" % rank, "identity", "decoder(encoder(idx)) = %s" % ([d.ret for d in ds],), node=dec.node)
            # encoder(decoder(s)) == s for 0 <= s < prod n
            ds = SymInterp(dec, {}).run({"nums_length": list(n), "index_serial": S("s")}, ranges={"s": total})
            ok = len(ds) == 1
            if ok:
                d = ds[0]
                es = SymInterp(enc, {}).run({"nums_length": list(n), "index_multi_dimensional": tuple(d.ret)}, ranges=d.ranges, defs=d.defs)
                ok = len(es) == 1 and fully(es[0].ret, d.defs) == fully(S("s"), d.defs)
            rep.check(ok, "X2", enc, "encoder(decoder(s)) rank %d" % rank, "identity on 0 <= s < prod n", "encoder(decoder(s)) differs from s", node=enc.node)
        except Undecided as e:
            # the symbolic argument did not go through: look for a concrete counterexample (constant interpretation of the two functions
            # on small radices); a counterexample refutes the clause, its absence leaves the obligation undecided
            cex = _concrete_counterexample(enc, dec, rank)
            if cex is not None:
                rep.violation("X2", dec if cex[0] == "decoder" else enc, "rank %d" % rank,
                              "counterexample: radices %s, %s; the row-major convention gives %s" % (cex[1], cex[2], cex[3]), node=(dec if cex[0] == "decoder" else enc).node)
            else:
                rep.undecided("X2", enc, "rank %d" % rank, str(e))
    # ---- X3 (shared layout sites)
    from ..layout import check_fill_vs_shape
    OPS = "quara.objects.operators."
    check_fill_vs_shape(ctx, rep, "X3", [OPS + n for n in (
        "_compose_qoperations_MProcess_MProcess", "_tensor_product_MProcess_MProcess", "_tensor_product_StateEnsemble_StateEnsemble",
        "_tensor_product_Povm_Povm", "_compose_qoperations_MProcess_StateEnsemble", "_compose_qoperations_Povm_StateEnsemble")])


# ------------------------------------------------------------------------------ X4
def _x4(ctx, rep):
    from ..astutil import single_defs
    from ..tables import flat_order
    ix = ctx.ix
    cls = ix.cls("quara.objects.multinomial_distribution.MultinomialDistribution")
    for mname in ("marginalize", "conditionalize"):
        m = cls.methods.get(mname)
        if m is None:
            raise AnalysisError("MultinomialDistribution.%s not found" % mname)
        calls = [n for n in own_nodes(m.node) if isinstance(n, ast.Call) and isinstance(n.func, ast.Name) and n.func.id == "MultinomialDistribution"]
        if len(calls) != 1:
            rep.undecided("X4", m, "re-creation", "expected one MultinomialDistribution(ps, shape) call, found %d" % len(calls))
            continue
        call = calls[0]
        ps = call.args[0] if call.args else kwarg(call, "ps")
        sh = call.args[1] if len(call.args) > 1 else kwarg(call, "shape")
        if ps is None or sh is None:
            rep.undecided("X4", m, call, "ps / shape argument missing")
            continue
        # all bindings of a local, in order
        binds = {}
        for n in sorted((x for x in own_nodes(m.node) if isinstance(x, ast.Assign) and len(x.targets) == 1 and isinstance(x.targets[0], ast.Name)),
                        key=lambda x: x.lineno):
            binds.setdefault(n.targets[0].id, []).append(n.value)

        def chain(e):
            """follow name -> its bindings, returning the list of expressions from last to first"""
            out = [e]
            seen = set()
            while isinstance(out[-1], ast.Name) and out[-1].id in binds and out[-1].id not in seen:
                nm = out[-1].id
                seen.add(nm)
                out.extend(reversed(binds[nm]))
            return out
        # the array that is flattened
        arr = None
        for e in chain(ps):
            x = e
            if isinstance(x, ast.BinOp) and isinstance(x.op, ast.Div):
                x = x.left
            o, base = flat_order(ctx, x)
            if o == "C":
                arr = base
                break
            if o == "F":
                rep.violation("X4", m, call, "probabilities are flattened column-major (`%s`) while every index user assumes row-major" % unparse(x), node=call)
                arr = False
                break
        if arr is False:
            continue
        if arr is None:
            rep.undecided("X4", m, call, "ps `%s` is not a row-major flatten of an array" % unparse(ps))
            continue
        arr_t = unparse(arr)
        # an un-targeted squeeze drops EVERY axis of length 1 - also the axis of a retained variable that happens to have one value
        def untargeted(x):
            if not (isinstance(x, ast.Call) and (dotted(x.func) or "").split(".")[-1] == "squeeze") or kwarg(x, "axis") is not None:
                return False
            module_form = (dotted(x.func) or "") in ("np.squeeze", "numpy.squeeze")
            return len(x.args) == (1 if module_form else 0)
        sq = [x for e0 in chain(arr) for x in ast.walk(e0) if untargeted(x)]
        if sq:
            rep.violation("X4", m, call, "`%s` removes every axis of length 1: a retained variable with a single value loses its axis, so the result has "
                                         "fewer variables than were retained (pass axis= with exactly the conditioned / removed axes)" % unparse(sq[0]), node=sq[0])
            continue
        sh_chain = chain(sh)
        texts = [unparse(e).replace(" ", "") for e in sh_chain]
        if any(t in ("%s.shape" % arr_t, "tuple(%s.shape)" % arr_t, "list(%s.shape)" % arr_t) for t in texts):
            rep.holds("X4", m, call, "shape is %s.shape, the flattened array's own" % arr_t, node=call)
            continue
        # the array is a selection / reduction of self.ps.reshape(self.shape): surviving axes ascend
        src = None
        for e in chain(arr):
            t = unparse(e).replace(" ", "")
            if t.startswith(("np.sum(self.ps.reshape(self.shape),", "self.ps.reshape(self.shape)[")):
                src = e
                break
        if src is None:
            rep.undecided("X4", m, call, "flattened array `%s` is not a reduction / selection of self.ps.reshape(self.shape)" % arr_t)
            continue
        # accepted: boolean-mask selection of self.shape (order preserving)
        mask_ok = False
        for e0 in sh_chain:
          for e in ast.walk(e0):
            if isinstance(e, ast.Subscript) and unparse(e.value).replace(" ", "") in ("np.array(self.shape)", "np.asarray(self.shape)", "np.array(self._shape)") \
                    and isinstance(e.slice, ast.Name):
                mk = e.slice.id
                inits = [unparse(v).replace(" ", "") for v in binds.get(mk, [])]
                stores = [n for n in own_nodes(m.node) if isinstance(n, ast.Assign) and isinstance(n.targets[0], ast.Subscript)
                          and unparse(n.targets[0].value) == mk]
                mask_ok = bool(inits) and all(i.startswith("[True]*") for i in inits) and all(unparse(s_.value) == "False" for s_ in stores)
        if mask_ok:
            rep.holds("X4", m, call, "shape is a boolean-mask selection of self.shape: surviving sizes stay in axis order", node=call)
            continue
        # caller-ordered selection: [self.shape[i] for i in <parameter>]
        bad = None
        for e in sh_chain:
            for c in ast.walk(e):
                if isinstance(c, (ast.GeneratorExp, ast.ListComp)) and len(c.generators) == 1 and isinstance(c.generators[0].iter, ast.Name) \
                        and c.generators[0].iter.id in m.params and "self.shape[" in unparse(c.elt):
                    bad = c
        if bad is not None:
            rep.violation("X4", m, call, "the reported shape `%s` lists the sizes in the caller's order of `%s`, but `%s` keeps the surviving axes "
                                         "in ascending order: for a non-sorted request with unequal sizes the probabilities are read with "
                                         "the wrong strides" % (unparse(bad), bad.generators[0].iter.id, unparse(src)[:60]), node=call)
        else:
            rep.undecided("X4", m, call, "shape `%s` is neither the flattened array's .shape nor a mask selection of self.shape" % unparse(sh))
