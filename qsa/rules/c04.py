"""C04 - projections: spectral discipline, no write to the argument, equality projections write
exactly the constrained coordinates on a private copy, object- and variable-level siblings agree."""
from __future__ import annotations

import ast

from ..astutil import const, inline, is_num, kwarg, returns, single_defs, unparse
from ..effects import Effects, FRESH
from ..index import AnalysisError, Func, dotted, own_nodes
from ..linform import Lin, NotLinear, eval_lin
from .. import spectral

OBJ = "quara.objects."
TYPES = {"state": OBJ + "state.State", "povm": OBJ + "povm.Povm", "gate": OBJ + "gate.Gate", "mprocess": OBJ + "mprocess.MProcess"}
PROJ = ["calc_proj_eq_constraint", "calc_proj_ineq_constraint", "calc_proj_eq_constraint_with_var", "calc_proj_ineq_constraint_with_var"]
QOP = OBJ + "qoperation.QOperation."
CLOSURES = ["func_calc_proj_eq_constraint", "func_calc_proj_ineq_constraint", "func_calc_proj_eq_constraint_with_var",
            "func_calc_proj_ineq_constraint_with_var", "func_calc_proj_physical", "func_calc_proj_physical_with_var"]


def effects_for(ctx):
    e = getattr(ctx, "_effects", None)
    if e is None:
        funcs = [f for q, f in ctx.ix.funcs.items() if not q.startswith(("quara.interface", "quara.objects.circuit"))
                 and "simulation_report" not in q]
        e = Effects(ctx, funcs)
        e.run()
        ctx._effects = e
    return e


def run(ctx, rep):
    ix = ctx.ix
    rep.rule("S1", "eigenvectors of eigh are used as columns, and spectral reconstructions are V·diag(w)·V† (conjugate transpose)", floor=7)
    rep.rule("S2", "between diag(w) and the reconstruction only negative eigenvalues are replaced, by 0", floor=6)
    rep.rule("S3", "no projection (object level, variable level, optimiser closures, physical projection) writes to its argument "
                   "(interprocedural alias/effect summary: mutated regions contain no parameter)", floor=24)
    rep.rule("S4", "equality projections: State sets coefficient 0 on a deep copy; Gate sets row 0 to e0 on a deep copy; Povm computes "
                   "vec - mean + c with mean = sum/m; MProcess subtracts (sum of first rows - e0)/m from every first row; object- and "
                   "variable-level siblings compute the same form", floor=8)
    rep.rule("S5", "an option resolved against the object's own value (`if p is None: p = self._p`, `p = self.p if p is None else p`) is "
                   "used in its resolved form everywhere below, including inside the projection closures handed to the optimisers: "
                   "re-reading self.p there discards the caller's override (e.g. the parametrisation flag of the variable vector)", floor=12)
    _s5(ctx, rep)
    # ---------------------------------------------------------------- S1 / S2
    sites = []
    for kind, cq in TYPES.items():
        c = ix.cls(cq)
        for m in ("calc_proj_ineq_constraint", "calc_proj_ineq_constraint_with_var"):
            f = c.methods.get(m)
            if f is None:
                raise AnalysisError("%s.%s not found" % (cq, m))
            sites.append(f)
    sites.append(ix.func(OBJ + "gate.to_kraus_matrices_from_hs"))
    n_dec = 0
    for f in sites:
        decs = spectral.decompositions(f)
        n_dec += len(decs)
        for fd in spectral.check(f):
            if fd.ok is True:
                rep.holds(fd.kind, f, fd.node, fd.text, node=fd.node)
            elif fd.ok is False:
                rep.violation(fd.kind, f, fd.node, fd.text, node=fd.node)
            else:
                rep.undecided(fd.kind, f, fd.node, fd.text)
        # a projection with an eigen-decomposition must clip
        if decs and "ineq" in f.name and not any(fd.kind == "S2" for fd in spectral.check(f)):
            rep.violation("S2", f, "clipping", "the eigenvalues are never clipped: the result is not a projection onto the positive cone", node=f.node)
    rep.stats["eigendecomposition_sites"] = n_dec
    # MProcess delegates to Gate per outcome
    for m in ("calc_proj_ineq_constraint", "calc_proj_ineq_constraint_with_var"):
        f = ix.cls(TYPES["mprocess"]).methods[m]
        calls = [n for n in own_nodes(f.node) if isinstance(n, ast.Call) and unparse(n.func) == "Gate.calc_proj_ineq_constraint_with_var"]
        from ..tables import flat_order
        from ..index import parents as _parents
        ok = False
        if len(calls) == 1 and const(kwarg(calls[0], "on_para_eq_constraint")) is False and len(calls[0].args) >= 2:
            # the projected vector is the row-major flattening of the loop's own HS matrix, and the loop ranges over all of them
            order, base = flat_order(ctx, calls[0].args[1])
            lp = next((p_ for p_ in _parents(calls[0]) if isinstance(p_, (ast.For, ast.comprehension, ast.ListComp, ast.GeneratorExp))), None)
            gens = [lp] if isinstance(lp, (ast.For, ast.comprehension)) else (lp.generators if lp is not None else [])
            lvs = set()
            for g_ in gens:
                it_, tg_ = g_.iter, g_.target
                if isinstance(it_, ast.Call) and dotted(it_.func) == "enumerate" and it_.args and isinstance(tg_, ast.Tuple) and len(tg_.elts) == 2:
                    it_, tg_ = it_.args[0], tg_.elts[1]
                if isinstance(tg_, ast.Name) and unparse(it_) in ("self.hss", "self._hss", "hss"):
                    lvs.add(tg_.id)
            ok = order == "C" and isinstance(base, ast.Name) and base.id in lvs
        rep.check(ok, "S1", f, "per-outcome delegation", "each outcome's HS is projected by Gate's inequality projection (flag False)",
                  "measurement-process inequality projection does not project every outcome's HS through Gate's projection", node=f.node)

    # ------------------------------------------------------------------- S3
    ef = effects_for(ctx)
    rep.stats["effect_summaries"] = len(ef.summ)
    rep.stats["effect_fixpoint_iterations"] = ef.iterations
    targets = []
    for kind, cq in TYPES.items():
        c = ix.cls(cq)
        for m in PROJ:
            f = c.methods.get(m)
            if f is not None:
                targets.append(f)
    for nm in CLOSURES + ["calc_proj_physical", "calc_proj_physical_with_var"]:
        f = ix.func(QOP + nm)
        targets.append(f)
        for nf in f.nested.values():
            targets.append(nf)
    for f in targets:
        sm = ef.summ.get(f.qualname)
        if sm is None:
            rep.undecided("S3", f, "effect summary", "function not analysed")
            continue
        mut = sorted(r for r in sm.mut if r[0] != f.self_name or r[1] >= 1)
        mut = [r for r in mut if not (f.self_name and r == (f.self_name, 0))]
        if not mut:
            rep.holds("S3", f, "effects of %s" % f.name, "mutates no parameter (%d resolved calls summarised)" % sm.calls, node=f.node)
            continue
        for site in sm.sites:
            rs = [r for r in site.regions if r in mut]
            if not rs:
                continue
            label = site.label
            rep.violation("S3", f, site.node, "writes to its argument %s: %s%s" % (
                sorted({r[0] for r in rs}), site.how, (" [path: %s]" % label) if label else ""), node=site.node, label=label,
                chain=[site.via] if site.via else None)

    # ------------------------------------------------------------------- S4
    _s4(ctx, rep)
    rep.rule("S6", "equality projections write the constants their parametrisation implies over the WHOLE constrained part (State "
                   "coefficient 0, Gate row 0 = e0 over all d^2 entries, Povm shift sqrt(d)/m e0): rule I5 of C03 on the projection bodies",
             floor=4)
    from ..report import Relay
    from . import c03
    c03._check_constants(ctx, Relay(rep, {"I5": "S6"}, keep=lambda f_, con_: "calc_proj_eq_constraint" in (getattr(f_, "qualname", None) or str(f_))))


def _first_stmt_value(f: Func, name: str):
    for n in own_nodes(f.node):
        if isinstance(n, ast.Assign) and len(n.targets) == 1 and unparse(n.targets[0]) == name:
            return n
    return None


def _held_value(f: Func, case, name: str):
    """expression bound to local `name` on the path `case` (last plain assignment before its first store), locals substituted"""
    from .. import symsum
    first_store = case.stores[name][0][2]
    best = None
    for n in own_nodes(f.node):
        if isinstance(n, ast.Assign) and len(n.targets) == 1 and isinstance(n.targets[0], ast.Name) and n.targets[0].id == name \
                and n.lineno < first_store.lineno:
            if best is None or n.lineno > best.lineno:
                best = n
    if best is None:
        return None
    from ..astutil import deep_inline
    return deep_inline(f, best.value, extra={name: best.value})


def _s4(ctx, rep):
    ix = ctx.ix
    # State / Gate: stored target is a deep copy
    for cq, meth, var, src in ((TYPES["state"], "calc_proj_eq_constraint", "vec", "self.vec"),
                               (TYPES["state"], "calc_proj_eq_constraint_with_var", "new_var", "var"),
                               (TYPES["gate"], "calc_proj_eq_constraint", "hs", "self.hs"),
                               (TYPES["gate"], "calc_proj_eq_constraint_with_var", "new_var", "var")):
        f = ix.cls(cq).methods[meth]
        from .. import symsum
        cs = symsum.cases(f)
        con = "private copy in %s.%s" % (cq.split(".")[-1], meth)
        if cs is None:
            rep.undecided("S4", f, con, "too many paths")
            continue
        COPY = ("copy.deepcopy", "np.copy", "copy.copy")
        ok, why, undec = True, "", ""
        n_store_paths = 0
        for c in symsum.returning(cs):
            # which local (if any) received subscript stores on this path, and what does it hold?
            stored = {k: v for k, v in c.stores.items() if v}
            flag_on = c.has("on_para_eq_constraint", True)
            if meth.endswith("_with_var") and flag_on:
                # constraint built into the parametrisation: the projection is the identity
                if stored or unparse(c.value) != src:
                    ok, why = False, "with the constraint built into the parametrisation the projection must return its argument unchanged " \
                                     "(path %r%s)" % (c, ", with stores into %s" % sorted(stored) if stored else "")
                continue
            if not stored:
                if meth.endswith("_with_var") and c.mentions("on_para_eq_constraint"):
                    ok, why = False, "path %r returns without setting the fixed coordinates" % c
                continue
            n_store_paths += 1
            for nm in stored:
                # the local must be a private copy of the source on this path: follow the path's own bindings
                held = _held_value(f, c, nm)
                if held is None:
                    undec = "cannot tell what `%s` holds when it is written" % nm
                elif not (isinstance(held, ast.Call) and (dotted(held.func) or "") in COPY and held.args and unparse(held.args[0]) == src):
                    if unparse(held) == src or (isinstance(held, ast.Name) and held.id in f.params):
                        ok, why = False, "the fixed coordinates are written into `%s` = %s, i.e. into the caller's own array" % (nm, unparse(held))
                    else:
                        undec = "`%s` holds %s when it is written: not recognisably a copy of %s" % (nm, unparse(held)[:60], src)
        if ok and not undec and n_store_paths == 0:
            undec = "no path writes the fixed coordinates into a local copy"
        if ok and meth.endswith("_with_var") and not any(c.has("on_para_eq_constraint", True) for c in symsum.returning(cs)):
            ok, why = False, "no path is selected by on_para_eq_constraint: with the constraint built into the parametrisation the variable " \
                             "vector has no fixed coordinate, so the projection must return its argument unchanged there"
        if not ok:
            rep.violation("S4", f, con, why, node=f.node)
        elif undec:
            rep.undecided("S4", f, con, undec)
        else:
            rep.holds("S4", f, con, "constant stores go to a deep copy of the input on all %d storing path(s)" % n_store_paths, node=f.node)

    # Povm: every element becomes vec - mean + c with mean = sum(vecs)/m and c = (sqrt(d)/m) e0
    from .c03 import scaled_e0_vectors, _size_poly
    from ..symint import Undecided
    from ..astutil import deep_inline
    consts = []
    for meth in ("calc_proj_eq_constraint", "calc_proj_eq_constraint_with_var"):
        f = ix.cls(TYPES["povm"]).methods[meth]
        con = "Povm.%s form" % meth
        em = _element_maps(f)
        if len(em) != 1:
            rep.undecided("S4", f, con, "expected one element-wise map over the POVM elements (append loop or comprehension), found %d" % len(em))
            consts.append(None)
            continue
        src, lv, expr, node = em[0]
        defs = single_defs(f)
        # classify the names the element expression mentions by what they are defined as
        roles = {lv: "vec"}
        mean_ok = True
        for nm in sorted({x.id for x in ast.walk(expr) if isinstance(x, ast.Name)} - {lv}):
            d = defs.get(nm)
            if d is None:
                continue
            keep = {x.id for x in ast.walk(src) if isinstance(x, ast.Name)}
            dd = inline(f, d, defs={k: v for k, v in defs.items() if k not in keep})
            t = unparse(dd).replace(" ", "")
            s0 = unparse(src).replace(" ", "")
            if t in ("np.sum(np.array(%s),axis=0)/len(%s)" % (s0, s0), "np.sum(%s,axis=0)/len(%s)" % (s0, s0), "np.mean(np.array(%s),axis=0)" % s0,
                     "np.mean(%s,axis=0)" % s0, "sum(%s)/len(%s)" % (s0, s0)):
                roles[nm] = "mean"
            elif t.startswith(("np.sum(np.array(%s),axis=0)/" % s0, "np.sum(%s,axis=0)/" % s0, "sum(%s)/" % s0)):
                rep.violation("S4", f, con, "the mean of the elements is computed as `%s`: the sum of the m elements must be divided by m = len(%s)"
                              % (unparse(dd), s0), node=node)
                mean_ok = False
            elif any(v[0] is d or (isinstance(d, ast.Call) and v[0] is d) for v in scaled_e0_vectors(f)) or \
                    any(isinstance(v[0], ast.Assign) and v[0].targets[0].id == nm for v in scaled_e0_vectors(f) if isinstance(v[0], ast.Assign)):
                roles[nm] = "c"
        if not mean_ok:
            consts.append(None)
            continue
        try:
            env = {k: Lin.sym(v) for k, v in roles.items()}
            lf = eval_lin(expr, env)
            want = Lin.sym("vec") - Lin.sym("mean") + Lin.sym("c")
            if lf == want:
                rep.holds("S4", f, con, "vec - sum/m + c for every element", node=node)
            elif set(roles.values()) >= {"vec", "mean", "c"}:
                rep.violation("S4", f, con, "each element becomes %r, expected vec - mean + c" % lf, node=node)
            else:
                rep.undecided("S4", f, con, "element map %s: could not identify the mean (sum of the elements / their number) and the constant c e0 among %s"
                              % (unparse(expr), sorted(set(x.id for x in ast.walk(expr) if isinstance(x, ast.Name)))))
        except NotLinear as e:
            rep.undecided("S4", f, con, str(e))
        # the constant, as polynomials in d and m
        vs = [v for v in scaled_e0_vectors(f)]
        if len(vs) == 1:
            try:
                consts.append((_size_poly(vs[0][1], vs[0][4]), _size_poly(vs[0][2], vs[0][4]) + (1 if vs[0][3] == "tail" else 0)))
            except Undecided:
                consts.append(None)
        else:
            consts.append(None)
    if consts[0] is None or consts[1] is None:
        rep.undecided("S4", TYPES["povm"] + ".calc_proj_eq_constraint", "Povm sibling constants", "constant vector c e0 not recognised in both projections")
    else:
        rep.check(consts[0] == consts[1], "S4", TYPES["povm"] + ".calc_proj_eq_constraint", "Povm sibling constants",
                  "object- and variable-level projections add the same constant vector (%r e0 of length %r)" % consts[0],
                  "constants differ: %r e0 (length %r) vs %r e0 (length %r)" % (consts[0] + consts[1]), file="quara/objects/povm.py", line=1)

    # MProcess: row0(hs) -= (sum of row0 - e0) / m  for every outcome, on a copy
    forms = []
    for meth in ("calc_proj_eq_constraint", "calc_proj_eq_constraint_with_var"):
        f = ix.cls(TYPES["mprocess"]).methods[meth]
        con = "MProcess.%s form" % meth
        loops = [n for n in own_nodes(f.node) if isinstance(n, ast.For) and isinstance(n.target, ast.Name) and isinstance(n.iter, ast.Name)]
        acc = upd = None
        for l in loops:
            for st in l.body:
                if isinstance(st, ast.AugAssign) and isinstance(st.op, ast.Add) and isinstance(st.target, ast.Name) \
                        and unparse(st.value) == "%s[0]" % l.target.id:
                    acc = (l, st)
                if isinstance(st, ast.AugAssign) and isinstance(st.op, ast.Sub) and unparse(st.target) == "%s[0]" % l.target.id:
                    upd = (l, st)
        if acc is None or upd is None:
            rep.undecided("S4", f, con, "expected a loop accumulating the first rows and a loop subtracting the spread defect from every first row")
            forms.append(None)
            continue
        A = acc[1].target.id
        lst = acc[0].iter.id
        same_list = upd[0].iter.id == lst
        sub1 = [x for x in own_nodes(f.node) if isinstance(x, ast.AugAssign) and isinstance(x.op, ast.Sub) and unparse(x.target) == "%s[0]" % A and is_num(x.value, 1)]
        zero = _first_stmt_value(f, A)
        uv = inline(f, upd[1].value, defs={k: v for k, v in single_defs(f).items() if k not in (lst, A)})
        spread_ok = isinstance(uv, ast.BinOp) and isinstance(uv.op, ast.Div) and unparse(uv.left) == A \
            and unparse(uv.right).replace(" ", "") in ("len(%s)" % lst, "len(self.hss)", "len(self._hss)")
        problems = []
        if not same_list:
            problems.append("the first rows are accumulated over `%s` but the correction is applied to `%s`" % (lst, upd[0].iter.id))
        if len(sub1) != 1:
            problems.append("e0 is not subtracted from the accumulated first rows (`%s[0] -= 1` found %d times)" % (A, len(sub1)))
        if zero is None or not unparse(zero.value).startswith("np.zeros("):
            problems.append("the accumulator `%s` does not start at zero" % A)
        if not spread_ok:
            problems.append("every first row is reduced by `%s`, expected the accumulated defect divided by the number of outcomes" % unparse(uv))
        if not problems:
            cfg = ctx.cfg(f)
            ok = cfg.dominates(cfg.by_ast[id(acc[0])], cfg.node_of(sub1[0])) and cfg.dominates(cfg.node_of(sub1[0]), cfg.by_ast[id(upd[0])])
            if not ok:
                problems.append("the defect must be accumulated and e0 subtracted before it is spread")
        forms.append(tuple(problems))
        if problems:
            rep.violation("S4", f, con, "; ".join(problems), node=upd[1])
        else:
            rep.holds("S4", f, con, "row0 -= (sum row0 - e0)/m for every outcome", node=upd[1])
        # the rows written belong to a private copy
        d = _first_stmt_value(f, lst)
        con2 = "MProcess.%s works on a copy" % meth
        if d is not None:
            v = d.value
            is_copy = isinstance(v, ast.Call) and (dotted(v.func) or "") == "copy.deepcopy"
            via_conv = isinstance(v, ast.Call) and "convert_var_to_hss" in (dotted(v.func) or "")
            if isinstance(v, ast.Call) and (dotted(v.func) or "") == "copy.deepcopy" and v.args and isinstance(v.args[0], ast.Call) \
                    and "convert_var_to_hss" in (dotted(v.args[0].func) or ""):
                is_copy = True
            if is_copy:
                rep.holds("S4", f, con2, "%s = copy.deepcopy(...)" % lst, node=d)
            elif via_conv:
                # the conversion returns reshaped views of `var` when the flag is off: S3 (effects) decides whether the write reaches the argument
                ef = effects_for(ctx)
                sm = ef.summ.get(f.qualname)
                clean = sm is not None and not [r for r in sm.mut if r[0] == "var"]
                rep.check(clean, "S4", f, con2, "the rows written do not alias the argument",
                          "convert_var_to_hss returns reshaped views of `var` (flag off), and their first rows are written in place", node=d)
            else:
                rep.violation("S4", f, con2, "the list whose rows are written is %s, not a copy" % unparse(v), node=d)
        else:
            rep.undecided("S4", f, con2, "definition of `%s` not found" % lst)
    if None not in forms:
        rep.check(len(set(forms)) == 1, "S4", TYPES["mprocess"] + ".calc_proj_eq_constraint", "MProcess sibling forms", "object- and variable-level forms agree",
                  "forms differ: %s" % (forms,), file="quara/objects/mprocess.py", line=1)


def _element_maps(f: Func):
    """element-wise maps `new = [EXPR for v in SRC]` / `for v in SRC: t = EXPR; L.append(t)` -> [(SRC node, v, EXPR, node)]"""
    out = []
    for n in own_nodes(f.node):
        if isinstance(n, ast.ListComp) and len(n.generators) == 1 and isinstance(n.generators[0].target, ast.Name) and not n.generators[0].ifs:
            g = n.generators[0]
            if any(isinstance(x, ast.Name) and x.id == g.target.id for x in ast.walk(n.elt)) and isinstance(n.elt, ast.BinOp):
                out.append((g.iter, g.target.id, n.elt, n))
        if isinstance(n, ast.For) and isinstance(n.target, ast.Name):
            apps = [c for st in n.body for c in ast.walk(st) if isinstance(c, ast.Call) and isinstance(c.func, ast.Attribute) and c.func.attr == "append" and c.args]
            if len(apps) == 1:
                e = apps[0].args[0]
                local = {st.targets[0].id: st.value for st in n.body if isinstance(st, ast.Assign) and len(st.targets) == 1 and isinstance(st.targets[0], ast.Name)}
                for _ in range(3):
                    if isinstance(e, ast.Name) and e.id in local:
                        e = local[e.id]
                if isinstance(e, ast.BinOp) and any(isinstance(x, ast.Name) and x.id == n.target.id for x in ast.walk(e)):
                    out.append((n.iter, n.target.id, e, n))
    return out


# ------------------------------------------------------------------------------ S5
def _s5(ctx, rep):
    for f in ctx.ix.funcs.values():
        if not f.module.name.startswith("quara.objects") or f.parent is not None:
            continue
        resolved = []          # (parameter, attribute, resolving statement)
        for st in own_nodes(f.node):
            if isinstance(st, ast.If) and isinstance(st.test, ast.Compare) and len(st.test.ops) == 1 and isinstance(st.test.ops[0], ast.Is) \
                    and isinstance(st.test.left, ast.Name) and st.test.left.id in f.params and isinstance(st.test.comparators[0], ast.Constant) \
                    and st.test.comparators[0].value is None and len(st.body) == 1 and not st.orelse and isinstance(st.body[0], ast.Assign) \
                    and unparse(st.body[0].targets[0]) == st.test.left.id and isinstance(st.body[0].value, ast.Attribute) \
                    and unparse(st.body[0].value.value) == "self":
                resolved.append((st.test.left.id, st.body[0].value.attr, st))
            elif isinstance(st, ast.Assign) and len(st.targets) == 1 and isinstance(st.targets[0], ast.Name) and isinstance(st.value, ast.IfExp):
                t = st.value.test
                if isinstance(t, ast.Compare) and len(t.ops) == 1 and isinstance(t.left, ast.Name) and t.left.id in f.params \
                        and isinstance(t.comparators[0], ast.Constant) and t.comparators[0].value is None and isinstance(t.ops[0], (ast.Is, ast.IsNot)):
                    alt = st.value.body if isinstance(t.ops[0], ast.Is) else st.value.orelse
                    if isinstance(alt, ast.Attribute) and unparse(alt.value) == "self":
                        resolved.append((t.left.id, alt.attr, st))
        for p, attr, st in resolved:
            names = {attr, attr.lstrip("_"), "_" + attr.lstrip("_")}
            inside = {id(x) for x in ast.walk(st)}
            hits = [x for x in ast.walk(f.node) if isinstance(x, ast.Attribute) and x.attr in names and isinstance(x.ctx, ast.Load)
                    and unparse(x.value) == "self" and id(x) not in inside and getattr(x, "lineno", 0) > st.lineno]
            con = "option %s of %s" % (p, f.name)
            if hits:
                rep.violation("S5", f, con, "`%s` is resolved against self.%s at line %d, but line %d reads self.%s again: on that path the "
                              "caller's value of `%s` is ignored" % (p, attr, st.lineno, hits[0].lineno, hits[0].attr, p), node=hits[0])
            else:
                rep.holds("S5", f, con, "only the resolved local is used below", node=st)
