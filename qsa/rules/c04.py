"""C04 - projections: spectral discipline, no write to the argument, equality projections write
exactly the constrained coordinates on a private copy, object- and variable-level siblings agree."""
from __future__ import annotations

import ast

from ..astutil import const, inline, is_num, kwarg, returns, single_defs, unparse
from ..effects import Effects, FRESH
from ..index import AnalysisError, Func, dotted, own_nodes
from ..linform import Lin, NotLinear, eval_lin
from .. import spectral

OBJ = "quara.objects."
TYPES = {"state": OBJ + "state.State", "povm": OBJ + "povm.Povm", "gate": OBJ + "gate.Gate", "mprocess": OBJ + "mprocess.MProcess"}
PROJ = ["calc_proj_eq_constraint", "calc_proj_ineq_constraint", "calc_proj_eq_constraint_with_var", "calc_proj_ineq_constraint_with_var"]
QOP = OBJ + "qoperation.QOperation."
CLOSURES = ["func_calc_proj_eq_constraint", "func_calc_proj_ineq_constraint", "func_calc_proj_eq_constraint_with_var",
            "func_calc_proj_ineq_constraint_with_var", "func_calc_proj_physical", "func_calc_proj_physical_with_var"]


def effects_for(ctx):
    e = getattr(ctx, "_effects", None)
    if e is None:
        funcs = [f for q, f in ctx.ix.funcs.items() if not q.startswith(("quara.interface", "quara.objects.circuit"))
                 and "simulation_report" not in q]
        e = Effects(ctx, funcs)
        e.run()
        ctx._effects = e
    return e


def run(ctx, rep):
    ix = ctx.ix
    rep.rule("S1", "eigenvectors of eigh are used as columns, and spectral reconstructions are V·diag(w)·V† (conjugate transpose)", floor=7)
    rep.rule("S2", "between diag(w) and the reconstruction only negative eigenvalues are replaced, by 0", floor=6)
    rep.rule("S3", "no projection (object level, variable level, optimiser closures, physical projection) writes to its argument "
                   "(interprocedural alias/effect summary: mutated regions contain no parameter)", floor=24)
    rep.rule("S4", "equality projections: State sets coefficient 0 on a deep copy; Gate sets row 0 to e0 on a deep copy; Povm computes "
                   "vec - mean + c with mean = sum/m; MProcess subtracts (sum of first rows - e0)/m from every first row; object- and "
                   "variable-level siblings compute the same form", floor=8)
    rep.rule("S5", "an option resolved against the object's own value (`if p is None: p = self._p`, `p = self.p if p is None else p`) is "
                   "used in its resolved form everywhere below, including inside the projection closures handed to the optimisers: "
                   "re-reading self.p there discards the caller's override (e.g. the parametrisation flag of the variable vector)", floor=12)
    _s5(ctx, rep)
    # ---------------------------------------------------------------- S1 / S2
    sites = []
    for kind, cq in TYPES.items():
        c = ix.cls(cq)
        for m in ("calc_proj_ineq_constraint", "calc_proj_ineq_constraint_with_var"):
            f = c.methods.get(m)
            if f is None:
                raise AnalysisError("%s.%s not found" % (cq, m))
            sites.append(f)
    sites.append(ix.func(OBJ + "gate.to_kraus_matrices_from_hs"))
    n_dec = 0
    for f in sites:
        decs = spectral.decompositions(f)
        n_dec += len(decs)
        for fd in spectral.check(f):
            if fd.ok is True:
                rep.holds(fd.kind, f, fd.node, fd.text, node=fd.node)
            elif fd.ok is False:
                rep.violation(fd.kind, f, fd.node, fd.text, node=fd.node)
            else:
                rep.undecided(fd.kind, f, fd.node, fd.text)
        # a projection with an eigen-decomposition must clip
        if decs and "ineq" in f.name and not any(fd.kind == "S2" for fd in spectral.check(f)):
            rep.violation("S2", f, "clipping", "the eigenvalues are never clipped: the result is not a projection onto the positive cone", node=f.node)
    rep.stats["eigendecomposition_sites"] = n_dec
    # MProcess delegates to Gate per outcome
    for m in ("calc_proj_ineq_constraint", "calc_proj_ineq_constraint_with_var"):
        f = ix.cls(TYPES["mprocess"]).methods[m]
        calls = [n for n in own_nodes(f.node) if isinstance(n, ast.Call) and unparse(n.func) == "Gate.calc_proj_ineq_constraint_with_var"]
        ok = len(calls) == 1 and const(kwarg(calls[0], "on_para_eq_constraint")) is False and len(calls[0].args) >= 2 \
            and unparse(calls[0].args[1]) == "hs.flatten()"
        rep.check(ok, "S1", f, "per-outcome delegation", "each outcome's HS is projected by Gate's inequality projection (flag False)",
                  "measurement-process inequality projection does not project every outcome's HS through Gate's projection", node=f.node)

    # ------------------------------------------------------------------- S3
    ef = effects_for(ctx)
    rep.stats["effect_summaries"] = len(ef.summ)
    rep.stats["effect_fixpoint_iterations"] = ef.iterations
    targets = []
    for kind, cq in TYPES.items():
        c = ix.cls(cq)
        for m in PROJ:
            f = c.methods.get(m)
            if f is not None:
                targets.append(f)
    for nm in CLOSURES + ["calc_proj_physical", "calc_proj_physical_with_var"]:
        f = ix.func(QOP + nm)
        targets.append(f)
        for nf in f.nested.values():
            targets.append(nf)
    for f in targets:
        sm = ef.summ.get(f.qualname)
        if sm is None:
            rep.undecided("S3", f, "effect summary", "function not analysed")
            continue
        mut = sorted(r for r in sm.mut if r[0] != f.self_name or r[1] >= 1)
        mut = [r for r in mut if not (f.self_name and r == (f.self_name, 0))]
        if not mut:
            rep.holds("S3", f, "effects of %s" % f.name, "mutates no parameter (%d resolved calls summarised)" % sm.calls, node=f.node)
            continue
        for site in sm.sites:
            rs = [r for r in site.regions if r in mut]
            if not rs:
                continue
            label = site.label
            rep.violation("S3", f, site.node, "writes to its argument %s: %s%s" % (
                sorted({r[0] for r in rs}), site.how, (" [path: %s]" % label) if label else ""), node=site.node, label=label,
                chain=[site.via] if site.via else None)

    # ------------------------------------------------------------------- S4
    _s4(ctx, rep)


def _first_stmt_value(f: Func, name: str):
    for n in own_nodes(f.node):
        if isinstance(n, ast.Assign) and len(n.targets) == 1 and unparse(n.targets[0]) == name:
            return n
    return None


def _held_value(f: Func, case, name: str):
    """expression bound to local `name` on the path `case` (last plain assignment before its first store), locals substituted"""
    from .. import symsum
    first_store = case.stores[name][0][2]
    best = None
    for n in own_nodes(f.node):
        if isinstance(n, ast.Assign) and len(n.targets) == 1 and isinstance(n.targets[0], ast.Name) and n.targets[0].id == name \
                and n.lineno < first_store.lineno:
            if best is None or n.lineno > best.lineno:
                best = n
    if best is None:
        return None
    from ..astutil import deep_inline
    return deep_inline(f, best.value, extra={name: best.value})


def _s4(ctx, rep):
    ix = ctx.ix
    # State / Gate: stored target is a deep copy
    for cq, meth, var, src in ((TYPES["state"], "calc_proj_eq_constraint", "vec", "self.vec"),
                               (TYPES["state"], "calc_proj_eq_constraint_with_var", "new_var", "var"),
                               (TYPES["gate"], "calc_proj_eq_constraint", "hs", "self.hs"),
                               (TYPES["gate"], "calc_proj_eq_constraint_with_var", "new_var", "var")):
        f = ix.cls(cq).methods[meth]
        from .. import symsum
        cs = symsum.cases(f)
        con = "private copy in %s.%s" % (cq.split(".")[-1], meth)
        if cs is None:
            rep.undecided("S4", f, con, "too many paths")
            continue
        COPY = ("copy.deepcopy", "np.copy", "copy.copy")
        ok, why, undec = True, "", ""
        n_store_paths = 0
        for c in symsum.returning(cs):
            # which local (if any) received subscript stores on this path, and what does it hold?
            stored = {k: v for k, v in c.stores.items() if v}
            flag_on = c.has("on_para_eq_constraint", True)
            if meth.endswith("_with_var") and flag_on:
                # constraint built into the parametrisation: the projection is the identity
                if stored or unparse(c.value) != src:
                    ok, why = False, "with the constraint built into the parametrisation the projection must return its argument unchanged " \
                                     "(path %r%s)" % (c, ", with stores into %s" % sorted(stored) if stored else "")
                continue
            if not stored:
                if meth.endswith("_with_var") and c.mentions("on_para_eq_constraint"):
                    ok, why = False, "path %r returns without setting the fixed coordinates" % c
                continue
            n_store_paths += 1
            for nm in stored:
                # the local must be a private copy of the source on this path: follow the path's own bindings
                held = _held_value(f, c, nm)
                if held is None:
                    undec = "cannot tell what `%s` holds when it is written" % nm
                elif not (isinstance(held, ast.Call) and (dotted(held.func) or "") in COPY and held.args and unparse(held.args[0]) == src):
                    if unparse(held) == src or (isinstance(held, ast.Name) and held.id in f.params):
                        ok, why = False, "the fixed coordinates are written into `%s` = %s, i.e. into the caller's own array" % (nm, unparse(held))
                    else:
                        undec = "`%s` holds %s when it is written: not recognisably a copy of %s" % (nm, unparse(held)[:60], src)
        if ok and not undec and n_store_paths == 0:
            undec = "no path writes the fixed coordinates into a local copy"
        if ok and meth.endswith("_with_var") and not any(c.has("on_para_eq_constraint", True) for c in symsum.returning(cs)):
            ok, why = False, "no path is selected by on_para_eq_constraint: with the constraint built into the parametrisation the variable " \
                             "vector has no fixed coordinate, so the projection must return its argument unchanged there"
        if not ok:
            rep.violation("S4", f, con, why, node=f.node)
        elif undec:
            rep.undecided("S4", f, con, undec)
        else:
            rep.holds("S4", f, con, "constant stores go to a deep copy of the input on all %d storing path(s)" % n_store_paths, node=f.node)

    # Povm: linear form vec - mean + c, mean = sum(vecs)/m
    for meth, vecs_src in (("calc_proj_eq_constraint", "self.vecs"), ("calc_proj_eq_constraint_with_var", "vecs")):
        f = ix.cls(TYPES["povm"]).methods[meth]
        defs = single_defs(f)
        loops = [n for n in own_nodes(f.node) if isinstance(n, ast.For) and unparse(n.iter) == vecs_src]
        ok, why = False, "no loop over the POVM elements"
        if len(loops) == 1:
            lv = unparse(loops[0].target)
            asg = [s for s in loops[0].body if isinstance(s, ast.Assign)]
            app = [n for s in loops[0].body for n in ast.walk(s) if isinstance(n, ast.Call) and isinstance(n.func, ast.Attribute) and n.func.attr == "append"]
            if len(asg) == 1 and len(app) == 1 and unparse(app[0].args[0]) == unparse(asg[0].targets[0]):
                try:
                    env = {lv: Lin.sym("vec"), "a_bar": Lin.sym("mean"), "c": Lin.sym("c")}
                    lf = eval_lin(asg[0].value, env)
                    want = Lin.sym("vec") - Lin.sym("mean") + Lin.sym("c")
                    if lf != want:
                        why = "each element becomes %r, expected vec - mean + c" % lf
                    else:
                        mean = unparse(defs.get("a_bar")) if "a_bar" in defs else ""
                        mdef = unparse(defs.get("m")) if "m" in defs else ""
                        if mean != "np.sum(np.array(%s), axis=0) / m" % vecs_src or mdef != "len(%s)" % vecs_src:
                            why = "mean is %s with m = %s, expected np.sum(np.array(%s), axis=0) / len(%s)" % (mean, mdef, vecs_src, vecs_src)
                        else:
                            ok = True
                except NotLinear as e:
                    why = str(e)
            else:
                why = "loop body is not `new_vec = ...; new_vecs.append(new_vec)`"
        rep.check(ok, "S4", f, "Povm.%s form" % meth, "vec - sum/m + c for every element", why, node=f.node)
    # object- and variable-level Povm siblings use the same c
    cs = []
    for meth in ("calc_proj_eq_constraint", "calc_proj_eq_constraint_with_var"):
        f = ix.cls(TYPES["povm"]).methods[meth]
        d = single_defs(f)
        cs.append(unparse(d["c"]).replace("self.dim", "DIM").replace("c_sys.dim", "DIM") if "c" in d else None)
    rep.check(cs[0] is not None and cs[0] == cs[1], "S4", TYPES["povm"] + ".calc_proj_eq_constraint", "Povm sibling constants",
              "object- and variable-level projections add the same constant vector", "constants differ: %s vs %s" % (cs[0], cs[1]),
              file="quara/objects/povm.py", line=1)

    # MProcess: row0(hs) -= (sum of row0 - e0) / m  for every outcome, on a copy
    forms = []
    for meth, src, copy_needed in (("calc_proj_eq_constraint", "hss", True), ("calc_proj_eq_constraint_with_var", "hss", True)):
        f = ix.cls(TYPES["mprocess"]).methods[meth]
        txt = [unparse(s) for s in f.node.body]
        loops = [n for n in own_nodes(f.node) if isinstance(n, ast.For) and unparse(n.iter) == src]
        acc = [s for l in loops for s in l.body if isinstance(s, ast.AugAssign) and isinstance(s.op, ast.Add) and unparse(s.target) == "vec" and unparse(s.value) == unparse(l.target) + "[0]"]
        sub1 = [s for s in own_nodes(f.node) if isinstance(s, ast.AugAssign) and isinstance(s.op, ast.Sub) and unparse(s.target) == "vec[0]" and is_num(s.value, 1)]
        upd = [s for l in loops for s in l.body if isinstance(s, ast.AugAssign) and isinstance(s.op, ast.Sub) and unparse(s.target) == unparse(l.target) + "[0]"
               and unparse(s.value) == "vec / len(%s)" % src]
        zero = _first_stmt_value(f, "vec")
        ok = len(loops) == 2 and len(acc) == 1 and len(sub1) == 1 and len(upd) == 1 and zero is not None and unparse(zero.value).startswith("np.zeros(")
        forms.append((len(acc), len(sub1), len(upd)))
        why = "expected: vec = sum of first rows; vec[0] -= 1; every first row -= vec / m (found accumulate=%d, minus-e0=%d, update=%d)" % (len(acc), len(sub1), len(upd))
        if ok:
            # order: accumulate loop, then vec[0] -= 1, then update loop
            cfg = ctx.cfg(f)
            l_acc = next(l for l in loops if acc[0] in l.body)
            l_upd = next(l for l in loops if upd[0] in l.body)
            ok = cfg.dominates(cfg.by_ast[id(l_acc)], cfg.node_of(sub1[0])) and cfg.dominates(cfg.node_of(sub1[0]), cfg.by_ast[id(l_upd)])
            why = "the defect must be accumulated and e0 subtracted before it is spread"
        rep.check(ok, "S4", f, "MProcess.%s form" % meth, "row0 -= (sum row0 - e0)/m for every outcome", why, node=f.node)
        # the rows written belong to a private copy
        d = _first_stmt_value(f, src)
        if d is not None:
            v = d.value
            is_copy = isinstance(v, ast.Call) and (dotted(v.func) or "") == "copy.deepcopy"
            via_conv = isinstance(v, ast.Call) and "convert_var_to_hss" in (dotted(v.func) or "")
            if is_copy:
                rep.holds("S4", f, "MProcess.%s works on a copy" % meth, "hss = copy.deepcopy(...)", node=d)
            elif via_conv:
                # the conversion returns reshaped views of `var` when the flag is off: S3 (effects) decides whether the write reaches the argument
                ef = effects_for(ctx)
                sm = ef.summ.get(f.qualname)
                clean = sm is not None and not [r for r in sm.mut if r[0] == "var"]
                rep.check(clean, "S4", f, "MProcess.%s works on a copy" % meth, "the rows written do not alias the argument",
                          "convert_var_to_hss returns reshaped views of `var` (flag off), and their first rows are written in place", node=d)
            else:
                rep.violation("S4", f, "MProcess.%s works on a copy" % meth, "the list whose rows are written is %s, not a copy" % unparse(v), node=d)
    rep.check(len(set(forms)) == 1, "S4", TYPES["mprocess"] + ".calc_proj_eq_constraint", "MProcess sibling forms", "object- and variable-level forms agree",
              "forms differ: %s" % forms, file="quara/objects/mprocess.py", line=1)



# ------------------------------------------------------------------------------ S5
def _s5(ctx, rep):
    for f in ctx.ix.funcs.values():
        if not f.module.name.startswith("quara.objects") or f.parent is not None:
            continue
        resolved = []          # (parameter, attribute, resolving statement)
        for st in own_nodes(f.node):
            if isinstance(st, ast.If) and isinstance(st.test, ast.Compare) and len(st.test.ops) == 1 and isinstance(st.test.ops[0], ast.Is) \
                    and isinstance(st.test.left, ast.Name) and st.test.left.id in f.params and isinstance(st.test.comparators[0], ast.Constant) \
                    and st.test.comparators[0].value is None and len(st.body) == 1 and not st.orelse and isinstance(st.body[0], ast.Assign) \
                    and unparse(st.body[0].targets[0]) == st.test.left.id and isinstance(st.body[0].value, ast.Attribute) \
                    and unparse(st.body[0].value.value) == "self":
                resolved.append((st.test.left.id, st.body[0].value.attr, st))
            elif isinstance(st, ast.Assign) and len(st.targets) == 1 and isinstance(st.targets[0], ast.Name) and isinstance(st.value, ast.IfExp):
                t = st.value.test
                if isinstance(t, ast.Compare) and len(t.ops) == 1 and isinstance(t.left, ast.Name) and t.left.id in f.params \
                        and isinstance(t.comparators[0], ast.Constant) and t.comparators[0].value is None and isinstance(t.ops[0], (ast.Is, ast.IsNot)):
                    alt = st.value.body if isinstance(t.ops[0], ast.Is) else st.value.orelse
                    if isinstance(alt, ast.Attribute) and unparse(alt.value) == "self":
                        resolved.append((t.left.id, alt.attr, st))
        for p, attr, st in resolved:
            names = {attr, attr.lstrip("_"), "_" + attr.lstrip("_")}
            inside = {id(x) for x in ast.walk(st)}
            hits = [x for x in ast.walk(f.node) if isinstance(x, ast.Attribute) and x.attr in names and isinstance(x.ctx, ast.Load)
                    and unparse(x.value) == "self" and id(x) not in inside and getattr(x, "lineno", 0) > st.lineno]
            con = "option %s of %s" % (p, f.name)
            if hits:
                rep.violation("S5", f, con, "`%s` is resolved against self.%s at line %d, but line %d reads self.%s again: on that path the "
                              "caller's value of `%s` is ignored" % (p, attr, st.lineno, hits[0].lineno, hits[0].attr, p), node=hits[0])
            else:
                rep.holds("S5", f, con, "only the resolved local is used below", node=st)
