"""C10 - constrained estimators: projected linear estimate is the projection of the linear one;
constraint flags select the matching projection; iterates are projection outputs / convex
combinations; default start is the origin object."""
from __future__ import annotations

import ast

from ..astutil import const, inline, is_num, kwarg, returns, single_defs, unparse, NOCONST
from ..index import AnalysisError, Func, dotted, own_nodes
from ..linform import Lin, NotLinear, eval_lin
from ..resolve import bind_call

E = "quara.protocol.qtomography.standard."
M = "quara.minimization_algorithm."
ALGOS = {
    "backtracking": M + "projected_gradient_descent_backtracking.ProjectedGradientDescentBacktracking.optimize",
    "momentum": M + "projected_gradient_descent_with_momentum.ProjectedGradientDescentWithMomentum.optimize",
    "fista": M + "projected_fast_iterative_shrinkage_thresholding_algorithm.ProjectedFastIterativeShrinkageThresholdingAlgorithm.optimize",
}


def run(ctx, rep):
    ix = ctx.ix
    rep.rule("P1", "every value the projected linear estimator returns is to_var() of calc_proj_physical() applied to the linear "
                   "estimate, after set_mode_proj_order(self.mode_proj_order)", floor=2)
    rep.rule("P2", "the constraint flags (eq, ineq) select (T,T)->physical, (T,F)->eq, (F,T)->ineq, (F,F)->identity projection, "
                   "each built with the template's on_para_eq_constraint", floor=4)
    rep.rule("P3", "iterates: backtracking x' = x + a(P(x - grad/mu) - x) with a starting at 1.0 and only multiplied by a literal in "
                   "(0,1); momentum and FISTA x' = P(.); the result carries x'", floor=6)
    rep.rule("P4", "with no start point given, x0 = template.generate_origin_obj().to_var()", floor=3)
    # the projection both estimator families call is the alternating scheme itself: an estimate is "the physical
    # projection" only if that routine is Dykstra's; the C05 recurrence / start / stopping / result rules are re-run here
    from . import c05
    rep.rule("K1", "calc_proj_physical(_with_var): each mode_proj_order branch is y'=P_A(x+p); p'=x+p-y'; x'=P_B(y'+q); q'=y'+q-x' with "
                   "(A,B)=(eq,ineq) for 'eq_ineq' and (ineq,eq) otherwise (rule K1 of C05, exact in the affine domain)", floor=16)
    rep.rule("K2", "p and q start at the zero object, x at (a copy of) the input; the shift block assigns prev := next for all four", floor=4)
    rep.rule("K3", "stopping value and comparison of the projection loop (rule K3 of C05)", floor=2)
    rep.rule("K4", "the returned point is the last x' (rule K4 of C05)", floor=4)
    for nm, level in (("calc_proj_physical", "object"), ("calc_proj_physical_with_var", "var")):
        c05._check_routine(ctx, rep, ix.func(c05.Q + nm), level)
    rep.rule("P6", "ProjectedLinearEstimator.calc_estimate is calc_estimate_sequence on a one-element sequence, arguments handed on as received",
             floor=1)
    from .c09 import check_single_is_sequence_of_one
    check_single_is_sequence_of_one(ctx, rep, "P6", E + "projected_linear_estimator.ProjectedLinearEstimator")
    # the equality step of that projection: the constants of the four equality projections (rule S4 of C04) are re-run here, because
    # the projected-gradient estimators reach them through func_calc_proj_physical_with_var
    rep.rule("P7", "the equality projections the estimators iterate with shift every element by the constant its own parametrisation implies "
                   "(State d^-1/2 e0, Povm sqrt(d)/m e0, Gate / MProcess row 0 = e0 spread over the outcomes): rule S4 of C04", floor=4)
    from ..report import Relay
    from . import c04
    c04._s4(ctx, Relay(rep, {"S4": "P7"}))
    rep.rule("P9", "the projection factories the optimisers are configured with (func_calc_proj_physical / _with_var) hand out the closure of "
                   "the physical projection on every path", floor=2)
    c05._check_factory_returns(ctx, rep, "P9")
    _p1(ctx, rep)
    _p2(ctx, rep)
    for name, qn in ALGOS.items():
        _p3(ctx, rep, name, ix.func(qn))
        _p4(ctx, rep, name, ix.func(qn))
    rep.rule("P8", "the equality step of the projection the estimators iterate with writes the constants its parametrisation implies over the whole constrained part (rule I5 of C03 on the "
                   "equality-projection bodies)", floor=4)
    from ..report import Relay as _Relay
    from . import c03 as _c03
    _c03._check_constants(ctx, _Relay(rep, {"I5": "P8"}, keep=lambda f_, con_: "calc_proj_eq_constraint" in (getattr(f_, "qualname", None) or str(f_))))


def _p1(ctx, rep):
    f = ctx.ix.func(E + "projected_linear_estimator.ProjectedLinearEstimator.calc_estimate_sequence")
    defs = single_defs(f)
    loops = [n for n in own_nodes(f.node) if isinstance(n, ast.For)]
    if not loops:
        rep.undecided("P1", f, "loop", "expected a loop over the linear estimates")
        return
    # the sequence handed to the result object, whatever it is called
    res0 = [n for n in own_nodes(f.node) if isinstance(n, ast.Call) and unparse(n.func) == "ProjectedLinearEstimationResult"]
    seq_name = unparse(res0[0].args[0]) if len(res0) == 1 and res0[0].args and isinstance(res0[0].args[0], ast.Name) else "proj_estimated_var_sequence"
    n_checked = 0
    for lp in loops:
        it = lp.iter
        from ..reach import Reach

        def source_ok(it_):
            src_ = Reach(ctx, f).inline_at(it_, lp)
            return src_, (unparse(src_).replace(" ", "").startswith("super().calc_estimate_sequence(qtomography,empi_dists_sequence")
                          and unparse(src_).endswith(".estimated_qoperation_sequence"))
        if isinstance(it, ast.Call) and dotted(it.func) == "enumerate":
            it = it.args[0]
            lv = lp.target.elts[1].id if isinstance(lp.target, ast.Tuple) and isinstance(lp.target.elts[1], ast.Name) else None
        elif isinstance(it, ast.Call) and dotted(it.func) == "zip" and isinstance(lp.target, ast.Tuple) and len(it.args) == len(lp.target.elts) \
                and not it.keywords and all(isinstance(x_, ast.Name) for x_ in lp.target.elts):
            # the position of zip that carries the linear estimates
            pos = next((i_ for i_, a_ in enumerate(it.args) if source_ok(a_)[1]), 0)
            lv = lp.target.elts[pos].id
            it = it.args[pos]
        else:
            lv = lp.target.id if isinstance(lp.target, ast.Name) else None
        src, src_ok = source_ok(it)
        # body
        body_defs = {}
        for st in lp.body:
            if isinstance(st, ast.Assign) and len(st.targets) == 1 and isinstance(st.targets[0], ast.Name):
                body_defs[st.targets[0].id] = st.value
        apps = [n for n in ast.walk(lp) if isinstance(n, ast.Call) and isinstance(n.func, ast.Attribute) and n.func.attr == "append"
                and unparse(n.func.value) == seq_name]
        if not apps:
            continue
        n_checked += 1
        cfg = ctx.cfg(f)
        for a in apps:
            e = a.args[0]
            ok, why = False, ""
            # e == X.to_var() where every definition of X leads back (through local names and [0] of the (estimate, history) pair)
            # to <linear estimate>.calc_proj_physical(...)
            if isinstance(e, ast.Call) and isinstance(e.func, ast.Attribute) and e.func.attr == "to_var" and not e.args:
                all_defs = {}
                for n_ in ast.walk(lp):
                    if isinstance(n_, ast.Assign) and len(n_.targets) == 1 and isinstance(n_.targets[0], ast.Name):
                        all_defs.setdefault(n_.targets[0].id, []).append(n_.value)
                    elif isinstance(n_, ast.Assign) and len(n_.targets) == 1 and isinstance(n_.targets[0], ast.Tuple) \
                            and all(isinstance(x_, ast.Name) for x_ in n_.targets[0].elts) and not isinstance(n_.value, ast.Tuple):
                        # (estimate, history) = <pair>: the first name holds element 0
                        for i_, x_ in enumerate(n_.targets[0].elts):
                            all_defs.setdefault(x_.id, []).append(ast.Subscript(value=n_.value, slice=ast.Constant(value=i_), ctx=ast.Load()))

                def leaves(x, seen):
                    if isinstance(x, ast.Subscript) and is_num(x.slice, 0):
                        return leaves(x.value, seen)
                    if isinstance(x, ast.IfExp):
                        return leaves(x.body, seen) + leaves(x.orelse, seen)
                    if isinstance(x, ast.Name) and x.id in all_defs and x.id not in seen:
                        out = []
                        for d_ in all_defs[x.id]:
                            out += leaves(d_, seen | {x.id})
                        return out
                    return [x]
                lvs = leaves(e.func.value, frozenset())
                projs = [x for x in lvs if isinstance(x, ast.Call) and isinstance(x.func, ast.Attribute) and x.func.attr == "calc_proj_physical"
                         and isinstance(x.func.value, ast.Name) and x.func.value.id == lv]
                if lvs and len(projs) == len(lvs):
                    from ..astutil import deep_inline
                    setm = [n_ for n_ in ast.walk(lp) if isinstance(n_, ast.Call) and isinstance(n_.func, ast.Attribute)
                            and n_.func.attr == "set_mode_proj_order" and isinstance(n_.func.value, ast.Name) and n_.func.value.id == lv]
                    good_set = [s_ for s_ in setm if s_.args and unparse(deep_inline(f, s_.args[0])) in ("self.mode_proj_order", "self._mode_proj_order")]
                    ok = True
                    for pe in projs:
                        pn = cfg.node_of(pe)
                        if not (good_set and pn is not None and any(cfg.dominates(cfg.node_of(s_), pn) for s_ in good_set)):
                            ok = False
                            why = "set_mode_proj_order(self.mode_proj_order) does not precede the projection on every path"
                else:
                    why = "appended value derives from %s, not only from %s.calc_proj_physical(...)" % ([unparse(x)[:60] for x in lvs if x not in projs], lv)
            else:
                why = "appended value %s is not <projection>.to_var()" % unparse(e)
            if ok and not src_ok:
                ok, why = False, "the projected objects are not the linear estimator's estimates (loop source %s)" % unparse(src)[:120]
            rep.check(ok, "P1", f, a, "to_var(calc_proj_physical(linear estimate)) in the configured order", why, node=a)
    if not n_checked:
        rep.undecided("P1", f, "append", "no loop appends to the returned sequence")
    res = [n for n in own_nodes(f.node) if isinstance(n, ast.Call) and unparse(n.func) == "ProjectedLinearEstimationResult"]
    ok = len(res) == 1 and res[0].args and unparse(res[0].args[0]) == seq_name and n_checked > 0
    rep.check(ok, "P1", f, res[0] if res else "result", "result carries the projected sequence", "result is not built from the projected sequence",
              node=res[0] if res else f.node)


def _flag_value(e: ast.AST):
    """('eq'|'ineq', bool) for `option.on_algo_eq_constraint == True` and variants."""
    neg = False
    if isinstance(e, ast.UnaryOp) and isinstance(e.op, ast.Not):
        e, neg = e.operand, True
    val = True
    if isinstance(e, ast.Compare) and len(e.ops) == 1 and isinstance(e.ops[0], (ast.Eq, ast.Is)):
        c = const(e.comparators[0])
        if c is True or c is False:
            val = c
            e = e.left
    if isinstance(e, ast.Attribute) and e.attr in ("on_algo_eq_constraint", "on_algo_ineq_constraint"):
        return ("ineq" if "ineq" in e.attr else "eq"), (val != neg)
    return None


def _p2(ctx, rep):
    f = ctx.ix.func(M + "projected_gradient_descent.ProjectedGradientDescent.set_constraint_from_standard_qt_and_option")
    # path-sensitive reading: per control-flow path, the conditions on the two flags and the value stored to self._func_proj
    from ..symsum import cases
    want = {(True, True): "func_calc_proj_physical_with_var", (True, False): "func_calc_proj_eq_constraint_with_var",
            (False, True): "func_calc_proj_ineq_constraint_with_var", (False, False): "proj_to_self"}
    FLAG = {"option.on_algo_eq_constraint": "eq", "option.on_algo_ineq_constraint": "ineq"}
    cs = cases(f)
    if cs is None:
        rep.undecided("P2", f, "dispatch", "too many paths")
        return
    from ..astutil import conjuncts

    def truth(t, combo):
        """value of a test under a flag assignment; None when it involves anything else"""
        if isinstance(t, ast.BoolOp):
            vs = [truth(v, combo) for v in t.values]
            if any(v is None for v in vs):
                return None
            return all(vs) if isinstance(t.op, ast.And) else any(vs)
        if isinstance(t, ast.UnaryOp) and isinstance(t.op, ast.Not):
            v = truth(t.operand, combo)
            return None if v is None else not v
        c = conjuncts(t, True)
        if c and len(c) == 1 and c[0][0] in FLAG:
            return combo[FLAG[c[0][0]]] == c[0][1]
        return None

    seen = {}
    clash = []
    for c in cs:
        if c.raised:
            continue
        st = c.attrs.get("self._func_proj")
        for a in (True, False):
            for b in (True, False):
                combo = {"eq": a, "ineq": b}
                feasible, other = True, False
                for t, pol, node in c.guards:
                    if t in FLAG:
                        if combo[FLAG[t]] != pol:
                            feasible = False
                    elif t.startswith("?"):
                        v = truth(node, combo)
                        if v is None:
                            other = True
                        elif v != pol:
                            feasible = False
                    else:
                        other = True
                if not feasible:
                    continue
                if st is None and other:
                    continue            # a path that is not about the flags (e.g. the early exit of a configured object, see C13 N6)
                val = st[0] if st is not None else None
                if (a, b) in seen:
                    prev = seen[(a, b)][0]
                    if (prev is None) != (val is None) or (prev is not None and ast.dump(prev) != ast.dump(val)):
                        clash.append((a, b))
                seen.setdefault((a, b), (val, st[1] if st is not None else None))
    if not seen:
        rep.undecided("P2", f, "dispatch", "no path stores self._func_proj under conditions on the two constraint flags")
        return
    if clash:
        rep.undecided("P2", f, "dispatch", "flag combination(s) %s select different projections on different paths" % sorted(set(clash)))
        return
    defs = single_defs(f)
    for combo, (val, stmt) in sorted(seen.items(), reverse=True):
        con = "flags (eq=%s, ineq=%s)" % combo
        if val is None or not isinstance(val, ast.Call):
            rep.violation("P2", f, con, "this flag combination does not set the projection", node=stmt if stmt is not None else f.node)
            continue
        call = val
        name = call.func.attr if isinstance(call.func, ast.Attribute) else (dotted(call.func) or "")
        if name != want[combo]:
            rep.violation("P2", f, con, "selects %s, the flags call for %s" % (name, want[combo]), node=call)
            continue
        if combo != (False, False):
            recv = inline(f, call.func.value, defs=defs)
            flag = kwarg(call, "on_para_eq_constraint") or (call.args[0] if call.args else None)
            recv_ok = unparse(recv) in ("self._qt.generate_empty_estimation_obj_with_setting_info()", "qt.generate_empty_estimation_obj_with_setting_info()")
            flag_ok = flag is not None and unparse(inline(f, flag, defs=defs)).endswith("generate_empty_estimation_obj_with_setting_info().on_para_eq_constraint")
            if not recv_ok:
                rep.violation("P2", f, con, "projection is built on %s, not on the tomography's estimation template" % unparse(recv), node=call)
                continue
            if not flag_ok:
                rep.violation("P2", f, con, "projection is not built with the template's on_para_eq_constraint (got %s)"
                              % (unparse(flag) if flag is not None else "default"), node=call)
                continue
        # every option handed to the projection factory comes from the like-named option field
        bad_kw = None
        for k in call.keywords:
            v = k.value
            if k.arg and isinstance(v, ast.Attribute) and unparse(v.value) == "option":
                ok_kw = v.attr == k.arg or (v.attr.startswith(k.arg + "_") and "proj" in v.attr)
                if not ok_kw:
                    bad_kw = (k.arg, v.attr)
        if bad_kw:
            rep.violation("P2", f, con, "the projection's `%s` is fed from option.%s, which configures something else (the projection's own "
                          "setting is option.%s_proj_physical / option.%s)" % (bad_kw[0], bad_kw[1], bad_kw[0], bad_kw[0]), node=call)
            continue
        rep.holds("P2", f, con, "-> %s" % name, node=call)
    if len(seen) != 4:
        rep.violation("P2", f, "dispatch", "only %d of the 4 flag combinations are handled" % len(seen), node=f.node)


def _flags_of(t: ast.AST):
    vals = t.values if isinstance(t, ast.BoolOp) and isinstance(t.op, ast.And) else [t]
    out = {}
    for v in vals:
        fv = _flag_value(v)
        if fv is None:
            return None
        out[fv[0]] = fv[1]
    return out


def _main_loop(f: Func):
    loops = [n for n in own_nodes(f.node) if isinstance(n, ast.For) and "max_iteration" in unparse(n.iter)]
    return loops[0] if len(loops) == 1 else None


def _p3(ctx, rep, name, f: Func):
    lp = _main_loop(f)
    if lp is None:
        rep.undecided("P3", f, "loop", "main iteration loop not found")
        return
    scal = {"alpha", "mu", "gamma", "delta", "zeta"}
    env = {"x_prev": Lin.sym("x"), "x_prev_prev": Lin.sym("x_pp"), "moment_prev": Lin.sym("m")}

    def app(call, rec):
        dn = dotted(call.func) or ""
        if dn in ("self.func_proj", "self._func_proj") and len(call.args) == 1:
            return rec(call.args[0]).app("P")
        if dn.endswith(".gradient") and len(call.args) == 1:
            return rec(call.args[0]).app("grad")
        return None

    x_next = None
    scal = set(scal)
    for st in lp.body:
        if isinstance(st, ast.Assign) and len(st.targets) == 1 and isinstance(st.targets[0], ast.Name):
            tn = st.targets[0].id
            names = {n.id for n in ast.walk(st.value) if isinstance(n, ast.Name)}
            if names and names <= ({"k"} | scal) and not any(isinstance(n, ast.Call) for n in ast.walk(st.value)):
                scal.add(tn)            # a scalar coefficient built from the loop counter / step sizes
                continue
            try:
                # scalar-valued prefactors like (k - 2) / (k + 1) are opaque scalings
                env[tn] = eval_lin(_abstract_scalars(st.value), env, app, scalars=scal | {"_s"})
            except NotLinear as ex:
                if tn == "x_next":
                    rep.undecided("P3", f, st, str(ex))
                    return
                env.pop(tn, None)
                continue
            if tn == "x_next":
                x_next = (st, env[tn])
    if x_next is None:
        rep.undecided("P3", f, "x_next", "no assignment of x_next in the loop body")
        return
    st, got = x_next
    X = Lin.sym("x")
    if name == "backtracking":
        want = X + ((X - X.app("grad").app("scale[1/mu]")).app("P") - X).app("scale[alpha]")
        rep.check(got == want, "P3", f, st, "x' = x + alpha*(P(x - grad(x)/mu) - x)",
                  "the iterate is %r, expected %r" % (got, want), node=st)
        # alpha discipline
        whiles = [s for s in lp.body if isinstance(s, ast.While)]
        a_init = [s for s in lp.body if isinstance(s, ast.Assign) and unparse(s.targets[0]) == "alpha"]
        ok, why = False, "no backtracking while-loop"
        if len(whiles) == 1 and len(a_init) == 1 and is_num(a_init[0].value, 1.0):
            w = whiles[0]
            upd = [s for s in w.body if (isinstance(s, ast.Assign) and unparse(s.targets[0]) == "alpha")
                   or (isinstance(s, ast.AugAssign) and unparse(s.target) == "alpha")]
            if len(upd) == 1 and len(w.body) == 1:
                if isinstance(upd[0], ast.AugAssign):
                    v = ast.BinOp(left=ast.Name(id="alpha", ctx=ast.Load()), op=upd[0].op, right=upd[0].value)
                else:
                    v = upd[0].value
                c = None
                if isinstance(v, ast.BinOp) and isinstance(v.op, ast.Mult):
                    if unparse(v.right) == "alpha":
                        c = const(v.left)
                    elif unparse(v.left) == "alpha":
                        c = const(v.right)
                elif isinstance(v, ast.BinOp) and isinstance(v.op, ast.Div) and unparse(v.left) == "alpha":
                    cc = const(v.right)
                    c = (1.0 / cc) if cc is not NOCONST and cc not in (0,) else NOCONST
                if c is not None and c is not NOCONST and 0 < c < 1:
                    t = w.test
                    tgt = ctx.ix.funcs.get(f.cls.qualname + "._is_doing_for_alpha") if f.cls else None
                    if isinstance(t, ast.Call) and tgt is not None and unparse(t.func) == "self._is_doing_for_alpha":
                        binding, errs = bind_call(t, tgt, True)
                        bad = [(p, unparse(e)) for p, e in binding.items() if unparse(e) != p]
                        ok = not errs and not bad
                        why = "line-search test is called with mismatched arguments %s %s" % (bad, errs)
                    else:
                        why = "while test is not self._is_doing_for_alpha(...)"
                else:
                    why = "alpha is updated by %s; it must shrink by a literal factor in (0,1)" % unparse(v)
            else:
                why = "while body is not a single alpha update"
        elif a_init and not is_num(a_init[0].value, 1.0):
            why = "alpha starts at %s; a convex combination needs alpha <= 1 starting from 1.0" % unparse(a_init[0].value)
        rep.check(ok, "P3", f, "alpha discipline", "alpha = 1.0, halved while the Armijo test fails", why, node=whiles[0] if whiles else lp)
    else:
        ok = len(got.t) == 1 and all(isinstance(k, tuple) and k[1] == "P" and v == 1 for k, v in got.t.items())
        rep.check(ok, "P3", f, st, "x' = P(.)", "the iterate is %r; it must be the output of the projection" % got, node=st)
    # result carries x_next on every path
    res = [n for n in own_nodes(f.node) if isinstance(n, ast.Call) and isinstance(n.func, ast.Name) and n.func.id.endswith("Result")]
    ok = bool(res) and all(n.args and unparse(n.args[0]) == "x_next" for n in res)
    rets = returns(f)
    rdefs = single_defs(f)
    all_defs = {}
    for n_ in own_nodes(f.node):
        if isinstance(n_, ast.Assign) and len(n_.targets) == 1 and isinstance(n_.targets[0], ast.Name):
            all_defs.setdefault(n_.targets[0].id, []).append(n_.value)

    def is_result(v):
        if isinstance(v, ast.Name):
            return bool(all_defs.get(v.id)) and all(d_ in res for d_ in all_defs[v.id])
        return v in res
    ok = ok and bool(rets) and all(is_result(r.value) for r in rets)
    rep.check(ok, "P3", f, "result value", "every result is built from x_next", "a result is built from %s"
              % [unparse(n.args[0]) if n.args else None for n in res], node=res[0] if res else f.node)
    # shift: x_prev = x_next at loop head
    shift = [s for s in lp.body if isinstance(s, ast.If) and unparse(s.test) == "x_next is not None"]
    sh = {}
    for s_ in shift:
        for a in s_.body:
            if isinstance(a, ast.Assign) and len(a.targets) == 1:
                t_, v_ = a.targets[0], a.value
                if isinstance(t_, ast.Tuple) and isinstance(v_, ast.Tuple) and len(t_.elts) == len(v_.elts):
                    # simultaneous assignment: every right side is read before any target is written
                    for x_, y_ in zip(t_.elts, v_.elts):
                        sh[unparse(x_)] = unparse(y_)
                else:
                    sh[unparse(t_)] = unparse(v_)
    if not shift:
        rep.undecided("P3", f, "shift", "no `if x_next is not None:` block at the head of the loop")
    else:
        rep.check(sh.get("x_prev") == "x_next", "P3", f, "shift", "x_prev := x_next before each step",
                  "the new iterate is not carried into the next step (%s)" % sh, node=shift[0] if shift else lp)


class _Abs(ast.NodeTransformer):
    """(k - 2) / (k + 1) * v  ->  _s * v   (any scalar prefactor built from the loop counter)"""

    def visit_BinOp(self, node):
        self.generic_visit(node)
        if isinstance(node.op, ast.Mult):
            for a, b in ((node.left, node.right), (node.right, node.left)):
                names = {n.id for n in ast.walk(a) if isinstance(n, ast.Name)}
                if names and names <= {"k"} and not isinstance(a, ast.Name):
                    return ast.BinOp(left=ast.Name(id="_s", ctx=ast.Load()), op=ast.Mult(), right=b)
        return node


def _abstract_scalars(e):
    from ..astutil import clone
    return ast.fix_missing_locations(_Abs().visit(clone(e)))


def _p4(ctx, rep, name, f: Func):
    """start point: x_prev (before the loop) is the template's origin when no start is given, and the given start otherwise -
    whatever the spelling of the selection (if/else in either order, conditional expression)"""
    from ..astutil import deep_inline, guards_of, conjuncts
    lp = _main_loop(f)
    atom = "algorithm_option.var_start is None"
    ORIGIN = "self._qt.generate_empty_estimation_obj_with_setting_info().generate_origin_obj().to_var()"
    got = {}
    first = None
    for n in own_nodes(f.node):
        if isinstance(n, ast.Assign) and len(n.targets) == 1 and unparse(n.targets[0]) == "x_prev" and (lp is None or n.lineno < lp.lineno):
            first = first or n
            g = {t: pol for t, pol, _ in guards_of(n)}
            v = deep_inline(f, n.value)
            if isinstance(v, ast.IfExp):
                c = conjuncts(v.test, True)
                if c and len(c) == 1 and c[0][0] == atom:
                    got[c[0][1]] = unparse(v.body)
                    got[not c[0][1]] = unparse(v.orelse)
                    continue
            if atom in g:
                got[g[atom]] = unparse(v)
    con = "start point"
    if True not in got or False not in got:
        rep.undecided("P4", f, con, "no selection of the start point on `%s` found before the loop" % atom)
    elif got[True] != ORIGIN:
        rep.violation("P4", f, con, "default start is %s, expected the origin object of the estimation template" % got[True], node=first)
    elif got[False] != "algorithm_option.var_start":
        rep.violation("P4", f, con, "a given start point is replaced by %s" % got[False], node=first)
    else:
        rep.holds("P4", f, con, "x0 = template origin .to_var() when var_start is None, else var_start", node=first)
