"""C11 - loss minimisation (narrow): Armijo test, stopping modes, estimator wiring, CVXPY dispatch."""
from __future__ import annotations

import ast

from ..astutil import const, inline, is_num, kwarg, returns, single_defs, unparse, NOCONST
from ..fold import Folder, NotFoldable
from ..index import AnalysisError, Func, dotted, own_nodes
from ..linform import Lin, NotLinear, eval_lin
from .c10 import ALGOS, _main_loop
from ..resolve import bind_call

E = "quara.protocol.qtomography.standard."
M = "quara.minimization_algorithm."
CV = "quara.interface.cvxpy.qtomography.standard."


def run(ctx, rep):
    ix = ctx.ix
    rep.rule("A1", "the line search accepts a step exactly under the sufficient-decrease test "
                   "value(x + a y) <= value(x) + gamma*a*<y, grad(x)> built from the configured loss", floor=1)
    rep.rule("A2", "every stopping mode the option class accepts has a branch that defines the error value in each of the three "
                   "algorithms; the loop continues while the windowed sum exceeds eps", floor=6)
    rep.rule("A3", "per dataset the estimator configures the loss with that dataset, then the algorithm (option, constraint, loss), "
                   "validates all four sufficiency checks, then optimises, and returns the optimiser's value", floor=8)
    rep.rule("A4", "CVXPY algorithm: solver names / constraint modes accepted by the option are exactly those optimize dispatches on; "
                   "'physical' is the branch that builds the constraints", floor=3)
    rep.rule("A5", "backtracking: each stopping mode measures what its name says - loss difference f(x)-f(x'), its absolute value, "
                   "the Euclidean length of the step x-x', the Euclidean length of the projected-gradient direction", floor=4)
    rep.rule("A6", "LossMinimizationEstimator.calc_estimate is calc_estimate_sequence on a one-element sequence, arguments handed on as received",
             floor=1)
    from .c09 import check_single_is_sequence_of_one
    check_single_is_sequence_of_one(ctx, rep, "A6", E + "loss_minimization_estimator.LossMinimizationEstimator")
    rep.rule("A7", "CVXPY conversions: a variable vector reshaped into a row-structured (non-square, more than one row) matrix - one row "
                   "per outcome - is reshaped row-major (order='C'); cvxpy.reshape defaults to column-major, numpy to row-major", floor=1)
    _a7(ctx, rep)
    rep.rule("A8", "loss expressions built schedule by schedule: the per-schedule partial sum is reset for every schedule before its "
                   "outcomes are added, so that schedule i enters with its own weight", floor=3)
    _a8(ctx, rep)
    rep.rule("A9", "loss expressions: a loop that accumulates terms over outcomes / schedules visits every term (no `break`)", floor=6)
    _a9(ctx, rep)
    _a1(ctx, rep)
    _a2(ctx, rep)
    _a5(ctx, rep)
    _a3(ctx, rep)
    _a4(ctx, rep)


def _scalar_factors(e):
    """flatten a product a*b*c into its factors"""
    if isinstance(e, ast.BinOp) and isinstance(e.op, ast.Mult):
        return _scalar_factors(e.left) + _scalar_factors(e.right)
    return [e]


def _a1(ctx, rep):
    f = ctx.ix.func(M + "projected_gradient_descent_backtracking.ProjectedGradientDescentBacktracking._is_doing_for_alpha")
    rets = returns(f)
    if len(rets) != 1:
        rep.undecided("A1", f, "return", "expected one return")
        return
    e = inline(f, rets[0].value)
    if not (isinstance(e, ast.Compare) and len(e.ops) == 1):
        rep.undecided("A1", f, rets[0], "not a single comparison")
        return
    l, r, op = e.left, e.comparators[0], e.ops[0]
    if isinstance(op, (ast.Lt, ast.LtE)):
        l, r = r, l
        op = ast.Gt() if isinstance(op, ast.Lt) else ast.GtE()
    if not isinstance(op, ast.Gt):
        rep.violation("A1", f, rets[0], "the step is rejected on `%s`; backtracking continues exactly while value(x + a y) > bound" % type(op).__name__, node=rets[0])
        return
    scal = {"alpha", "gamma"}
    env = {"x_prev": Lin.sym("x"), "y_prev": Lin.sym("y")}

    def is_value(c):
        return isinstance(c, ast.Call) and (dotted(c.func) or "") == "loss_function.value" and len(c.args) == 1

    try:
        ok_l = is_value(l) and eval_lin(l.args[0], env, None, scal) == Lin.sym("x") + Lin.sym("y").app("scale[alpha]")
    except NotLinear:
        ok_l = False
    if not ok_l:
        rep.violation("A1", f, rets[0], "left side is %s, expected loss.value(x + alpha*y)" % unparse(l), node=rets[0])
        return
    ok_r, why = False, ""
    if isinstance(r, ast.BinOp) and isinstance(r.op, ast.Add):
        for a, b in ((r.left, r.right), (r.right, r.left)):
            try:
                if is_value(a) and eval_lin(a.args[0], env, None, scal) == Lin.sym("x"):
                    facs = _scalar_factors(b)
                    names = sorted(unparse(x) for x in facs if isinstance(x, ast.Name))
                    dots = [x for x in facs if isinstance(x, ast.Call) and (dotted(x.func) or "").split(".")[-1] in ("dot", "vdot", "inner")]
                    if names == ["alpha", "gamma"] and len(dots) == 1 and len(facs) == 3:
                        args = sorted(unparse(x) for x in dots[0].args)
                        if args == ["loss_function.gradient(x_prev)", "y_prev"]:
                            ok_r = True
                        else:
                            why = "inner product is over %s, expected <y, grad(x)>" % args
                    else:
                        why = "slope term is %s, expected gamma*alpha*<y, grad(x)>" % unparse(b)
            except NotLinear:
                pass
    if ok_r:
        rep.holds("A1", f, rets[0], "value(x + a y) > value(x) + gamma*a*<y, grad(x)>", node=rets[0])
    else:
        rep.violation("A1", f, rets[0], why or "right side is %s, expected value(x) + gamma*alpha*<y, grad(x)>" % unparse(r), node=rets[0])


def _a2(ctx, rep):
    ix = ctx.ix
    opt = ix.func(M + "projected_gradient_descent.ProjectedGradientDescentOption.__init__")
    accepted = None
    for n in own_nodes(opt.node):
        from ..astutil import deep_inline as _di
        if isinstance(n, ast.If) and "mode_stopping_criterion_gradient_descent" in unparse(_di(opt, n.test)):
            t = n.test
            if isinstance(t, ast.UnaryOp):
                t = t.operand
            if isinstance(t, ast.Compare) and isinstance(t.ops[0], (ast.In, ast.NotIn)):
                from ..astutil import literal_seq
                lst = literal_seq(opt, t.comparators[0])
                if isinstance(lst, (ast.List, ast.Tuple, ast.Set)):
                    accepted = [const(x) for x in lst.elts]
    if not accepted:
        rep.undecided("A2", opt, "accepted modes", "cannot read the accepted stopping modes")
        return
    for name, qn in ALGOS.items():
        f = ix.func(qn)
        lp = _main_loop(f)
        if lp is None:
            rep.undecided("A2", f, "loop", "main loop not found")
            continue
        handled = {}
        for n in ast.walk(lp):
            if isinstance(n, ast.If) and isinstance(n.test, ast.Compare) and "mode_stopping_criterion_gradient_descent" in unparse(_di(f, n.test.left)) \
                    and isinstance(n.test.ops[0], ast.Eq):
                m = const(n.test.comparators[0])
                sets = any(isinstance(s, ast.Assign) and unparse(s.targets[0]) == "error_value" for s in n.body)
                handled[m] = sets
        if not handled:
            # the error value may be computed by a private helper that dispatches on the mode it is handed
            for n in ast.walk(lp):
                if isinstance(n, ast.Assign) and isinstance(n.value, ast.Call) and isinstance(n.value.func, ast.Attribute) \
                        and isinstance(n.value.func.value, ast.Name) and n.value.func.value.id == f.self_name and f.cls is not None:
                    h = f.cls.lookup(n.value.func.attr)
                    if h is None or not h.name.startswith("_"):
                        continue
                    b, _ = bind_call(n.value, h, h.kind == "method")
                    mp = [p_ for p_, e_ in b.items() if "mode_stopping_criterion_gradient_descent" in unparse(e_)]
                    if not mp:
                        continue
                    rets = {unparse(r.value) for r in returns(h) if r.value is not None}
                    for c in ast.walk(h.node):
                        if isinstance(c, ast.If) and isinstance(c.test, ast.Compare) and unparse(c.test.left) == mp[0] and isinstance(c.test.ops[0], ast.Eq):
                            m = const(c.test.comparators[0])
                            handled[m] = any((isinstance(s_, ast.Assign) and unparse(s_.targets[0]) in rets) or isinstance(s_, ast.Return) for s_ in c.body)
        missing = [m for m in accepted if not handled.get(m)]
        extra = [m for m in handled if m not in accepted]
        if not handled:
            rep.undecided("A2", f, "stopping modes", "no dispatch on the stopping mode found in the main loop (neither `if <mode> == ...` branches "
                                                     "nor a private helper handed the mode)")
            continue
        rep.check(not missing, "A2", f, "stopping modes", "all %d accepted modes define error_value" % len(accepted),
                  "mode(s) %s are accepted by the option but no branch defines error_value (the previous value would be re-used)" % missing, node=lp)
        if extra:
            rep.info("A2", f, "unreachable modes", "branches for %s can never be selected" % extra)
        # continue while windowed sum > eps: the loop is left exactly when  value <= eps
        ldefs = {}
        for s_ in lp.body:
            if isinstance(s_, ast.Assign) and len(s_.targets) == 1 and isinstance(s_.targets[0], ast.Name):
                ldefs.setdefault(s_.targets[0].id, []).append(s_.value)
        leaves = [s_ for s_ in lp.body if isinstance(s_, ast.If) and any(isinstance(x, ast.Break) for x in s_.body) and not s_.orelse]
        con = "stop test"
        if len(leaves) != 1:
            rep.check(False, "A2", f, con, "", "the loop has %d `if ...: break` exits; expected the one stopping test" % len(leaves), node=lp) if not leaves \
                else rep.undecided("A2", f, con, "several `if ...: break` exits in the loop body")
            continue

        def as_leave(e, leave=True, depth=4):
            """(a, b) with: the loop is left exactly when a <= b;  None if the condition is of another form"""
            if isinstance(e, ast.UnaryOp) and isinstance(e.op, ast.Not):
                return as_leave(e.operand, not leave, depth)
            if isinstance(e, ast.IfExp) and const(e.body) is True and const(e.orelse) is False:
                return as_leave(e.test, leave, depth)
            if isinstance(e, ast.IfExp) and const(e.body) is False and const(e.orelse) is True:
                return as_leave(e.test, not leave, depth)
            if isinstance(e, ast.Compare) and len(e.ops) == 1 and isinstance(e.comparators[0], ast.Constant) and e.comparators[0].value in (True, False) \
                    and isinstance(e.ops[0], (ast.Eq, ast.Is)):
                return as_leave(e.left, leave if e.comparators[0].value else not leave, depth)
            if isinstance(e, ast.Name) and depth > 0 and len(ldefs.get(e.id, [])) == 1:
                return as_leave(ldefs[e.id][0], leave, depth - 1)
            if isinstance(e, ast.Compare) and len(e.ops) == 1:
                a, b, o = e.left, e.comparators[0], e.ops[0]
                # condition true <=> ... ; `leave` tells whether the loop is left when it is true
                if isinstance(o, ast.LtE) and leave:
                    return a, b
                if isinstance(o, ast.GtE) and leave:
                    return b, a
                if isinstance(o, ast.Gt) and not leave:
                    return a, b
                if isinstance(o, ast.Lt) and not leave:
                    return b, a
                return ("other", unparse(e), leave)
            return None
        r = as_leave(leaves[0].test)
        if r is None:
            rep.undecided("A2", f, con, "exit condition `%s` is not a comparison" % unparse(leaves[0].test))
            continue
        if len(r) == 3:
            rep.violation("A2", f, con, "the loop %s when `%s`; it must continue exactly while value > eps"
                          % ("is left" if r[2] else "continues", r[1]), node=leaves[0])
            continue
        a, b = r
        # the compared quantity with the loop body's once-bound locals written out
        from ..symsum import subst
        one = {k_: v_[0] for k_, v_ in ldefs.items() if len(v_) == 1}
        av = a
        for _ in range(4):
            av = subst(av, one)
        vt = unparse(av)
        # np.sum(<errors>[-W:]) with W = min(len(<errors>), <option>.num_history_stopping_criterion_gradient_descent)
        ok_win = False
        if isinstance(av, ast.Call) and (dotted(av.func) or "").split(".")[-1] == "sum" and len(av.args) == 1 and isinstance(av.args[0], ast.Subscript) \
                and isinstance(av.args[0].slice, ast.Slice) and av.args[0].slice.upper is None and av.args[0].slice.step is None:
            lst = unparse(av.args[0].value)
            lo = av.args[0].slice.lower
            if isinstance(lo, ast.UnaryOp) and isinstance(lo.op, ast.USub) and isinstance(lo.operand, ast.Call) and dotted(lo.operand.func) == "min" \
                    and len(lo.operand.args) == 2:
                # a window length read from the option before the loop (hoisted loop invariant) is written out
                ws = sorted(unparse(_di(f, x) if isinstance(x, ast.Name) else x) for x in lo.operand.args)
                ok_win = ("len(%s)" % lst) in ws and any(w.endswith(".num_history_stopping_criterion_gradient_descent") for w in ws) \
                    and any(isinstance(c_, ast.Call) and isinstance(c_.func, ast.Attribute) and c_.func.attr == "append" and unparse(c_.func.value) == lst
                            for c_ in ast.walk(lp))
        if unparse(b) != "eps":
            rep.violation("A2", f, con, "the loop is left when %s <= %s; the threshold must be eps" % (unparse(a), unparse(b)), node=leaves[0])
        elif not ok_win:
            rep.violation("A2", f, con, "compared quantity is %s, expected the windowed sum np.sum(error_values[-min(len(error_values), num_history):])" % vt,
                          node=leaves[0])
        else:
            rep.holds("A2", f, con, "continue while windowed sum > eps", node=leaves[0])


def _a3(ctx, rep):
    f = ctx.ix.func(E + "loss_minimization_estimator.LossMinimizationEstimator.calc_estimate_sequence")
    loops = [n for n in own_nodes(f.node) if isinstance(n, ast.For) and unparse(n.iter) == "empi_dists_sequence"]
    if len(loops) != 1:
        rep.undecided("A3", f, "loop", "expected one loop over the datasets")
        return
    lp = loops[0]
    lv = unparse(lp.target)
    cfg = ctx.cfg(f)

    def calls(name):
        return [n for n in ast.walk(lp) if isinstance(n, ast.Call) and unparse(n.func) == name]

    opt = calls("algo.optimize")
    if len(opt) != 1:
        rep.undecided("A3", f, "optimize", "expected one algo.optimize call per dataset")
        return
    on = cfg.node_of(opt[0])
    order = ["loss.set_from_standard_qtomography_option_data", "algo.set_from_option", "algo.set_constraint_from_standard_qt_and_option",
             "algo.set_from_loss"]
    prev = None
    for nm in order:
        c = calls(nm)
        if len(c) != 1:
            rep.violation("A3", f, nm, "%s is not called exactly once per dataset" % nm, node=lp)
            continue
        cn = cfg.node_of(c[0])
        ok = cfg.dominates(cn, on) and (prev is None or cfg.dominates(prev, cn))
        rep.check(ok, "A3", f, c[0], "runs before optimize, in configuration order", "%s does not precede optimize (or runs out of order)" % nm, node=c[0])
        prev = cn
    c = calls("loss.set_from_standard_qtomography_option_data")
    if c:
        a = c[0].args
        ok = len(a) >= 3 and unparse(a[0]) == "qtomography" and unparse(a[1]) == "loss_option" and unparse(a[2]) == lv
        rep.check(ok, "A3", f, "loss data", "loss is configured with the current dataset", "loss is configured with %s, not with the current dataset %s"
                  % ([unparse(x) for x in a[:3]], lv), node=c[0])
    # four validity guards
    guards = []
    for n in cfg.nodes:
        if n.kind == "test" and isinstance(n.ast, ast.If) and "sufficient()" in unparse(n.ast.test):
            tsucc = [s for s, lab in n.succ if lab == "T"]
            reach = set()
            for s in tsucc:
                reach |= cfg.reachable(s, skip_exc=False)
            raises = all(isinstance(x, ast.Raise) for x in n.ast.body[-1:])
            if raises and cfg.dominates(n, on):
                guards.append(unparse(n.ast.test))
    # guards performed inside a private helper that is called unconditionally before optimize count as well: its own top-level
    # `if <check fails>: raise` statements, with the helper's parameters replaced by the arguments of the call
    from ..astutil import norm_atom, clone
    from ..symsum import subst
    from ..resolve import bind_call
    unread_helpers = set()
    for n in cfg.nodes:
        c_ = n.ast if isinstance(n.ast, ast.Call) else (n.ast.value if isinstance(n.ast, ast.Expr) and isinstance(n.ast.value, ast.Call) else None)
        if c_ is None or not cfg.dominates(n, on):
            continue
        t = None
        if isinstance(c_.func, ast.Name):
            t = ctx.ix.scope_lookup(f.module, f, c_.func.id)
        elif isinstance(c_.func, ast.Attribute) and isinstance(c_.func.value, ast.Name) and c_.func.value.id == f.self_name and f.cls is not None:
            t = f.cls.lookup(c_.func.attr)
        if not isinstance(t, Func) or not t.name.startswith("_"):
            continue
        try:
            b, errs = bind_call(c_, t, isinstance(c_.func, ast.Attribute) and t.kind == "method")
        except Exception:
            continue
        n_before = len(guards)
        for st in t.node.body:
            if isinstance(st, ast.If) and not st.orelse and st.body and isinstance(st.body[-1], ast.Raise) and "sufficient()" in unparse(st.test):
                guards.append(unparse(subst(st.test, b)))
            # table-driven form: for (.., owner, method_name) in [literal tuples]: if getattr(owner, method_name)() == False: raise
            if isinstance(st, ast.For) and isinstance(st.target, ast.Tuple) and all(isinstance(x, ast.Name) for x in st.target.elts):
                from ..astutil import literal_seq
                seq = literal_seq(t, st.iter)
                rows = [r_ for r_ in seq.elts if isinstance(r_, ast.Tuple) and len(r_.elts) == len(st.target.elts)] if seq is not None else []
                tests = [x for x in st.body if isinstance(x, ast.If) and not x.orelse and x.body and isinstance(x.body[-1], ast.Raise)]
                if rows and len(rows) == len(seq.elts) and len(tests) == 1 and len(st.body) == 1:
                    for r_ in rows:
                        env_ = dict(b)
                        for nm_, v_ in zip(st.target.elts, r_.elts):
                            env_[nm_.id] = subst(v_, b)
                        tt = subst(tests[0].test, env_)

                        class G(ast.NodeTransformer):
                            def visit_Call(self, n_):
                                self.generic_visit(n_)
                                if isinstance(n_.func, ast.Name) and n_.func.id == "getattr" and len(n_.args) == 2 and isinstance(n_.args[1], ast.Constant) \
                                        and isinstance(n_.args[1].value, str):
                                    return ast.Attribute(value=n_.args[0], attr=n_.args[1].value, ctx=ast.Load())
                                return n_

                            def visit_Subscript(self, n_):
                                # owner looked up in a local literal dictionary: targets = {"loss": loss, ...}; targets["loss"]
                                self.generic_visit(n_)
                                if isinstance(n_.value, ast.Name) and isinstance(n_.slice, ast.Constant):
                                    d_ = single_defs(t).get(n_.value.id)
                                    if isinstance(d_, ast.Dict) and all(isinstance(k_, ast.Constant) for k_ in d_.keys):
                                        for k_, v_ in zip(d_.keys, d_.values):
                                            if k_.value == n_.slice.value:
                                                return subst(clone(v_), b)
                                return n_
                        guards.append(unparse(ast.fix_missing_locations(G().visit(tt))))
        if len(guards) == n_before and "sufficient" in ast.dump(t.node) + " ".join(unparse(v_) for v_ in t.module.assigns.values() if isinstance(v_, (ast.Tuple, ast.List, ast.Dict))):
            unread_helpers.add(t.name)
    want = ["loss.is_option_sufficient() == False", "algo.is_loss_sufficient() == False", "algo.is_option_sufficient() == False",
            "algo.is_loss_and_option_sufficient() == False"]
    norm = [g.replace("not ", "").replace(" == False", "").replace(" is False", "") for g in guards]
    miss = [w.replace(" == False", "") for w in want if w.replace(" == False", "") not in norm]
    if miss and unread_helpers:
        rep.undecided("A3", f, "sufficiency guards", "guard(s) %s not found in the loop; the helper(s) %s called before optimize mention the sufficiency "
                                                     "checks in a form that is not read" % (miss, sorted(unread_helpers)))
    else:
        rep.check(not miss, "A3", f, "sufficiency guards", "all four sufficiency checks raise before optimize", "missing guard(s) %s before optimize" % miss, node=lp)
    a = opt[0].args
    ok = len(a) >= 3 and [unparse(x) for x in a[:3]] == ["loss", "loss_option", "algo_option"]
    rep.check(ok, "A3", f, opt[0], "optimize(loss, loss_option, algo_option)", "optimize is called with %s" % [unparse(x) for x in a[:3]], node=opt[0])
    # the sequence handed to the result object (its first argument), whatever it is called, receives <optimize result>.value
    resc = [n for n in own_nodes(f.node) if isinstance(n, ast.Call) and unparse(n.func).endswith("EstimationResult") and n.args and isinstance(n.args[0], ast.Name)]
    seqn = resc[0].args[0].id if len(resc) == 1 else "estimated_var_sequence"
    app = [n for n in ast.walk(lp) if isinstance(n, ast.Call) and unparse(n.func) == seqn + ".append"]
    tgt = [unparse(t) for s in ast.walk(lp) if isinstance(s, ast.Assign) and s.value is opt[0] for t in s.targets]
    if not app:
        rep.undecided("A3", f, "append", "no append to the sequence handed to the result object (%s)" % seqn)
    else:
        got = unparse(app[0].args[0]) if app[0].args else None
        ok = len(app) == 1 and ((tgt and got == tgt[0] + ".value") or got == unparse(opt[0]) + ".value")
        rep.check(ok, "A3", f, app[0], "the estimate is the optimiser's value", "the appended estimate is %s, not algo.optimize(...).value" % got, node=app[0])


def _a4(ctx, rep):
    ix = ctx.ix
    fo = Folder(ix)
    try:
        solvers = fo.fold_names(CV + "minimization_algorithm.get_valid_names_solver")
        modes = fo.fold_names(CV + "minimization_algorithm.get_valid_modes_constraints")
    except NotFoldable as e:
        rep.undecided("A4", CV + "minimization_algorithm", "accepted names", str(e))
        return
    f = ix.func(CV + "minimization_algorithm.CvxpyMinimizationAlgorithm.optimize")

    def dispatch(var_texts):
        out = {}
        for n in own_nodes(f.node):
            if isinstance(n, ast.If) and isinstance(n.test, ast.Compare) and len(n.test.ops) == 1 and isinstance(n.test.ops[0], ast.Eq) \
                    and unparse(n.test.left) in var_texts:
                out[const(n.test.comparators[0])] = n
        return out

    ds = dispatch(("name_solver", "self.option.name_solver"))
    rep.check(sorted(ds) == sorted(solvers), "A4", f, "solver dispatch", "option accepts %s = branches" % solvers,
              "option accepts %s but optimize dispatches on %s" % (solvers, sorted(ds)), node=f.node)
    solves = {k: any(isinstance(x, ast.Call) and unparse(x.func) == "problem.solve" for x in ast.walk(ast.Module(body=v.body, type_ignores=[]))) for k, v in ds.items()}
    rep.check(all(solves.values()) and bool(solves), "A4", f, "solver branches solve", "every solver branch calls problem.solve",
              "branches without problem.solve: %s" % [k for k, v in solves.items() if not v], node=f.node)
    dm = dispatch(("self.option.mode_constraint", "mode_constraint"))
    ok = sorted(dm) == sorted(modes)
    why = "option accepts %s but optimize dispatches on %s" % (modes, sorted(dm))
    if ok:
        phys = dm.get("physical")
        un = dm.get("unconstraint")
        ptxt = " ".join(unparse(s) for s in phys.body) if phys else ""
        utxt = " ".join(unparse(s) for s in un.body) if un else ""
        if "generate_cvxpy_constraints_from_cvxpy_variable" not in ptxt:
            ok, why = False, "'physical' does not build the physicality constraints"
        elif utxt.replace(" ", "") != "constraints=[]":
            ok, why = False, "'unconstraint' sets %s" % utxt
        else:
            prob = [n for n in own_nodes(f.node) if isinstance(n, ast.Call) and unparse(n.func) == "cp.Problem"]
            if not (len(prob) == 1 and len(prob[0].args) == 2 and unparse(prob[0].args[1]) == "constraints"):
                ok, why = False, "the problem is not built with the selected constraints"
    rep.check(ok, "A4", f, "constraint dispatch", "'physical' builds the constraints handed to cp.Problem; 'unconstraint' hands []", why, node=f.node)



# ------------------------------------------------------------------------------ A5
def _norm2_of(e):
    """('ok', vector expr) for a Euclidean norm spelling; ('bad', why) for a recognised non-norm; (None, None) otherwise."""
    dn = (dotted(e.func) or "") if isinstance(e, ast.Call) else ""
    if dn in ("np.linalg.norm", "numpy.linalg.norm", "LA.norm") and len(e.args) == 1 and not e.keywords:
        return "ok", e.args[0]
    if dn in ("np.sqrt", "numpy.sqrt", "math.sqrt") and len(e.args) == 1:
        a = e.args[0]
        # sqrt(sum(v ** 2)) / sqrt(sum(v * v)) / sqrt(v @ v) / sqrt(np.dot(v, v))
        if isinstance(a, ast.Call) and (dotted(a.func) or "") in ("np.sum", "numpy.sum", "sum") and len(a.args) == 1:
            b = a.args[0]
            if isinstance(b, ast.BinOp) and isinstance(b.op, ast.Pow) and is_num(b.right, 2):
                return "ok", b.left
            if isinstance(b, ast.BinOp) and isinstance(b.op, ast.Mult) and unparse(b.left) == unparse(b.right):
                return "ok", b.left
            if isinstance(b, ast.Call) and (dotted(b.func) or "") in ("np.abs", "np.square") and b.args:
                if (dotted(b.func) or "").endswith("square"):
                    return "ok", b.args[0]
                return "bad", "sqrt of the sum of absolute values"
            return "bad", "sqrt(sum(%s)): the summand is not a square" % unparse(b)
        if isinstance(a, ast.BinOp) and isinstance(a.op, ast.Pow) and is_num(a.right, 2) and isinstance(a.left, ast.Call) \
                and (dotted(a.left.func) or "") in ("np.sum", "numpy.sum", "sum"):
            return "bad", "sqrt((sum of the components) ** 2) = |sum of the components|: components of opposite sign cancel, this is not a length"
        if isinstance(a, ast.BinOp) and isinstance(a.op, ast.MatMult) and unparse(a.left) == unparse(a.right):
            return "ok", a.left
        if isinstance(a, ast.Call) and (dotted(a.func) or "") in ("np.dot", "np.vdot", "np.inner") and len(a.args) == 2 and unparse(a.args[0]) == unparse(a.args[1]):
            return "ok", a.args[0]
    return None, None


def _a5(ctx, rep):
    from ..astutil import deep_inline as _di5
    f = ctx.ix.func(ALGOS["backtracking"])
    lp = _main_loop(f)
    if lp is None:
        rep.undecided("A5", f, "loop", "main loop not found")
        return
    defs = {}
    for st in lp.body:
        if isinstance(st, ast.Assign) and len(st.targets) == 1 and isinstance(st.targets[0], ast.Name):
            defs.setdefault(st.targets[0].id, st.value)
    branches = {}
    for n in ast.walk(lp):
        if isinstance(n, ast.If) and isinstance(n.test, ast.Compare) and isinstance(n.test.ops[0], ast.Eq) \
                and "mode_stopping_criterion_gradient_descent" in unparse(_di5(f, n.test.left)):
            m = const(n.test.comparators[0])
            for st in n.body:
                if isinstance(st, ast.Assign) and unparse(st.targets[0]) == "error_value":
                    branches[m] = st
    # the step and the direction: x_next = x_prev + alpha * y_prev
    xn = defs.get("x_next")
    direction = None
    if isinstance(xn, ast.BinOp) and isinstance(xn.op, ast.Add) and unparse(xn.left) == "x_prev" and isinstance(xn.right, ast.BinOp) \
            and isinstance(xn.right.op, ast.Mult):
        direction = unparse(xn.right.right) if unparse(xn.right.left) == "alpha" else (unparse(xn.right.left) if unparse(xn.right.right) == "alpha" else None)

    def loss_diff(e):
        return isinstance(e, ast.BinOp) and isinstance(e.op, ast.Sub) and unparse(e.left) == "loss_function.value(x_prev)" \
            and unparse(e.right) == "loss_function.value(x_next)"
    for m, st in sorted(branches.items()):
        v = st.value
        con = "error value of mode '%s'" % m
        if m == "single_difference_loss":
            rep.check(loss_diff(v), "A5", f, con, "f(x) - f(x')", "`%s` is not loss(x_prev) - loss(x_next)" % unparse(v), node=st)
        elif m == "sum_absolute_difference_loss":
            ok = isinstance(v, ast.Call) and (dotted(v.func) or "") in ("np.abs", "abs", "np.absolute", "np.fabs") and len(v.args) == 1 and \
                (loss_diff(v.args[0]) or (isinstance(v.args[0], ast.BinOp) and loss_diff(ast.BinOp(left=v.args[0].right, op=ast.Sub(), right=v.args[0].left))))
            rep.check(ok, "A5", f, con, "|f(x) - f(x')|", "`%s` is not |loss(x_prev) - loss(x_next)|" % unparse(v), node=st)
        elif m in ("sum_absolute_difference_variable", "sum_absolute_difference_projected_gradient"):
            kind, arg = _norm2_of(v)
            if kind == "bad":
                rep.violation("A5", f, con, "`%s`: %s" % (unparse(v), arg), node=st)
            elif kind is None:
                rep.undecided("A5", f, con, "`%s` is not a recognised spelling of a Euclidean norm" % unparse(v))
            elif m == "sum_absolute_difference_variable":
                t = unparse(arg).replace(" ", "")
                rep.check(t in ("x_prev-x_next", "x_next-x_prev", "(x_prev-x_next)", "(x_next-x_prev)"), "A5", f, con, "||x - x'||",
                          "the norm is taken of `%s`, not of the step x_prev - x_next" % unparse(arg), node=st)
            else:
                if direction is None:
                    rep.undecided("A5", f, con, "step is not x_prev + alpha * <direction>")
                else:
                    rep.check(unparse(arg) == direction, "A5", f, con, "||%s|| (the projected-gradient direction)" % direction,
                              "the norm is taken of `%s`; the projected-gradient direction of this loop is `%s`" % (unparse(arg), direction), node=st)
        else:
            rep.info("A5", f, con, "mode not in the property's list")
    # siblings (outside the property's quantifier: information only)
    for name in ("momentum", "fista"):
        g = ctx.ix.func(ALGOS[name])
        for n in ast.walk(g.node):
            if isinstance(n, ast.If) and isinstance(n.test, ast.Compare) and "mode_stopping_criterion_gradient_descent" in unparse(n.test.left) \
                    and const(n.test.comparators[0]) == "sum_absolute_difference_projected_gradient":
                for st in n.body:
                    if isinstance(st, ast.Assign) and unparse(st.targets[0]) == "error_value":
                        kind, arg = _norm2_of(st.value)
                        if kind == "ok" and unparse(arg) == "x_next":
                            rep.info("A5", g, "error value of mode 'sum_absolute_difference_projected_gradient'",
                                     "%s measures ||x_next|| (the iterate), which does not tend to 0; C11 quantifies over the backtracking "
                                     "algorithm only, so this is reported as information" % name, node=st)



# ------------------------------------------------------------------------------ A7
def _a8(ctx, rep):
    """per-schedule partial sums: in `for i: [t = 0]; for j: t += term(i, j); total += c_i * t` the inner accumulator is reset for every i.
    An accumulator initialised only before the outer loop carries the earlier schedules' terms into the later ones, i.e. schedule i
    gets the weight c_i + c_{i+1} + ... instead of c_i."""
    n = 0
    for f in ctx.ix.funcs.values():
        if not f.module.name.startswith(("quara.interface.cvxpy", "quara.loss_function")):
            continue
        for lp1 in own_nodes(f.node):
            if not isinstance(lp1, ast.For):
                continue
            for k, lp2 in enumerate(lp1.body):
                if not isinstance(lp2, ast.For):
                    continue
                accs = {a.target.id for a in ast.walk(lp2) if isinstance(a, ast.AugAssign) and isinstance(a.target, ast.Name)}
                later = lp1.body[k + 1:]
                for acc in sorted(accs):
                    # read after the inner loop, inside the outer loop, in a statement that accumulates into something else
                    used = any(isinstance(x, ast.Name) and x.id == acc and isinstance(x.ctx, ast.Load) for st in later for x in ast.walk(st))
                    if not used:
                        continue
                    resets_in = [st for st in lp1.body[:k] if isinstance(st, ast.Assign) and any(isinstance(t, ast.Name) and t.id == acc for t in st.targets)]
                    resets_out = [st for st in own_nodes(f.node) if isinstance(st, ast.Assign) and any(isinstance(t, ast.Name) and t.id == acc for t in st.targets)
                                  and not any(st is y for y in ast.walk(lp1))]
                    con = "%s: partial sum `%s` of the loop over %s" % (f.name, acc, unparse(lp2.iter)[:40])
                    n += 1
                    if resets_in:
                        rep.holds("A8", f, con, "reset at the top of every outer iteration", node=lp2)
                    elif resets_out:
                        rep.violation("A8", f, con, "`%s` is initialised before the outer loop only, is added to inside the inner loop and is used after it in every "
                                                    "outer iteration: the terms of earlier schedules are counted again for every later one (schedule i gets "
                                                    "the sum of the later weights instead of its own)" % acc, node=resets_out[0])
                    else:
                        rep.undecided("A8", f, con, "no initialisation of `%s` found" % acc)
    if n == 0:
        rep.undecided("A8", "quara.interface.cvxpy", "partial sums", "no per-schedule partial sum found")


def _a9(ctx, rep):
    """a sum over outcomes / schedules visits every term: an accumulation loop of a loss expression has no `break`"""
    n = 0
    for f in ctx.ix.funcs.values():
        if not f.module.name.startswith(("quara.interface.cvxpy.qtomography.standard.loss_function", "quara.loss_function")):
            continue
        for lp in own_nodes(f.node):
            if isinstance(lp, ast.For) and any(isinstance(x, ast.AugAssign) for x in ast.walk(lp)):
                n += 1
                brk = [x for x in ast.walk(lp) if isinstance(x, ast.Break)]
                con = "%s: accumulation loop over %s" % (f.name, unparse(lp.iter)[:40])
                if brk:
                    rep.violation("A9", f, con, "the loop that accumulates the loss leaves with `break`: every term after the first one that meets the "
                                                "condition is dropped from the sum (a term that does not contribute must be skipped, not end the loop)", node=brk[0])
                else:
                    rep.holds("A9", f, con, "every term is visited", node=lp, nontrivial=False)
    if n == 0:
        rep.undecided("A9", "quara.loss_function", "accumulation loops", "none found")


def _a7(ctx, rep):
    mod = ctx.ix.modules.get("quara.interface.cvxpy.conversion")
    if mod is None:
        rep.undecided("A7", "quara.interface.cvxpy.conversion", "module", "module not found")
        return
    n_sens = 0
    for f in mod.funcs.values():
        for n in own_nodes(f.node):
            if not (isinstance(n, ast.Call) and (dotted(n.func) or "") in ("cp.reshape", "cvxpy.reshape") and len(n.args) >= 2):
                continue
            from ..astutil import deep_inline
            shp = deep_inline(f, n.args[1])
            order = kwarg(n, "order") or (n.args[2] if len(n.args) > 2 else None)
            if order is not None:
                order = deep_inline(f, order)
            con = "%s: %s" % (f.name, unparse(n)[:90])
            if not (isinstance(shp, ast.Tuple) and len(shp.elts) == 2):
                rep.info("A7", f, con, "target shape is not a 2-tuple")
                continue
            a, b = shp.elts
            if unparse(a) == unparse(b):
                rep.info("A7", f, con, "square target: the two orders differ by a transpose, which Hermitian / PSD constraints do not see")
                continue
            if any(is_num(x, 1) or is_num(x, -1) for x in (a, b)):
                rep.info("A7", f, con, "single row / column: order-insensitive")
                continue
            n_sens += 1
            if order is None:
                rep.violation("A7", f, con, "row-structured reshape without order='C': cvxpy fills the matrix column by column, so the rows are not the "
                              "per-outcome blocks of the variable vector (only a single-row or single-column reshape is unaffected)", node=n)
            elif const(order) == "C":
                rep.holds("A7", f, con, "row-major", node=n)
            else:
                rep.violation("A7", f, con, "reshape order is %s; the variable vector is laid out row-major (one block per outcome)" % unparse(order), node=n)
    if n_sens == 0:
        rep.undecided("A7", "quara.interface.cvxpy.conversion", "row-structured reshapes", "none found")
