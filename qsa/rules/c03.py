"""C03 - variables <-> objects: index maps, one-hot gradients, variable counts, kind order,
implied constants and positions, slots, state-field completeness."""
from __future__ import annotations

import ast
from fractions import Fraction

from ..astutil import arg, const, inline, is_num, kwarg, returns, single_defs, unparse, NOCONST, body_wo_doc
from ..index import AnalysisError, Class, Func, dotted, own_nodes
from ..poly import Poly
from ..resolve import bind_call
from ..slots import check_field_completeness, check_slots, class_call_sites, factory_call_sites, hook_target
from ..symint import SymInterp, Undecided

OBJ = "quara.objects."
D2 = Poly.sym("d") ** 2


def S(n):
    return Poly.sym(n)


# type -> forward map, backward map, object-index parameter, domain cases per flag
def _domains(kind, flag, L="len(hss)", size="vecs[0].shape[0]"):
    """Domain cases of object indices that carry a variable: list of
    (value, ranges, assumptions as [(poly==0, truth)], last free index)"""
    d2 = D2
    if kind == "state":
        if flag:
            return [(S("s0") + 1, {"s0": d2 - 1}, [], d2 - 1)]
        return [(S("s"), {"s": d2}, [], d2 - 1)]
    if kind == "povm":
        n, k = S("n"), S("k")
        m = Poly.sym("len(vecs)")
        nmax = m - 1 if flag else m
        return [((n, k), {"n": nmax, "k": Poly.sym(size)}, [], (nmax - 1, Poly.sym(size) - 1))]
    if kind == "gate":
        if flag:
            return [((S("row0") + 1, S("col")), {"row0": d2 - 1, "col": d2}, [], (d2 - 1, d2 - 1))]
        return [((S("row"), S("col")), {"row": d2, "col": d2}, [], (d2 - 1, d2 - 1))]
    if kind == "mprocess":
        Lp = Poly.sym(L)
        last = (Lp - 1, d2 - 1, d2 - 1)
        if flag:
            return [
                ((S("h"), S("row0") + 1, S("col")), {"h": Lp, "row0": d2 - 1, "col": d2}, [(S("h") - (Lp - 1), True)], last),
                ((S("h"), S("row"), S("col")), {"h": Lp, "row": d2, "col": d2}, [(S("h") - (Lp - 1), False)], last),
            ]
        return [((S("h"), S("row"), S("col")), {"h": Lp, "row": d2, "col": d2}, [], last)]
    raise KeyError(kind)


MAPS = {
    "state": (OBJ + "state.convert_var_index_to_state_index", OBJ + "state.convert_state_index_to_var_index", "state_index"),
    "povm": (OBJ + "povm.convert_var_index_to_povm_index", OBJ + "povm.convert_povm_index_to_var_index", "povm_index"),
    "gate": (OBJ + "gate.convert_var_index_to_gate_index", OBJ + "gate.convert_gate_index_to_var_index", "gate_index"),
    "mprocess": (OBJ + "mprocess.convert_var_index_to_mprocess_index", OBJ + "mprocess.convert_mprocess_index_to_var_index", "mprocess_index"),
}
TOMO = {
    "state": ("quara.protocol.qtomography.standard.standard_qst.StandardQst", {"len": None}),
    "povm": ("quara.protocol.qtomography.standard.standard_povmt.StandardPovmt", {}),
    "gate": ("quara.protocol.qtomography.standard.standard_qpt.StandardQpt", {}),
    "mprocess": ("quara.protocol.qtomography.standard.standard_qmpt.StandardQmpt", {}),
}
GRAD = {
    "state": OBJ + "state.calc_gradient_from_state",
    "povm": OBJ + "povm.calc_gradient_from_povm",
    "gate": OBJ + "gate.calc_gradient_from_gate",
    "mprocess": OBJ + "mprocess.calc_gradient_from_mprocess",
}
CLASSES = {"state": OBJ + "state.State", "povm": OBJ + "povm.Povm", "gate": OBJ + "gate.Gate", "mprocess": OBJ + "mprocess.MProcess"}
KINDS = ["state", "gate", "povm", "mprocess"]


def fully(p: Poly, defs):
    for _ in range(8):
        q = p.subst(defs)
        if q == p:
            return q
        p = q
    return p


def tup(v):
    return v if isinstance(v, tuple) else (v,)


def run(ctx, rep):
    ix = ctx.ix
    rep.rule("I1", "each variable-index <-> object-index map pair is a mutual inverse on its domain under both flags "
                   "(exact symbolic evaluation of the divmod arithmetic)", floor=16)
    rep.rule("I2", "the gradient one-hot is stored at the index the forward map returns for the requested variable", floor=4)
    rep.rule("I3", "num_variables of each tomography class = (variable index of the last free object entry) + 1 under both flags", floor=8)
    rep.rule("I4", "SetQOperations enumerates the four kinds in one order in var_total, the first-index map, the mode lookup, "
                   "_all_qoperations and set_qoperations_from_var_total", floor=5)
    rep.rule("I4b", "within one kind, the first variable index of item k is the sum of the sizes of items 0..k-1: every accumulation "
                    "loop in SetQOperations adds the size of the item its loop variable points at", floor=2)
    rep.rule("I5", "implied constants and their positions agree at every site: state coefficient 0 = d^-1/2; POVM total = d^1/2 e0 "
                   "(d^1/2/m per element); gate row 0 = e0; measurement-process implied row = e0 - sum of first rows, at the last block", floor=12)
    rep.rule("I6", "slot conformance for the four types (shared with C02 R5)", floor=28)
    rep.rule("I8", "option wiring: where a function hands its own parameters on by keyword, no parameter is handed to the slot of ANOTHER "
                   "of its parameters that the callee also has (on_para_eq_constraint=on_algo_eq_constraint ...)", floor=20)
    rep.rule("I7", "a method that re-creates its object (generate_from_var, copy) hands every stored constructor parameter the "
                   "instance's own value or a caller override defaulting to it", floor=20)

    # ---------------------------------------------------------------------- I1, I3
    for kind, (fq, bq, objp) in MAPS.items():
        fwd, bwd = ix.func(fq), ix.func(bq)
        for flag in (True, False):
            _check_pair(ctx, rep, kind, fwd, bwd, objp, flag)
    # ---------------------------------------------------------------------- I2
    for kind, gq in GRAD.items():
        _check_onehot(ctx, rep, kind, ix.func(gq), ix.func(MAPS[kind][0]))
    # ---------------------------------------------------------------------- I4
    _check_kind_order(ctx, rep)
    _check_prefix_sums(ctx, rep)
    # ---------------------------------------------------------------------- I5 / I8
    _check_constants(ctx, rep)
    # ---------------------------------------------------------------------- I6
    base = ix.cls(OBJ + "qoperation.QOperation")
    for m, c, call, filler, errs in check_slots(ctx, base):
        if c.name not in ("State", "Povm", "Gate", "MProcess"):
            continue
        con = "%s via %s -> %s" % (c.name, m.name, filler)
        if errs:
            rep.violation("I6", m, con, "; ".join(errs), node=call)
        else:
            rep.holds("I6", m, con, "call binds", node=call)
    # ---------------------------------------------------------------------- I7
    _check_recreation(ctx, rep, base)
    _check_cross_wiring(ctx, rep)


# ------------------------------------------------------------------------------ I1
def _args_for(func: Func, values):
    return {p: values[p] for p in func.params if p in values}


def _check_pair(ctx, rep, kind, fwd: Func, bwd: Func, objp: str, flag: bool):
    label = "on_para_eq_constraint=%s" % flag
    flags = {"on_para_eq_constraint": flag}
    # (a) backward(forward(v)) == v
    try:
        fi = SymInterp(fwd, flags)
        paths = fi.run({"var_index": S("v")})
        if not paths:
            raise Undecided("forward map has no returning path")
        ok, details = True, []
        for p in paths:
            bi = SymInterp(bwd, flags)
            bps = bi.run({objp: p.ret}, ranges=p.ranges, assume=p.assume, defs=p.defs)
            if not bps:
                raise Undecided("backward map has no returning path")
            for bp in bps:
                if not isinstance(bp.ret, Poly):
                    raise Undecided("backward map does not return an integer")
                lhs = fully(bp.ret, bp.defs)
                rhs = fully(S("v"), bp.defs)
                if lhs != rhs:
                    ok = False
                    details.append("v -> %s -> %r, expected %r" % (_fmt(p.ret), lhs, rhs))
                else:
                    details.append("v -> %s -> v" % _fmt(p.ret))
        con = "%s(%s(v)) [%s]" % (bwd.name, fwd.name, label)
        if ok:
            rep.holds("I1", fwd, con, "; ".join(details), label=label)
        else:
            rep.violation("I1", fwd, con, "the maps are not mutually inverse: " + "; ".join(details), label=label, node=fwd.node)
    except Undecided as e:
        rep.undecided("I1", fwd, "%s o %s [%s]" % (bwd.name, fwd.name, label), str(e))
    # (b) forward(backward(obj)) == obj on every domain case, and I3
    try:
        ok, details = True, []
        for val, ranges, assume, last in _domains(kind, flag):
            bi = SymInterp(bwd, flags)
            bps = bi.run({objp: val}, ranges=ranges, assume={k: t for k, t in assume})
            for bp in bps:
                fi = SymInterp(fwd, flags)
                fps = fi.run({"var_index": bp.ret}, ranges=bp.ranges, assume=bp.assume, defs=bp.defs)
                for fp in fps:
                    got = tuple(fully(x, fp.defs) for x in tup(fp.ret))
                    want = tuple(fully(x, fp.defs) for x in tup(val))
                    if got != want:
                        ok = False
                        details.append("%s -> %r -> %s" % (_fmt(val), bp.ret, _fmt(fp.ret)))
                    else:
                        details.append("%s -> %r -> same" % (_fmt(val), bp.ret))
        con = "%s(%s(index)) [%s]" % (fwd.name, bwd.name, label)
        if ok:
            rep.holds("I1", bwd, con, "; ".join(details), label=label)
        else:
            rep.violation("I1", bwd, con, "object index not reproduced: " + "; ".join(details), label=label, node=bwd.node)
    except Undecided as e:
        rep.undecided("I1", bwd, "%s o %s [%s]" % (fwd.name, bwd.name, label), str(e))
    # I3
    _check_numvars(ctx, rep, kind, bwd, objp, flag)


def _fmt(v):
    if isinstance(v, tuple):
        return "(" + ", ".join(repr(x) for x in v) + ")"
    return repr(v)


def _check_numvars(ctx, rep, kind, bwd: Func, objp: str, flag: bool):
    cq, _ = TOMO[kind]
    c = ctx.ix.cls(cq)
    init = c.methods.get("__init__")
    label = "on_para_eq_constraint=%s" % flag
    if init is None:
        raise AnalysisError("%s.__init__ not found" % cq)
    # the _num_variables store under this flag
    stores = []
    for n in own_nodes(init.node):
        if isinstance(n, ast.Assign) and any(isinstance(t, ast.Attribute) and t.attr == "_num_variables" for t in n.targets):
            br = _branch_flag(n, "on_para_eq_constraint")
            if br is None or br == flag:
                stores.append(n)
    if len(stores) != 1:
        rep.undecided("I3", init, "_num_variables [%s]" % label, "expected one store under this flag, found %d" % len(stores))
        return
    try:
        got = _size_poly(_specialise_flag(stores[0].value, "on_para_eq_constraint", flag), init)
        _, _, _, last = _domains(kind, flag)[0]
        flags = {"on_para_eq_constraint": flag}
        bi = SymInterp(bwd, flags)
        # the last entry belongs to the last block: assume the "is last" test true
        assume = {}
        if kind == "mprocess":
            assume = {}
        bps = bi.run({objp: last if isinstance(last, tuple) else last})
        want = None
        for bp in bps:
            # pick the path consistent with "index is the last block"
            consistent = all((k.subst({"h": Poly.sym("len(hss)") - 1}).is_zero()) == v for k, v in bp.assume.items()) if bp.assume else True
            if consistent:
                want = fully(bp.ret, bp.defs) + 1
        if want is None:
            raise Undecided("no path for the last index")
        want = want.subst({"len(hss)": Poly.sym("m"), "len(vecs)": Poly.sym("m"), "vecs[0].shape[0]": D2})
        if got == want:
            rep.holds("I3", init, stores[0], "%r = index of last free entry + 1" % got, node=stores[0], label=label)
        else:
            rep.violation("I3", init, stores[0], "num_variables is %r but the variable vector of a %s has %r entries (%s)"
                          % (got, kind, want, label), node=stores[0], label=label)
    except Undecided as e:
        rep.undecided("I3", init, stores[0], str(e))


def _specialise_flag(e, flagname, value: bool):
    """conditional expressions on the flag inside `e` are replaced by the branch taken for this value of the flag"""
    import copy as _copy

    def truth(t):
        if isinstance(t, ast.Name) and t.id == flagname:
            return value
        if isinstance(t, ast.UnaryOp) and isinstance(t.op, ast.Not):
            v = truth(t.operand)
            return None if v is None else (not v)
        if isinstance(t, ast.Compare) and len(t.ops) == 1 and isinstance(t.left, ast.Name) and t.left.id == flagname \
                and isinstance(t.comparators[0], ast.Constant) and t.comparators[0].value in (True, False) and isinstance(t.ops[0], (ast.Eq, ast.Is)):
            return value == t.comparators[0].value
        return None

    class T(ast.NodeTransformer):
        def visit_IfExp(self, n):
            self.generic_visit(n)
            v = truth(n.test)
            if v is None:
                return n
            return n.body if v else n.orelse
    return T().visit(_copy.deepcopy(e))


def _branch_flag(node, flagname):
    """True/False if `node` sits in the body/orelse of `if <flagname>:`; None if unconditional."""
    child = node
    p = getattr(node, "_parent", None)
    while p is not None and not isinstance(p, (ast.FunctionDef, ast.AsyncFunctionDef)):
        if isinstance(p, ast.If):
            t = p.test
            neg = False
            if isinstance(t, ast.UnaryOp) and isinstance(t.op, ast.Not):
                t, neg = t.operand, True
            if isinstance(t, ast.Compare) and len(t.ops) == 1 and isinstance(t.comparators[0], ast.Constant) \
                    and isinstance(t.comparators[0].value, bool):
                if isinstance(t.ops[0], (ast.Eq, ast.Is)):
                    neg = neg != (not t.comparators[0].value)
                t = t.left
            nm = t.id if isinstance(t, ast.Name) else (t.attr if isinstance(t, ast.Attribute) else None)
            if nm is not None and nm.lstrip("_") == flagname:
                inbody = any(child is s for s in p.body)
                return inbody != neg
        child = p
        p = getattr(p, "_parent", None)
    return None


def _size_poly(e: ast.AST, func: Func = None, defs=None) -> Poly:
    """Scalar size expression -> polynomial in d (dimension) and m (outcome count)."""
    if defs is None and func is not None:
        defs = single_defs(func)
    defs = defs or {}
    if isinstance(e, ast.Constant) and isinstance(e.value, (int, float)) and not isinstance(e.value, bool):
        return Poly.const(Fraction(e.value).limit_denominator(10 ** 6))
    if isinstance(e, ast.BinOp):
        l, r = _size_poly(e.left, func, defs), _size_poly(e.right, func, defs)
        if isinstance(e.op, ast.Add):
            return l + r
        if isinstance(e.op, ast.Sub):
            return l - r
        if isinstance(e.op, ast.Mult):
            return l * r
        if isinstance(e.op, ast.Pow):
            try:
                return l ** r
            except ValueError as ex:
                raise Undecided(str(ex))
        if isinstance(e.op, (ast.Div, ast.FloorDiv)):
            q = l.div_mono(r)
            if q is None:
                raise Undecided("division by a sum: %s" % unparse(e))
            return q
    if isinstance(e, ast.UnaryOp) and isinstance(e.op, ast.USub):
        return -_size_poly(e.operand, func, defs)
    if isinstance(e, ast.Attribute) and e.attr in ("dim", "_dim"):
        return Poly.sym("d")
    if isinstance(e, ast.Name):
        if e.id in ("dim",) and e.id not in defs:
            return Poly.sym("d")
        if e.id in defs:
            return _size_poly(defs[e.id], func, {k: v for k, v in defs.items() if k != e.id})
        if e.id in ("num_outcomes", "m", "measurement_n"):
            return Poly.sym("m")
        if func is not None and func.parent is not None:
            pd = single_defs(func.parent)
            if e.id in pd:
                return _size_poly(pd[e.id], func.parent, {k: v for k, v in pd.items() if k != e.id})
    if isinstance(e, ast.Subscript) and isinstance(e.value, ast.Attribute) and e.value.attr in ("shape", "_shape") \
            and isinstance(e.slice, ast.Constant) and isinstance(e.slice.value, int) and unparse(e.value.value) == "self":
        # size of one axis of the object's outcome shape: a symbol of its own (equal to m only for a flat shape)
        return Poly.sym("n%d" % e.slice.value)
    if isinstance(e, ast.Call):
        dn = dotted(e.func) or ""
        if dn == "len" and len(e.args) == 1:
            t = unparse(e.args[0])
            if t.split(".")[-1].lstrip("_") in ("hss", "vecs", "matrices", "povm_elements", "kraus_matrices") or t in ("hss", "vecs"):
                return Poly.sym("m")
            if t.split(".")[-1].lstrip("_") == "shape":
                return Poly.sym("rank")
            raise Undecided("length of %s" % t)
        if dn.split(".")[-1] == "sqrt" and len(e.args) == 1:
            try:
                return _size_poly(e.args[0], func, defs) ** Fraction(1, 2)
            except ValueError as ex:
                raise Undecided(str(ex))
        if dn in ("int", "float") and len(e.args) == 1:
            return _size_poly(e.args[0], func, defs)
    if isinstance(e, ast.Attribute) and e.attr == "num_outcomes":
        return Poly.sym("m")
    raise Undecided("size expression %s" % unparse(e))


# ------------------------------------------------------------------------------ I2
def _check_onehot(ctx, rep, kind, g: Func, fwd: Func):
    # the assignment from the forward map
    src = None
    for n in own_nodes(g.node):
        if isinstance(n, ast.Assign) and isinstance(n.value, ast.Call):
            ts = ctx.res.resolve_call(g, n.value, by_name=False)
            if fwd in ts:
                src = n
    if src is None:
        rep.violation("I2", g, "one-hot index", "the gradient index is not computed by %s" % fwd.name, node=g.node)
        return
    binding, _ = bind_call(src.value, fwd, False)
    vi = binding.get("var_index")
    if not (isinstance(vi, ast.Name) and vi.id == "var_index"):
        rep.violation("I2", g, src, "the forward map is not applied to the requested var_index", node=src)
        return
    fl = binding.get("on_para_eq_constraint")
    if "on_para_eq_constraint" in fwd.params and not (isinstance(fl, ast.Name) and fl.id == "on_para_eq_constraint"):
        rep.violation("I2", g, src, "the forward map is not given the caller's on_para_eq_constraint", node=src)
        return
    tnames = [t.id for t in ast.walk(src.targets[0]) if isinstance(t, ast.Name)]
    stores = [n for n in own_nodes(g.node) if isinstance(n, ast.Assign) and any(isinstance(t, ast.Subscript) for t in n.targets)]
    if len(stores) != 1:
        rep.undecided("I2", g, "one-hot store", "expected exactly one subscript store, found %d" % len(stores))
        return
    st = stores[0]
    if not is_num(st.value, 1):
        rep.violation("I2", g, st, "the one-hot entry is %s, not 1" % unparse(st.value), node=st)
        return
    # collect subscript index names outermost-first
    idx = []
    t = st.targets[0]
    while isinstance(t, ast.Subscript):
        sl = t.slice
        if isinstance(sl, ast.Tuple):
            idx = [unparse(x) for x in sl.elts] + idx
        else:
            idx = [unparse(sl)] + idx
        t = t.value
    if idx == tnames:
        rep.holds("I2", g, st, "stored at %s = %s(var_index)" % (idx, fwd.name), node=st)
    else:
        rep.violation("I2", g, st, "the one-hot is stored at %s but %s returns %s (order or components differ)" % (idx, fwd.name, tnames), node=st)


# ------------------------------------------------------------------------------ I4
def _kind_of(name: str):
    n = name.lower()
    for k, keys in (("mprocess", ("mprocess",)), ("state", ("state",)), ("gate", ("gate",)), ("povm", ("povm",))):
        if any(x in n for x in keys):
            return k
    return None


def _check_kind_order(ctx, rep):
    c = ctx.ix.cls(OBJ + "qoperations.SetQOperations")

    def meth(n):
        m = c.methods.get(n)
        if m is None:
            raise AnalysisError("SetQOperations.%s not found" % n)
        return m

    # reference order: var_total
    vt = meth("var_total")
    ref = None
    for n in own_nodes(vt.node):
        if isinstance(n, ast.Call) and (dotted(n.func) or "").split(".")[-1] in ("hstack", "concatenate") and n.args \
                and isinstance(n.args[0], (ast.List, ast.Tuple)):
            ref = [_kind_of(unparse(x)) for x in n.args[0].elts]
    if ref is None or None in ref or sorted(ref) != sorted(KINDS):
        rep.undecided("I4", vt, "var_total", "cannot read the four kinds from the stacked list: %s" % ref)
        return
    rep.holds("I4", vt, "order " + ",".join(ref), "reference order of the total variable vector")
    # _all_qoperations
    aq = meth("_all_qoperations")
    r = returns(aq)
    seq = []

    def flat(e):
        if isinstance(e, ast.BinOp) and isinstance(e.op, ast.Add):
            flat(e.left)
            flat(e.right)
        else:
            seq.append(_kind_of(unparse(e)))

    if r:
        flat(inline(aq, r[0].value))
    rep.check(seq == ref, "I4", aq, r[0] if r else "return", "same order", "objects are concatenated as %s but variables as %s" % (seq, ref),
              node=r[0] if r else aq.node)
    # first-index map: kinds whose sizes precede each kind
    fm = meth("_get_operation_mode_to_total_index_map")
    r = returns(fm)
    ok, why = True, ""
    mapv = r[0].value if r else None
    if isinstance(mapv, ast.Name):
        mapv = inline(fm, mapv, depth=2)
    if isinstance(mapv, ast.Dict) and mapv.keys and all(isinstance(k_, ast.Constant) and isinstance(k_.value, str) for k_ in mapv.keys):
        # {"state": 0, ...} is dict(state=0, ...)
        mapv = ast.Call(func=ast.Name(id="dict", ctx=ast.Load()), args=[], keywords=[ast.keyword(arg=k_.value, value=v_) for k_, v_ in zip(mapv.keys, mapv.values)])
    if r and isinstance(mapv, ast.Call) and dotted(mapv.func) == "dict" and not mapv.args:
        for kw in mapv.keywords:
            e = inline(fm, kw.value, depth=8)
            before = sorted(_kind_of(dotted(x.func) or "") for x in ast.walk(e) if isinstance(x, ast.Call)
                            and "size_var" in (dotted(x.func) or ""))
            want = sorted(ref[: ref.index(kw.arg)]) if kw.arg in ref else None
            if before != want:
                ok, why = False, "first index of '%s' sums the sizes of %s, but %s precede it in the variable vector" % (kw.arg, before, want)
        if sorted(str(k.arg) for k in mapv.keywords) != sorted(KINDS):
            ok, why = False, "map does not cover the four kinds"
        rep.check(ok, "I4", fm, r[0], "first index of each kind = total size of the kinds before it", why, node=r[0])
    else:
        rep.undecided("I4", fm, "return", "map is not a dict(kind=first_index) literal")
    # mode lookup
    gm = meth("_get_mode_from_index_var_total")
    from ..symsum import cases, returning
    ok, why, seen = True, "", []
    cs = cases(gm)

    def key(e):
        if isinstance(e, ast.Subscript) and isinstance(e.slice, ast.Constant):
            return e.slice.value
        if is_num(e, 0):
            return ref[0]
        if isinstance(e, ast.Call) and "size_var_total" in (dotted(e.func) or ""):
            return "<end>"
        return unparse(e)
    for cse in (returning(cs) if cs else []):
        v = cse.value
        if not (isinstance(v, ast.Constant) and v.value in ref):
            continue
        mode = v.value
        # the interval under which this kind is returned: the (last) chained comparison lo <= index < hi taken on this path
        ivs = [n for t, pol, n in cse.guards if pol and isinstance(n, ast.Compare) and len(n.ops) == 2]
        if not ivs:
            continue
        n = ivs[-1]
        seen.append(mode)
        i = ref.index(mode)
        lo, hi = n.left, n.comparators[1]
        wlo, whi = ref[i], (ref[i + 1] if i + 1 < len(ref) else "<end>")
        if key(lo) != wlo or key(hi) != whi:
            ok, why = False, "mode '%s' is selected for [%s, %s) but its block is [%s, %s)" % (mode, key(lo), key(hi), wlo, whi)
        if not (isinstance(n.ops[0], ast.LtE) and isinstance(n.ops[1], ast.Lt)):
            ok, why = False, "interval for '%s' is not half-open [lo, hi)" % mode
    if sorted(set(seen)) != sorted(KINDS):
        rep.undecided("I4", gm, "mode intervals", "the lookup is not a chain of `first(kind) <= index < first(next kind)` tests (kinds recognised: %s)" % sorted(set(seen)))
    else:
        rep.check(ok, "I4", gm, "mode intervals", "each kind's interval is [first(kind), first(next kind))", why, node=gm.node)
    # set_qoperations_from_var_total iterates _all_qoperations() with cumulative slices
    sq = meth("set_qoperations_from_var_total")
    loops = [n for n in own_nodes(sq.node) if isinstance(n, ast.For)]
    from .c12 import _ipoly
    verdict = None
    why = "no loop over _all_qoperations()"
    for lp in loops:
        it = inline(sq, lp.iter)
        if not (isinstance(it, ast.Call) and "_all_qoperations" in (dotted(it.func) or "") and isinstance(lp.target, ast.Name)):
            continue
        lv = lp.target.id
        # the slices var_total[a:b] taken in the body, and the running offset, as polynomials in (offset at the top of the body, len(<item>.to_var()))
        slices = [n for n in ast.walk(lp) if isinstance(n, ast.Subscript) and unparse(n.value) == "var_total" and isinstance(n.slice, ast.Slice)]
        if len(slices) != 1 or slices[0].slice.lower is None or slices[0].slice.upper is None or slices[0].slice.step is not None:
            verdict, why = None, "expected one slice var_total[a:b] in the loop body"
            continue
        offs = {x.id for x in ast.walk(slices[0].slice.lower) if isinstance(x, ast.Name)}
        env = {}
        try:
            pos = None
            for st in lp.body:
                if any(x is slices[0] for x in ast.walk(st)):
                    lo = _ipoly(slices[0].slice.lower, dict(env))
                    hi = _ipoly(slices[0].slice.upper, dict(env))
                    pos = (lo, hi)
                if isinstance(st, ast.Assign) and len(st.targets) == 1 and isinstance(st.targets[0], ast.Name):
                    env[st.targets[0].id] = _freeze_expr(st.value, env)
                elif isinstance(st, ast.AugAssign) and isinstance(st.target, ast.Name) and isinstance(st.op, ast.Add):
                    env[st.target.id] = _freeze_expr(ast.BinOp(left=ast.Name(id=st.target.id, ctx=ast.Load()), op=ast.Add(), right=st.value), env)
            if pos is None:
                verdict, why = None, "slice not found at the top level of the loop body"
                continue
            lo, hi = pos
            from ..poly import Poly
            L = Poly.sym("len(%s.to_var())" % lv)
            cand = [x for x in offs if lo == Poly.sym(x)]
            if len(cand) != 1:
                verdict, why = False, "the slice starts at %r, which is not the running offset" % lo
                continue
            S = Poly.sym(cand[0])
            end = _ipoly(ast.Name(id=cand[0], ctx=ast.Load()), dict(env))
            if hi != S + L:
                verdict, why = False, "the slice is [%r, %r): its length is not the object's own variable length len(%s.to_var())" % (lo, hi, lv)
            elif end != S + L:
                verdict, why = False, "after the step the offset is %r; it must advance by the object's own variable length (%r)" % (end, S + L)
            else:
                verdict = True
        except ValueError as ex:
            verdict, why = None, str(ex)
    if verdict is None:
        rep.undecided("I4", sq, "slicing loop", why)
    else:
        rep.check(verdict, "I4", sq, "slicing loop", "iterates _all_qoperations() with cumulative slices of len(to_var())", why, node=sq.node)


def _freeze_expr(e, env):
    """e with the names bound so far replaced by their (already frozen) expressions"""
    from ..symsum import subst
    return subst(e, env)


def _check_prefix_sums(ctx, rep):
    """offset loops: `for i in range(k): acc += size(i)` / `for i, _ in enumerate(items): size = f(i); ...; acc += size`"""
    c = ctx.ix.cls(OBJ + "qoperations.SetQOperations")
    for m in c.methods.values():
        for lp in [n for n in own_nodes(m.node) if isinstance(n, ast.For)]:
            lvars = {x.id for x in ast.walk(lp.target) if isinstance(x, ast.Name) and not x.id.startswith("_")}
            accs = [s for s in lp.body if isinstance(s, ast.AugAssign) and isinstance(s.op, ast.Add) and isinstance(s.target, ast.Name)]
            if not accs or not lvars:
                continue
            body_defs = {unparse(s.targets[0]): s.value for s in lp.body if isinstance(s, ast.Assign) and isinstance(s.targets[0], ast.Name)}
            for a in accs:
                e = a.value
                if isinstance(e, ast.Name) and e.id in body_defs:
                    e = body_defs[e.id]
                calls = [x for x in ast.walk(e) if isinstance(x, ast.Call)]
                if not calls:
                    continue
                used = {x.id for x in ast.walk(e) if isinstance(x, ast.Name)}
                con = "%s: %s" % (m.name, unparse(a))
                if used & lvars:
                    rep.holds("I4b", m, con, "summand is the size of the item the loop variable points at", node=a)
                else:
                    rep.violation("I4b", m, con, "the summand %s does not depend on the loop variable %s: the offset becomes (count) x (one size) "
                                                 "instead of the sum of the preceding sizes, which differs as soon as items of one kind have "
                                                 "different variable counts" % (unparse(e), sorted(lvars)), node=a)


# ------------------------------------------------------------------------------ I5
def _store_consts(f: Func, var: str):
    """subscript stores `var[i] = c` / `var[i][j] = c` in f: list of (index text, value node, stmt)."""
    out = []
    for n in own_nodes(f.node):
        if isinstance(n, ast.Assign) and len(n.targets) == 1 and isinstance(n.targets[0], ast.Subscript):
            t = n.targets[0]
            idx = []
            while isinstance(t, ast.Subscript):
                idx.insert(0, unparse(t.slice))
                t = t.value
            if isinstance(t, ast.Name) and t.id == var:
                out.append((tuple(idx), n.value, n))
    return out


def scaled_e0_vectors(f: Func):
    """Vectors of the form c * e0 built in f (or its nested functions), whatever the spelling:
         np.hstack([np.array([C]), np.zeros(N - 1)])                 -> (node, C expr, N-1 expr, 'tail')
         v = np.zeros(N); v[0] = C   (single constant store)          -> (node, C expr, N expr, 'full')
    Returns [(node, scalar expr, length expr, kind, func)]."""
    out = []
    for ff in [f] + list(f.nested.values()):
        for n in own_nodes(ff.node):
            if isinstance(n, ast.Call) and (dotted(n.func) or "").endswith("hstack") and n.args and isinstance(n.args[0], (ast.List, ast.Tuple)) \
                    and len(n.args[0].elts) == 2:
                head, tail = n.args[0].elts
                if isinstance(tail, ast.Call) and (dotted(tail.func) or "").endswith("zeros") and tail.args:
                    e = head
                    while isinstance(e, ast.Call) and (dotted(e.func) or "").split(".")[-1] in ("array", "asarray") and e.args:
                        e = e.args[0]
                    if isinstance(e, (ast.List, ast.Tuple)) and len(e.elts) == 1:
                        e = e.elts[0]
                    out.append((n, e, tail.args[0], "tail", ff))
            if isinstance(n, ast.Assign) and len(n.targets) == 1 and isinstance(n.targets[0], ast.Name) and isinstance(n.value, ast.Call) \
                    and (dotted(n.value.func) or "").endswith("zeros") and n.value.args:
                nm = n.targets[0].id
                st = _store_consts(ff, nm)
                others = [x for x in own_nodes(ff.node) if isinstance(x, ast.AugAssign) and unparse(x.target).startswith(nm)]
                if len(st) == 1 and st[0][0] == ("0",) and not others:
                    ln = n.value.args[0]
                    if isinstance(ln, ast.Tuple) and len(ln.elts) == 1:
                        ln = ln.elts[0]
                    out.append((n, st[0][1], ln, "full", ff))
    return out


def _check_constants(ctx, rep):
    ix = ctx.ix
    inv_sqrt_d = Poly.sym("d") ** Fraction(-1, 2)
    sqrt_d = Poly.sym("d") ** Fraction(1, 2)

    def expect_scalar(f, node, e, want, what):
        try:
            got = _size_poly(e, f)
        except Undecided as ex:
            rep.undecided("I5", f, node, str(ex))
            return
        if got == want:
            rep.holds("I5", f, node, "%s = %r" % (what, got), node=node)
        else:
            rep.violation("I5", f, node, "%s is %r, the parametrisation implies %r" % (what, got, want), node=node)

    # ---- state: five sites, coefficient 0 := d^-1/2
    f = ix.func(OBJ + "state.convert_var_to_vec")
    ins = [n for n in own_nodes(f.node) if isinstance(n, ast.Call) and (dotted(n.func) or "").endswith("insert")]
    if len(ins) == 1 and len(ins[0].args) >= 3:
        pos, val = ins[0].args[1], ins[0].args[2]
        if not is_num(pos, 0):
            rep.violation("I5", f, ins[0], "implied coefficient inserted at position %s; convert_vec_to_var removes position 0" % unparse(pos), node=ins[0])
        else:
            expect_scalar(f, ins[0], val, inv_sqrt_d, "implied first coefficient")
    else:
        rep.undecided("I5", f, "np.insert", "expected one np.insert(var, 0, c)")
    f = ix.func(OBJ + "state.convert_vec_to_var")
    dels = [n for n in own_nodes(f.node) if isinstance(n, ast.Call) and (dotted(n.func) or "").endswith("delete")]
    if len(dels) == 1 and len(dels[0].args) >= 2:
        rep.check(is_num(dels[0].args[1], 0) and len(dels[0].args) == 2 and not dels[0].keywords, "I5", f, dels[0],
                  "removes coefficient 0 (the one convert_var_to_vec re-inserts)",
                  "removes position %s; convert_var_to_vec re-inserts at 0" % unparse(dels[0].args[1]), node=dels[0])
    else:
        rep.undecided("I5", f, "np.delete", "expected one np.delete(vec, 0)")
    for qn, var in ((OBJ + "state.State._generate_origin_obj", "new_vec"), (OBJ + "state.State.calc_proj_eq_constraint", "vec"),
                    (OBJ + "state.State.calc_proj_eq_constraint_with_var", "new_var")):
        f = ix.func(qn)
        st = _store_consts(f, var)
        if not st:
            # whatever the working copy is called: the subscript stores into locals of this function
            locs = {n.targets[0].id for n in own_nodes(f.node) if isinstance(n, ast.Assign) and len(n.targets) == 1 and isinstance(n.targets[0], ast.Name)}
            st = [x for v_ in sorted(locs) for x in _store_consts(f, v_)]
        if len(st) != 1:
            rep.undecided("I5", f, "store", "expected one constant store into %s, found %d" % (var, len(st)))
            continue
        idx, val, node = st[0]
        if idx != ("0",):
            rep.violation("I5", f, node, "constant written at index %s; the constrained coefficient is index 0" % (idx,), node=node)
        else:
            expect_scalar(f, node, val, inv_sqrt_d, "coefficient 0")

    # ---- povm: total = sqrt(d) e0 ; per-element sqrt(d)/m e0
    def hstack_head(f):
        out = []
        for n in own_nodes(f.node):
            if isinstance(n, ast.Call) and (dotted(n.func) or "").endswith("hstack") and n.args and isinstance(n.args[0], (ast.List, ast.Tuple)) \
                    and len(n.args[0].elts) == 2:
                head, tail = n.args[0].elts
                if isinstance(tail, ast.Call) and (dotted(tail.func) or "").endswith("zeros"):
                    out.append((n, head, tail))
        return out

    def head_scalar(head):
        e = head
        while isinstance(e, ast.Call) and (dotted(e.func) or "").split(".")[-1] in ("array", "asarray") and e.args:
            e = e.args[0]
        if isinstance(e, (ast.List, ast.Tuple)) and len(e.elts) == 1:
            e = e.elts[0]
        return e

    for qn, want, what in ((OBJ + "povm.convert_var_to_vecs", sqrt_d, "sum of POVM elements (coefficient 0)"),
                           (OBJ + "povm.Povm._generate_origin_obj", sqrt_d * (Poly.sym("m") ** -1), "origin element coefficient 0"),
                           (OBJ + "povm.Povm.calc_proj_eq_constraint", sqrt_d * (Poly.sym("m") ** -1), "per-element shift"),
                           (OBJ + "povm.Povm.calc_proj_eq_constraint_with_var", sqrt_d * (Poly.sym("m") ** -1), "per-element shift")):
        f = ix.func(qn)
        hs = [v for v in scaled_e0_vectors(f) if not (v[3] == "full" and is_num(v[1], 1))]
        if len(hs) != 1:
            rep.undecided("I5", f, "c e0", "expected one vector c*e0 (hstack([c, zeros(d^2-1)]) or zeros(d^2) with entry 0 set), found %d" % len(hs))
            continue
        node, scalar, length, kind, ff = hs[0]
        try:
            tl = _size_poly(length, ff)
            want_len = D2 - 1 if kind == "tail" else D2
            if tl != want_len:
                rep.violation("I5", f, node, "the vector has %r entries after / including coefficient 0, expected %r (constant must sit at coefficient 0 "
                                             "of a d^2 vector)" % (tl, want_len), node=node)
                continue
        except Undecided as ex:
            rep.undecided("I5", f, node, str(ex))
            continue
        expect_scalar(ff, node, scalar, want, what)
    f = ix.func(OBJ + "povm.convert_vecs_to_var")
    dl = [n for n in own_nodes(f.node) if isinstance(n, ast.Delete)]
    if len(dl) == 1 and len(dl[0].targets) == 1 and isinstance(dl[0].targets[0], ast.Subscript):
        rep.check(is_num(dl[0].targets[0].slice, -1), "I5", f, dl[0], "drops the last element (the one convert_var_to_vecs re-derives)",
                  "drops element %s; convert_var_to_vecs re-derives the last one" % unparse(dl[0].targets[0].slice), node=dl[0])
    else:
        rep.undecided("I5", f, "del", "expected `del var[-1]`")
    f = ix.func(OBJ + "povm.convert_var_to_vecs")
    apps = [n for n in own_nodes(f.node) if isinstance(n, ast.Call) and (dotted(n.func) or "").endswith("append")
            and (dotted(n.func) or "").startswith(("np.", "numpy."))]
    if len(apps) == 1 and len(apps[0].args) == 2:
        e = inline(f, apps[0].args[1])
        ok = isinstance(e, ast.BinOp) and isinstance(e.op, ast.Sub) and "sum" in unparse(e.right) and "axis=0" in unparse(e.right)
        rep.check(ok, "I5", f, apps[0], "implied last element = total - sum of the others, appended last",
                  "implied element is %s, expected total - pre_vecs.sum(axis=0)" % unparse(e), node=apps[0])
    else:
        rep.undecided("I5", f, "np.append", "expected one np.append(pre_vecs, last_vec)")

    # ---- gate: row 0 := e0
    f = ix.func(OBJ + "gate.convert_var_to_hs")
    ins = [n for n in own_nodes(f.node) if isinstance(n, ast.Call) and (dotted(n.func) or "").endswith("insert")]
    if len(ins) == 1 and len(ins[0].args) >= 3:
        pos, val = inline(f, ins[0].args[1]), inline(f, ins[0].args[2])
        ax = kwarg(ins[0], "axis")
        is_e0 = isinstance(val, ast.Call) and (dotted(val.func) or "").endswith("eye") and len(val.args) == 2 and is_num(val.args[0], 1)
        if not (is_num(pos, 0) and ax is not None and is_num(ax, 0)):
            rep.violation("I5", f, ins[0], "implied row inserted at position %s axis %s; convert_hs_to_var removes row 0" % (
                unparse(pos), unparse(ax) if ax is not None else None), node=ins[0])
        elif not is_e0:
            rep.violation("I5", f, ins[0], "implied row is %s; trace preservation implies e0 = np.eye(1, d^2)" % unparse(val), node=ins[0])
        else:
            try:
                w = _size_poly(val.args[1], f)
                rep.check(w == D2, "I5", f, ins[0], "row 0 := e0 of length d^2", "e0 has length %r" % w, node=ins[0])
            except Undecided as ex:
                rep.undecided("I5", f, ins[0], str(ex))
    else:
        rep.undecided("I5", f, "np.insert", "expected one np.insert(reshaped, 0, e0, axis=0)")
    f = ix.func(OBJ + "gate.convert_hs_to_var")
    dels = [n for n in own_nodes(f.node) if isinstance(n, ast.Call) and (dotted(n.func) or "").endswith("delete")]
    if len(dels) == 1:
        ax = kwarg(dels[0], "axis") or (dels[0].args[2] if len(dels[0].args) > 2 else None)
        rep.check(len(dels[0].args) >= 2 and is_num(dels[0].args[1], 0) and ax is not None and is_num(ax, 0), "I5", f, dels[0],
                  "removes row 0 (the one convert_var_to_hs re-inserts)", "removes %s along axis %s; convert_var_to_hs re-inserts row 0"
                  % (unparse(dels[0].args[1]) if len(dels[0].args) > 1 else "?", unparse(ax) if ax is not None else None), node=dels[0])
    else:
        rep.undecided("I5", f, "np.delete", "expected one np.delete(hs, 0, axis=0)")
    for qn, var in ((OBJ + "gate.Gate._generate_origin_obj", "new_hs"),):
        f = ix.func(qn)
        st = _store_consts(f, var)
        ok = len(st) == 1 and st[0][0] == ("0", "0") and is_num(st[0][1], 1)
        rep.check(ok, "I5", f, st[0][2] if st else "store", "origin gate: entry (0,0) := 1, rest zero",
                  "origin gate must be zeros with entry (0,0) = 1; found %s" % [(i, unparse(v)) for i, v, _ in st], node=st[0][2] if st else f.node)
    for qn, var, idxs in ((OBJ + "gate.Gate.calc_proj_eq_constraint", "hs", {("0", "0"): 1, ("0", "1:"): 0}),
                          (OBJ + "gate.Gate.calc_proj_eq_constraint_with_var", "new_var", {("0",): 1, ("1:c_sys.dim ** 2",): 0})):
        f = ix.func(qn)
        st = _store_consts(f, var)
        named = bool(st)
        if not st:
            # whatever the working copy is called: the one local of this function that receives constant subscript stores
            locs = {n.targets[0].id for n in own_nodes(f.node) if isinstance(n, ast.Assign) and len(n.targets) == 1 and isinstance(n.targets[0], ast.Name)}
            cands = [(v_, _store_consts(f, v_)) for v_ in sorted(locs)]
            cands = [(v_, s_) for v_, s_ in cands if s_]
            if len(cands) == 1:
                st = cands[0][1]
        # slice bounds held in a local (num = c_sys.dim ** 2; x[1:num]) are written out
        sd_ = single_defs(f)
        st2 = []
        for i_, v_, n_ in st:
            t_ = n_.targets[0]
            idx_ = []
            while isinstance(t_, ast.Subscript):
                idx_.insert(0, unparse(inline(f, t_.slice, depth=3, defs=sd_)) if any(isinstance(x_, ast.Name) and x_.id in sd_ for x_ in ast.walk(t_.slice)) else unparse(t_.slice))
                t_ = t_.value
            st2.append((tuple(idx_), v_, n_))
        st = st2
        got = {i: const(v) for i, v, _ in st}
        want = dict(idxs)
        # accept `1:dim ** 2` spellings
        norm = {}
        for i, v in got.items():
            i2 = tuple(x.replace("self.dim", "c_sys.dim").replace("self.composite_system.dim", "c_sys.dim") for x in i)
            norm[i2] = v
        if norm != want and not named:
            # no store into the working copy the rule knows by name, and the stores found elsewhere are not of the expected form
            # (e.g. they go through a view of row 0): not read, so nothing is claimed
            rep.undecided("I5", f, "row-0 stores", "no constant stores into `%s` found (stores seen: %s)" % (var, got))
        else:
            rep.check(norm == want, "I5", f, "row-0 stores", "row 0 := e0 (entry 0 := 1, entries 1.. := 0)",
                      "row 0 must become e0; stores found: %s" % got, node=f.node)
    f = ix.func(OBJ + "gate.Gate.convert_var_to_stacked_vector")
    ins = [n for n in own_nodes(f.node) if isinstance(n, ast.Call) and (dotted(n.func) or "").endswith("insert")]
    # the inserted vector by role: the third argument of the one np.insert, whatever it is called
    head_name = ins[0].args[2].id if len(ins) == 1 and len(ins[0].args) >= 3 and isinstance(ins[0].args[2], ast.Name) else "head"
    st = _store_consts(f, head_name)
    ok = len(st) == 1 and st[0][0] == ("0",) and is_num(st[0][1], 1) and len(ins) == 1 and len(ins[0].args) >= 3 and is_num(ins[0].args[1], 0) \
        and unparse(ins[0].args[2]) == head_name
    rep.check(ok, "I5", f, ins[0] if ins else "insert", "e0 of length d^2 inserted in front", "stacked vector must get e0 in front", node=f.node)

    # ---- mprocess: implied first row of last block = e0 - sum, inserted at hs_size*(m-1)
    for qn in (OBJ + "mprocess.convert_var_to_hss", OBJ + "mprocess.MProcess.convert_var_to_stacked_vector"):
        f = ix.func(qn)
        ins = [n for n in own_nodes(f.node) if isinstance(n, ast.Call) and (dotted(n.func) or "").endswith("insert")]
        if len(ins) != 1 or len(ins[0].args) < 3:
            rep.undecided("I5", f, "np.insert", "expected one np.insert(vector, position, implied row)")
            continue
        node = ins[0]
        try:
            defs = single_defs(f)
            pos = _size_poly(node.args[1], f, {k: v for k, v in defs.items() if k != "num_outcomes"})
        except Undecided as ex:
            rep.undecided("I5", f, node, str(ex))
            continue
        want_pos = (Poly.sym("d") ** 4) * (Poly.sym("m") - 1)
        val = inline(f, node.args[2])
        # e0 - S: e0 is a zeros vector with the single store [0] = 1, S is the accumulator of the loop (whatever they are called)
        e0_name = unparse(val.left) if isinstance(val, ast.BinOp) and isinstance(val.op, ast.Sub) and isinstance(val.left, ast.Name) else "one"
        acc_name = unparse(val.right) if isinstance(val, ast.BinOp) and isinstance(val.op, ast.Sub) and isinstance(val.right, ast.Name) else None
        one = _store_consts(f, e0_name)
        e0_ok = len(one) == 1 and one[0][0] == ("0",) and is_num(one[0][1], 1)
        form_ok = acc_name is not None and any(isinstance(x, ast.AugAssign) and unparse(x.target) == acc_name for x in own_nodes(f.node))
        if pos != want_pos:
            rep.violation("I5", f, node, "implied row inserted at %r; the removed block starts at %r" % (pos, want_pos), node=node)
        elif not (e0_ok and form_ok):
            rep.violation("I5", f, node, "implied row must be e0 - (sum of the other first rows); found %s with e0 stores %s"
                          % (unparse(val), [(i, unparse(v)) for i, v, _ in one]), node=node)
        else:
            # the accumulated slices are the first rows of blocks 0..m-2
            loops = [n for n in own_nodes(f.node) if isinstance(n, ast.For)]
            ok = False
            for lp in loops:
                for s in lp.body:
                    if isinstance(s, ast.AugAssign) and isinstance(s.op, ast.Add) and unparse(s.target) == acc_name \
                            and isinstance(s.value, ast.Subscript) and isinstance(s.value.slice, ast.Slice):
                        lo, hi = s.value.slice.lower, s.value.slice.upper
                        lv = lp.target.id if isinstance(lp.target, ast.Name) else None
                        try:
                            dd = {k: v for k, v in defs.items()}
                            plo = _size_poly_with(lo, f, dd, lv)
                            phi = _size_poly_with(hi, f, dd, lv)
                            ok = (plo == (Poly.sym("d") ** 4) * Poly.sym("@i")) and (phi - plo == D2) \
                                and unparse(lp.iter).replace(" ", "") == "range(num_outcomes-1)"
                        except Undecided:
                            ok = False
            rep.check(ok, "I5", f, node, "e0 - sum_{x<m-1} row0(block x), inserted at d^4 (m-1)",
                      "the summed slices are not the first rows (d^4*x .. d^4*x + d^2) of blocks 0..m-2", node=node)
    # removal side: the row taken out is the one the insertion side re-creates
    f = ix.func(OBJ + "mprocess.convert_hss_to_var")
    dels = [n for n in own_nodes(f.node) if isinstance(n, ast.Call) and (dotted(n.func) or "").endswith("delete")]
    if len(dels) == 1:
        dl = dels[0]
        ax = kwarg(dl, "axis") or (dl.args[2] if len(dl.args) > 2 else None)
        guard = None
        loop = None
        from ..index import parents
        for p_ in parents(dl):
            if isinstance(p_, ast.If) and guard is None and any(dl is x for b in p_.body for x in ast.walk(b)):
                guard = unparse(p_.test).replace(" ", "")
            if isinstance(p_, ast.IfExp) and guard is None and any(dl is x for x in ast.walk(p_.body)):
                guard = unparse(p_.test).replace(" ", "")
            if isinstance(p_, ast.For):
                loop = p_
                break
            if isinstance(p_, (ast.ListComp, ast.GeneratorExp)) and len(p_.generators) == 1 and not p_.generators[0].ifs:
                loop = p_.generators[0]
                break
        lv = None
        if loop is not None and isinstance(loop.iter, ast.Call) and dotted(loop.iter.func) == "enumerate" and isinstance(loop.target, ast.Tuple) \
                and unparse(loop.iter.args[0]) == "hss":
            lv = (loop.target.elts[0].id, loop.target.elts[1].id)
        row0 = len(dl.args) >= 2 and is_num(dl.args[1], 0) and ax is not None and is_num(ax, 0)
        if lv is None:
            rep.undecided("I5", f, dl, "np.delete is not inside `for index, hs in enumerate(hss)`")
        else:
            last = guard in ("%s==len(hss)-1" % lv[0], "len(hss)-1==%s" % lv[0])
            rep.check(row0 and last and unparse(dl.args[0]) == lv[1], "I5", f, dl, "removes row 0 of the last block (the row convert_var_to_hss re-creates)",
                      "removes `%s` under guard `%s`; convert_var_to_hss re-creates row 0 of the LAST block" % (unparse(dl), guard), node=dl)
    else:
        rep.undecided("I5", f, "np.delete", "expected one np.delete(hs, 0, axis=0)")
    # Gate: the entries taken out of the stacked vector are exactly the implied first row (d^2 entries from the front)
    fg = ix.funcs.get(OBJ + "gate.Gate.convert_stacked_vector_to_var")
    if fg is not None:
        gdels = [n for n in own_nodes(fg.node) if isinstance(n, ast.Call) and (dotted(n.func) or "").endswith("delete") and len(n.args) == 2]
        if len(gdels) == 1:
            a1 = inline(fg, gdels[0].args[1])
            gsl = None
            if isinstance(a1, ast.Subscript) and unparse(a1.value) == "np.s_" and isinstance(a1.slice, ast.Slice):
                gsl = a1.slice
            elif isinstance(a1, ast.Call) and dotted(a1.func) == "slice" and len(a1.args) in (1, 2):
                gsl = ast.Slice(lower=a1.args[0] if len(a1.args) == 2 else None, upper=a1.args[-1], step=None)
            if gsl is not None and gsl.upper is not None:
                try:
                    lo = _size_poly(gsl.lower, fg) if gsl.lower is not None else Poly.const(0)
                    hi = _size_poly(gsl.upper, fg)
                    rep.check(lo == Poly.const(0) and hi == D2, "I5", fg, gdels[0], "removes entries 0 .. d^2 (the implied first row e0)",
                              "removes entries %r .. %r; the implied first row of a gate occupies 0 .. d^2 (for d = 2 both agree, for a qutrit or two "
                              "qubits the variable vector has the wrong length)" % (lo, hi), node=gdels[0])
                except Undecided as ex:
                    rep.undecided("I5", fg, gdels[0], str(ex))
            else:
                rep.undecided("I5", fg, gdels[0], "removed entries are not given as a slice")
        else:
            rep.undecided("I5", fg, "np.delete", "expected one np.delete(stacked_vector, <slice>)")
    f = ix.func(OBJ + "mprocess.MProcess.convert_stacked_vector_to_var")
    dels = [n for n in own_nodes(f.node) if isinstance(n, ast.Call) and (dotted(n.func) or "").endswith("delete")]
    sl = None
    if len(dels) == 1 and len(dels[0].args) == 2:
        a1 = inline(f, dels[0].args[1], defs={k: v for k, v in single_defs(f).items() if k != "num_outcomes"})
        if isinstance(a1, ast.Subscript) and unparse(a1.value) == "np.s_" and isinstance(a1.slice, ast.Slice):
            sl = a1.slice
        elif isinstance(a1, ast.Call) and dotted(a1.func) == "slice" and len(a1.args) == 2:
            sl = ast.Slice(lower=a1.args[0], upper=a1.args[1], step=None)
    if sl is not None:
        try:
            defs = {k: v for k, v in single_defs(f).items() if k != "num_outcomes"}
            lo, hi = _size_poly(sl.lower, f, defs), _size_poly(sl.upper, f, defs)
            # here num_outcomes = len // hs_size = m (the stacked vector is complete)
            want = (Poly.sym("d") ** 4) * (Poly.sym("m") - 1)
            rep.check(lo == want and hi - lo == D2, "I5", f, dels[0], "removes entries d^4 (m-1) .. + d^2 (row 0 of the last block)",
                      "removes entries %r .. %r; the implied row occupies %r .. + d^2" % (lo, hi, want), node=dels[0])
        except Undecided as ex:
            rep.undecided("I5", f, dels[0], str(ex))
    else:
        rep.undecided("I5", f, "np.delete", "expected one np.delete(stacked_vector, np.s_[lo:hi])")
    f = ix.func(OBJ + "mprocess.MProcess._generate_origin_obj")
    st = _store_consts(f, "hs")
    if len(st) == 1 and st[0][0] == ("0", "0"):
        expect_scalar(f, st[0][2], st[0][1], Poly.sym("m") ** -1, "origin entry (0,0) of every block")
    else:
        rep.undecided("I5", f, "store", "expected one store hs[0][0] = 1/m")


def _size_poly_with(e, f, defs, loopvar):
    if loopvar:
        class R(ast.NodeTransformer):
            def visit_Name(self, n):
                return n
        # replace the loop variable by the symbol @i
        txt = e
    p = _size_poly_loop(e, f, defs, loopvar)
    return p


def _size_poly_loop(e, f, defs, loopvar):
    if isinstance(e, ast.Name) and e.id == loopvar:
        return Poly.sym("@i")
    if isinstance(e, ast.Name) and defs and e.id in defs and any(isinstance(x, ast.Name) and (x.id == loopvar or x.id in defs) for x in ast.walk(defs[e.id])):
        return _size_poly_loop(defs[e.id], f, {k: v for k, v in defs.items() if k != e.id}, loopvar)
    if isinstance(e, ast.BinOp):
        l, r = _size_poly_loop(e.left, f, defs, loopvar), _size_poly_loop(e.right, f, defs, loopvar)
        if isinstance(e.op, ast.Add):
            return l + r
        if isinstance(e.op, ast.Sub):
            return l - r
        if isinstance(e.op, ast.Mult):
            return l * r
        if isinstance(e.op, ast.Pow):
            return l ** r
    return _size_poly(e, f, defs)


# ------------------------------------------------------------------------------ I8
def _check_cross_wiring(ctx, rep):
    """conversions between variables and objects hand every option to the like-named slot"""
    from ..slots import cross_wired_keywords
    n = 0
    for f in ctx.ix.funcs.values():
        if not f.module.name.startswith(("quara.objects", "quara.protocol.qtomography")):
            continue
        kws = [c for c in own_nodes(f.node) if isinstance(c, ast.Call) and any(k.arg and isinstance(k.value, ast.Name) and k.arg == k.value.id
                                                                              and k.arg in {p.arg for p in f.all_params} for k in c.keywords)]
        bad = list(cross_wired_keywords(ctx, f))
        for call, k, v, tq in bad:
            rep.violation("I8", f, "%s: %s=%s" % (f.name, k, v), "the caller's option `%s` is handed to the slot `%s` of %s, which has a slot `%s` of its own: "
                          "the re-created object is built under a different option than the one the variables were read with"
                          % (v, k, tq.split("quara.")[-1], v), node=call)
        if kws and not bad:
            n += 1
            rep.holds("I8", f, "%s: options forwarded by name" % f.name, "%d call(s) pass the function's own options to like-named slots" % len(kws),
                      node=kws[0], nontrivial=False)
    if n == 0:
        rep.undecided("I8", "quara.objects", "option forwarding", "no call forwarding a parameter under its own name found")


# ------------------------------------------------------------------------------ I7
def _check_recreation(ctx, rep, base: Class):
    ix = ctx.ix
    for kind, cq in CLASSES.items():
        c = ix.cls(cq)
        for mname in ("generate_from_var", "copy"):
            m = c.lookup(mname)
            if m is None:
                rep.undecided("I7", cq, mname, "method missing")
                continue
            sites_c = class_call_sites(ctx, m)
            sites_f = factory_call_sites(ctx, m, "_generate_from_var_func")
            direct = [n for n in own_nodes(m.node) if isinstance(n, ast.Call) and ctx.ix.resolve_expr(m.module, n.func, m) is c]
            value_params = {"state": ("vec", "var"), "povm": ("vecs", "var"), "gate": ("hs", "var"), "mprocess": ("hss", "var")}[kind]
            jobs = []
            for call in sites_c + direct:
                jobs.append((call, c.lookup("__init__"), True))
            for call in sites_f:
                t = hook_target(ctx, c, "_generate_from_var_func")
                if t is not None:
                    jobs.append((call, t, False))
            if not jobs:
                rep.undecided("I7", m, "%s.%s" % (c.name, mname), "no re-creating call found")
                continue
            for call, target, bound in jobs:
                for p, ok, why in check_field_completeness(ctx, m, c, call, target, bound, value_params=value_params + ("c_sys",)):
                    con = "%s.%s carries %s" % (c.name, mname, p)
                    if ok:
                        rep.holds("I7", m, con, why, node=call)
                    elif ok is None:
                        rep.undecided("I7", m, con, why)
                    else:
                        rep.violation("I7", m, con, "field '%s' of the re-created %s is reset: %s" % (p, c.name, why), node=call)
