"""C01 - physicality verdicts: tolerance flow, wiring, reference constants, constructor guard."""
from __future__ import annotations

import ast

from ..astutil import arg, body_wo_doc, const, inline, is_num, kwarg, returns, unparse, NOCONST, single_defs
from ..attrs import attr_read_cone, must_attrs_at
from ..cfg import CFG
from ..index import AnalysisError, Class, Func, dotted, own_nodes, parents
from ..resolve import Unresolved, bind_call
from ..tolflow import TolFlow

OBJ = "quara.objects."
ENTRIES = [
    # (qualname, tolerance parameter)
    (OBJ + "state.State.is_trace_one", "atol"),
    (OBJ + "state.State.is_positive_semidefinite", "atol"),
    (OBJ + "state.State.is_hermitian", "atol"),
    (OBJ + "state.State.is_eq_constraint_satisfied", "atol"),
    (OBJ + "state.State.is_ineq_constraint_satisfied", "atol"),
    (OBJ + "povm.Povm.is_identity_sum", "atol"),
    (OBJ + "povm.Povm.is_positive_semidefinite", "atol"),
    (OBJ + "povm.Povm.is_eq_constraint_satisfied", "atol"),
    (OBJ + "povm.Povm.is_ineq_constraint_satisfied", "atol"),
    (OBJ + "gate.is_tp", "atol"),
    (OBJ + "gate.is_cp", "atol"),
    (OBJ + "gate.is_hp", "atol"),
    (OBJ + "gate.Gate.is_tp", "atol"),
    (OBJ + "gate.Gate.is_cp", "atol"),
    (OBJ + "gate.Gate.is_eq_constraint_satisfied", "atol"),
    (OBJ + "gate.Gate.is_ineq_constraint_satisfied", "atol"),
    (OBJ + "mprocess.MProcess.is_sum_tp", "atol"),
    (OBJ + "mprocess.MProcess.is_cp", "atol"),
    (OBJ + "mprocess.MProcess.is_eq_constraint_satisfied", "atol"),
    (OBJ + "mprocess.MProcess.is_ineq_constraint_satisfied", "atol"),
    ("quara.utils.matrix_util.is_hermitian", "atol"),
    ("quara.utils.matrix_util.is_positive_semidefinite", "atol"),
    ("quara.utils.matrix_util.is_tp", "atol"),
]

# subclass -> (equality test, inequality test) the sub-verdicts must forward to
WIRING = {
    OBJ + "state.State": ("is_trace_one", "is_positive_semidefinite"),
    OBJ + "povm.Povm": ("is_identity_sum", "is_positive_semidefinite"),
    OBJ + "gate.Gate": ("is_tp", "is_cp"),
    OBJ + "mprocess.MProcess": ("is_sum_tp", "is_cp"),
}


def run(ctx, rep):
    ix, res = ctx.ix, ctx.res
    rep.rule("T1", "every closeness comparison reached from a verdict takes its atol from the verdict's tolerance "
                   "parameter (or the global setting when None) and has effective rtol 0 (zero reference exempt)", floor=9)
    rep.rule("T2", "the tolerance is only forwarded, defaulted or handed to atol= of a closeness predicate "
                   "(monotone uses); never re-bound, scaled or compared directly", floor=len(ENTRIES))
    rep.rule("T3", "is_physical = eq(atol_eq) and ineq(atol_ineq); each subclass sub-verdict forwards its atol to the "
                   "designated test", floor=9)
    rep.rule("T3'", "reference constants: trace vs literal 1; POVM sum vs identity(dim); gate first row vs e0; "
                    "PSD = hermitian and all(eigenvalues not within atol of 0 >= 0)", floor=4)
    rep.rule("T4", "every normal exit of the four constructors passes `if is_physicality_required and not "
                   "is_physical(): raise` after every field the verdict reads is assigned", floor=4)
    rep.rule("T5", "zero/origin objects are built with is_physicality_required=False from _generate_zero_obj / "
                   "_generate_origin_obj; zero values are np.zeros storage", floor=8)

    rep.rule("T6", "origin objects are physical by construction: state d^-1/2 e0; POVM elements d^1/2/m e0; gate e0 e0^T; "
                   "measurement process blocks (1/m) e0 e0^T with m the number of outcomes (constants of C03 I5 at the origin builders)",
             floor=4)
    from ..report import Relay
    from . import c03
    c03._check_constants(ctx, Relay(rep, {"I5": "T6"}, keep=lambda f, con: "._generate_origin_obj" in (getattr(f, "qualname", None) or str(f))))

    # ------------------------------------------------------------------ T1 / T2
    n_sites = 0
    for qn, p in ENTRIES:
        f = ix.func(qn)
        if p not in [a.arg for a in f.all_params]:
            raise AnalysisError("verdict %s has no tolerance parameter '%s'" % (qn, p))
        tf = TolFlow(res)
        tf.analyse(f, {p})
        rep.stats.setdefault("cone_functions", 0)
        rep.stats["cone_functions"] = max(rep.stats["cone_functions"], len(tf.funcs_seen))
        for s in tf.sites:
            n_sites += 1
            con = s.call
            if not s.atol_tainted:
                if s.atol_expr is None:
                    why = "no atol given (default %r) - the caller's tolerance is not the slack here" % (s.atol_literal,)
                else:
                    why = "atol=%s does not derive from the verdict's tolerance parameter" % unparse(s.atol_expr)
                rep.violation("T1", s.func, con, why, node=con, chain=s.chain)
            elif not s.rtol_ok:
                rt = ("default rtol=%g" % s.rtol_default) if s.rtol_expr is None else "rtol=%s" % unparse(s.rtol_expr)
                rep.violation("T1", s.func, con, "%s adds relative slack |b|*rtol to the absolute tolerance (reference %s is not zero)"
                              % (rt, unparse(s.b) if s.b is not None else "?"), node=con, chain=s.chain)
            else:
                rep.holds("T1", s.func, con, "atol <- %s, rtol %s" % (
                    unparse(s.atol_expr), "0" if s.rtol_zero else "default but reference is zero"), node=con, chain=s.chain)
        if tf.uses:
            for u in tf.uses:
                rep.violation("T2", u.func, u.node, u.what, node=u.node, chain=u.chain)
        else:
            rep.holds("T2", f, "tolerance uses in cone of %s" % f.name,
                      "%d function(s), %d comparison(s): forwarded/defaulted only" % (len(tf.funcs_seen), len(tf.sites)))
        if not tf.sites:
            rep.undecided("T1", f, "cone of %s" % f.name, "no closeness comparison reached from this verdict")
    rep.stats["closeness_sites_visited"] = n_sites

    # ---------------------------------------------------------------------- T3
    qop = ix.cls(OBJ + "qoperation.QOperation")
    isph = qop.methods.get("is_physical")
    if isph is None:
        raise AnalysisError("QOperation.is_physical not found")
    _check_is_physical(ctx, rep, isph)
    for cq, (eqt, ineqt) in WIRING.items():
        c = ix.cls(cq)
        for meth, tgt in (("is_eq_constraint_satisfied", eqt), ("is_ineq_constraint_satisfied", ineqt)):
            m = c.methods.get(meth)
            if m is None:
                rep.violation("T3", cq + "." + meth, "method missing", "%s does not define %s" % (c.name, meth))
                continue
            _check_forward(ctx, rep, c, m, tgt)

    # --------------------------------------------------------------------- T3'
    _check_trace_one(ctx, rep)
    _check_identity_sum(ctx, rep)
    _check_povm_psd_all(ctx, rep)
    _check_gate_tp_row(ctx, rep)
    _check_gate_tp_generic(ctx, rep)
    _check_psd(ctx, rep)

    # ---------------------------------------------------------------------- T4
    for cq in WIRING:
        _check_ctor_guard(ctx, rep, ix.cls(cq))

    # ---------------------------------------------------------------------- T5
    _check_zero_origin(ctx, rep)


# ------------------------------------------------------------------------------ T3
def _check_is_physical(ctx, rep, f: Func):
    rets = returns(f)
    if len(rets) != 1:
        rep.undecided("T3", f, "return", "expected a single return")
        return
    e = inline(f, rets[0].value)
    ok = isinstance(e, ast.BoolOp) and isinstance(e.op, ast.And) and len(e.values) == 2
    if not ok:
        rep.violation("T3", f, rets[0], "verdict is not the conjunction of exactly the two sub-verdicts", node=rets[0])
        return
    want = [("is_eq_constraint_satisfied", "atol_eq_const"), ("is_ineq_constraint_satisfied", "atol_ineq_const")]
    got = []
    for v in e.values:
        if isinstance(v, ast.Call) and isinstance(v.func, ast.Attribute) and isinstance(v.func.value, ast.Name) \
                and v.func.value.id == f.self_name:
            a = arg(v, 0, "atol")
            got.append((v.func.attr, a.id if isinstance(a, ast.Name) else None))
        else:
            got.append((unparse(v), None))
    if sorted(got) == sorted(want):
        rep.holds("T3", f, rets[0], "eq(atol_eq_const) and ineq(atol_ineq_const)", node=rets[0])
    else:
        rep.violation("T3", f, rets[0], "sub-verdict/tolerance pairing is %s, expected %s" % (got, want), node=rets[0])


def _check_forward(ctx, rep, c: Class, m: Func, tgt: str):
    rets = returns(m)
    p = m.params[0] if m.params else None
    if len(rets) != 1 or p is None:
        rep.undecided("T3", m, "return", "expected a single return and a tolerance parameter")
        return
    e = inline(m, rets[0].value)
    if isinstance(e, ast.Call) and isinstance(e.func, ast.Attribute) and isinstance(e.func.value, ast.Name) \
            and e.func.value.id == m.self_name:
        a = arg(e, 0, "atol")
        if e.func.attr == tgt and isinstance(a, ast.Name) and a.id == p:
            rep.holds("T3", m, rets[0], "forwards %s to %s" % (p, tgt), node=rets[0])
        elif e.func.attr != tgt:
            rep.violation("T3", m, rets[0], "%s.%s must be decided by %s, not %s" % (c.name, m.name, tgt, e.func.attr), node=rets[0])
        else:
            rep.violation("T3", m, rets[0], "the caller's tolerance '%s' is not forwarded to %s" % (p, tgt), node=rets[0])
    else:
        rep.violation("T3", m, rets[0], "sub-verdict is not the value of self.%s(%s)" % (tgt, p), node=rets[0])


# ----------------------------------------------------------------------------- T3'
def _close_calls(ctx, f: Func):
    tf = TolFlow(ctx.res)
    out = []
    for n in own_nodes(f.node):
        if isinstance(n, ast.Call):
            for t in ctx.res.resolve_call(f, n, by_name=False):
                sp = tf.close_spec(t)
                if sp:
                    out.append((n, sp[1]))
    return out


def _check_trace_one(ctx, rep):
    f = ctx.ix.func(OBJ + "state.State.is_trace_one")
    sites = _close_calls(ctx, f)
    if len(sites) != 1:
        rep.undecided("T3'", f, "trace test", "expected one closeness comparison, found %d" % len(sites))
        return
    call, sp = sites[0]
    a0 = arg(call, sp["a"], "a")
    a = inline(f, a0)
    b = inline(f, arg(call, sp["b"], "b"))
    ok_a = isinstance(a, ast.Call) and (dotted(a.func) or "").endswith("trace")
    # the reference must be the literal one, on either side
    if not ok_a and isinstance(b, ast.Call) and (dotted(b.func) or "").endswith("trace"):
        a, b, ok_a = b, a, True
    if not ok_a and isinstance(a0, ast.Name):
        # the compared quantity is bound on several paths: each binding must be a trace of the density matrix, or the
        # coefficient-0 shortcut sqrt(d) * vec[0], which is the trace only in an orthonormal Hermitian basis whose 0th element is
        # proportional to the identity (the flag is_orthonormal_hermitian_0thprop_identity)
        from ..astutil import guards_of
        from .c03 import _size_poly, Undecided as _Und
        from ..poly import Poly
        from fractions import Fraction
        binds = [n for n in own_nodes(f.node) if isinstance(n, ast.Assign) and len(n.targets) == 1 and isinstance(n.targets[0], ast.Name)
                 and n.targets[0].id == a0.id]
        decided = bool(binds) and is_num(b, 1)
        for bd in binds:
            v = inline(f, bd.value)
            g = {t: pol for t, pol, _ in guards_of(bd)}
            con = "%s = %s" % (a0.id, unparse(bd.value)[:80])
            if isinstance(v, ast.Call) and (dotted(v.func) or "").endswith("trace") and v.args and isinstance(v.args[0], ast.Call) \
                    and "density_matrix" in (dotted(v.args[0].func) or ""):
                rep.holds("T3'", f, con, "trace(density matrix)", node=bd)
                continue
            short = None
            if isinstance(v, ast.BinOp) and isinstance(v.op, ast.Mult):
                for coef, sub in ((v.left, v.right), (v.right, v.left)):
                    if isinstance(sub, ast.Subscript) and is_num(sub.slice, 0) and unparse(sub.value) in ("self._vec", "self.vec"):
                        try:
                            short = _size_poly(coef, f) == Poly.sym("d") ** Fraction(1, 2)
                        except _Und:
                            short = None
            if short is None:
                decided = False
                continue
            flag = [pol for t, pol in g.items() if t.endswith("is_orthonormal_hermitian_0thprop_identity")]
            if short and flag == [True]:
                rep.holds("T3'", f, con, "sqrt(d) * vec[0] under is_orthonormal_hermitian_0thprop_identity", node=bd)
            elif not short:
                rep.violation("T3'", f, con, "the coefficient-0 shortcut for the trace must be sqrt(d) * vec[0]", node=bd)
            else:
                rep.violation("T3'", f, con, "the coefficient-0 shortcut sqrt(d) * vec[0] equals the trace only in an orthonormal Hermitian basis whose 0th "
                                             "element is proportional to the identity (is_orthonormal_hermitian_0thprop_identity); here it is taken under %s"
                              % (sorted(("" if pol else "not ") + t for t, pol in g.items()) or "no condition"), node=bd)
        if decided:
            return
    if not ok_a:
        rep.undecided("T3'", f, call, "compared quantity is not a trace(...) call")
        return
    dm = a.args[0] if a.args else None
    dm_ok = isinstance(dm, ast.Call) and "density_matrix" in (dotted(dm.func) or "")
    if not is_num(b, 1):
        rep.violation("T3'", f, call, "trace is compared with %s, the constraint is trace = 1" % unparse(b), node=call)
    elif not dm_ok:
        rep.violation("T3'", f, call, "trace of %s, not of the density matrix" % (unparse(dm) if dm is not None else "?"), node=call)
    else:
        rep.holds("T3'", f, call, "trace(density matrix) vs literal 1", node=call)


def _check_povm_psd_all(ctx, rep):
    """Povm.is_positive_semidefinite tests EVERY element: the loop ranges over the whole list of matrices on every path"""
    f = ctx.ix.funcs.get(OBJ + "povm.Povm.is_positive_semidefinite")
    if f is None:
        return
    loops = [n for n in own_nodes(f.node) if isinstance(n, (ast.For, ast.comprehension))]
    con = "every POVM element is tested"
    if len(loops) != 1:
        rep.undecided("T3'", f, con, "expected one loop over the elements")
        return
    it = loops[0].iter
    binds = []
    if isinstance(it, ast.Name):
        binds = [n.value for n in own_nodes(f.node) if isinstance(n, ast.Assign) and len(n.targets) == 1 and isinstance(n.targets[0], ast.Name)
                 and n.targets[0].id == it.id]
    exprs = binds if binds else [it]
    sliced = [e for e in exprs if isinstance(e, ast.Subscript)]
    whole = [e for e in exprs if isinstance(e, ast.Call) and (dotted(e.func) or "").split(".")[-1] in ("matrices", "matrices_with_sparsity")]
    if sliced:
        rep.violation("T3'", f, con, "the elements tested are `%s`: an element left out (e.g. the one implied by the equality constraint) can be "
                                     "non-positive while the verdict is True" % unparse(sliced[0]), node=sliced[0])
    elif whole and len(whole) == len(exprs):
        rep.holds("T3'", f, con, "loop over %s" % unparse(whole[0]), node=loops[0] if isinstance(loops[0], ast.For) else f.node)
    else:
        rep.undecided("T3'", f, con, "iterable %s not recognised" % unparse(it))


def _check_identity_sum(ctx, rep):
    f = ctx.ix.func(OBJ + "povm.Povm.is_identity_sum")
    sites = _close_calls(ctx, f)
    if len(sites) != 1:
        rep.undecided("T3'", f, "identity-sum test", "expected one closeness comparison, found %d" % len(sites))
        return
    call, sp = sites[0]
    a = inline(f, arg(call, sp["a"], "a"))
    b = inline(f, arg(call, sp["b"], "b"))

    def is_ident(e):
        return isinstance(e, ast.Call) and (dotted(e.func) or "").split(".")[-1] in ("identity", "eye")

    if is_ident(a) and not is_ident(b):
        a, b = b, a
    if not is_ident(b):
        rep.violation("T3'", f, call, "POVM sum is compared with %s, not with the identity" % unparse(b), node=call)
        return
    dim = b.args[0] if b.args else None
    dim_ok = dim is not None and unparse(dim) in ("self.dim", "self._dim", "self.composite_system.dim", "self._composite_system.dim")
    sum_ok = isinstance(a, ast.Call) and "sum" in (dotted(a.func) or "").lower()
    if not dim_ok:
        rep.violation("T3'", f, call, "identity has size %s, expected the system dimension" % (unparse(dim) if dim is not None else "?"), node=call)
    elif not sum_ok:
        rep.violation("T3'", f, call, "compared quantity %s is not the element sum" % unparse(a), node=call)
    else:
        rep.holds("T3'", f, call, "sum of elements vs identity(dim)", node=call)


def _const_vector_def(f: Func, name: str):
    """`name = np.zeros(...)` followed by subscript stores `name[i] = c` -> {i: c}, or None."""
    zeros = None
    stores = {}
    other = False
    for n in own_nodes(f.node):
        if isinstance(n, ast.Assign):
            for t in n.targets:
                if isinstance(t, ast.Name) and t.id == name:
                    if isinstance(n.value, ast.Call) and (dotted(n.value.func) or "").endswith("zeros") and zeros is None:
                        zeros = n
                    else:
                        other = True
                elif isinstance(t, ast.Subscript) and isinstance(t.value, ast.Name) and t.value.id == name:
                    i, c = const(t.slice), const(n.value)
                    if i is NOCONST or c is NOCONST:
                        other = True
                    else:
                        stores[i] = c
        elif isinstance(n, ast.AugAssign):
            t = n.target
            if (isinstance(t, ast.Name) and t.id == name) or (isinstance(t, ast.Subscript) and isinstance(t.value, ast.Name) and t.value.id == name):
                other = True
    if zeros is None or other:
        return None
    return stores


def _check_gate_tp_row(ctx, rep):
    f = ctx.ix.func(OBJ + "gate.is_tp")
    sites = _close_calls(ctx, f)
    row_sites = []
    for call, sp in sites:
        a = arg(call, sp["a"], "a")
        if isinstance(a, ast.Subscript) and isinstance(a.value, ast.Name) and a.value.id == "hs":
            row_sites.append((call, sp))
    if len(row_sites) != 1:
        rep.undecided("T3'", f, "first-row test", "expected one comparison of a row of hs, found %d" % len(row_sites))
        return
    call, sp = row_sites[0]
    a = arg(call, sp["a"], "a")
    b = arg(call, sp["b"], "b")
    if not is_num(a.slice, 0):
        rep.violation("T3'", f, call, "row %s of the HS matrix is tested; trace preservation fixes row 0" % unparse(a.slice), node=call)
        return
    if not isinstance(b, ast.Name):
        rep.undecided("T3'", f, call, "reference row is not a named vector")
        return
    vec = _const_vector_def(f, b.id)
    if vec is None:
        rep.undecided("T3'", f, call, "reference row %s is not zeros + constant stores" % b.id)
    elif vec == {0: 1}:
        rep.holds("T3'", f, call, "hs[0] vs e0 (zeros with entry 0 := 1)", node=call)
    else:
        rep.violation("T3'", f, call, "reference row is zeros with %s, expected e0 = {0: 1}" % vec, node=call)


def _check_gate_tp_generic(ctx, rep):
    """generic-basis branch of gate.is_tp: Tr[A(B_i)] = Tr[B_i] for every basis element.  The mapped element
    must be column i of the HS matrix (hs applied from the left to the unit vector e_i)."""
    f = ctx.ix.func(OBJ + "gate.is_tp")
    sites = _close_calls(ctx, f)
    gen = []
    for call, sp in sites:
        a = arg(call, sp["a"], "a")
        if not (isinstance(a, ast.Subscript) and isinstance(a.value, ast.Name) and a.value.id == "hs"):
            gen.append((call, sp))
    if len(gen) != 1:
        rep.undecided("T3'", f, "generic-basis test", "expected one comparison of traces, found %d" % len(gen))
        return
    call, sp = gen[0]
    a, b = arg(call, sp["a"], "a"), arg(call, sp["b"], "b")
    loop = next((p for p in parents(call) if isinstance(p, ast.For)), None)
    if loop is None or not (isinstance(loop.iter, ast.Call) and dotted(loop.iter.func) == "enumerate" and loop.iter.args
                            and unparse(loop.iter.args[0]) == "c_sys.basis()" and isinstance(loop.target, ast.Tuple)
                            and all(isinstance(e, ast.Name) for e in loop.target.elts)):
        rep.undecided("T3'", f, call, "trace comparison is not inside `for index, basis in enumerate(c_sys.basis())`")
        return
    idx, bas = loop.target.elts[0].id, loop.target.elts[1].id
    defs = {}
    for st in loop.body:
        if isinstance(st, ast.Assign) and len(st.targets) == 1 and isinstance(st.targets[0], ast.Name):
            defs.setdefault(st.targets[0].id, st.value)

    def d(e):
        for _ in range(3):
            if isinstance(e, ast.Name) and e.id in defs:
                e = defs[e.id]
        return e
    sides = {"after": None, "before": None}
    for e in (a, b):
        e = d(e)
        t = unparse(e)
        if t in ("%s.diagonal().sum()" % bas, "np.trace(%s)" % bas, "%s.trace()" % bas):
            sides["before"] = e
        elif isinstance(e, ast.Call) and (dotted(e.func) or "").endswith("trace") and e.args and isinstance(e.args[0], ast.Name):
            sides["after"] = e
    if sides["before"] is None or sides["after"] is None:
        rep.undecided("T3'", f, call, "compared quantities are not trace(mapped element) and trace(basis element)")
        return
    dens = sides["after"].args[0].id
    # density accumulates coefficient * basis over zip(<mapped vector>, c_sys.basis())
    acc = [n for st in loop.body for n in ast.walk(st) if isinstance(n, ast.For) and isinstance(n.iter, ast.Call) and dotted(n.iter.func) == "zip"
           and len(n.iter.args) == 2 and any(isinstance(x, ast.AugAssign) and unparse(x.target) == dens for x in n.body)]
    if len(acc) != 1 or unparse(acc[0].iter.args[1]) != "c_sys.basis()":
        rep.undecided("T3'", f, call, "the mapped element is not assembled as sum_j coefficient_j * basis_j")
        return
    mapped = d(acc[0].iter.args[0])
    # unit vector e_index
    def unit(name):
        z, st1 = None, {}
        for st in loop.body:
            if isinstance(st, ast.Assign) and len(st.targets) == 1:
                t = st.targets[0]
                if isinstance(t, ast.Name) and t.id == name and isinstance(st.value, ast.Call) and (dotted(st.value.func) or "").endswith("zeros"):
                    z = st
                elif isinstance(t, ast.Subscript) and isinstance(t.value, ast.Name) and t.value.id == name:
                    st1[unparse(t.slice)] = const(st.value)
        return z is not None and st1 == {idx: 1}
    form = None
    if isinstance(mapped, ast.BinOp) and isinstance(mapped.op, ast.MatMult):
        form = (mapped.left, mapped.right)
    elif isinstance(mapped, ast.Call) and dotted(mapped.func) in ("np.dot", "np.matmul", "numpy.dot") and len(mapped.args) == 2:
        form = (mapped.args[0], mapped.args[1])
    elif isinstance(mapped, ast.Call) and isinstance(mapped.func, ast.Attribute) and mapped.func.attr == "dot" and len(mapped.args) == 1:
        form = (mapped.func.value, mapped.args[0])
    if form is not None:
        l, r = form
        if unparse(l) == "hs" and isinstance(r, ast.Name) and unit(r.id):
            rep.holds("T3'", f, call, "Tr[sum_j (hs @ e_i)_j B_j] vs Tr[B_i]: column i of hs", node=call)
        elif isinstance(l, ast.Name) and unit(l.id) and unparse(r) in ("hs.T", "hs.transpose()", "np.transpose(hs)"):
            rep.holds("T3'", f, call, "e_i @ hs.T = column i of hs", node=call)
        elif (isinstance(l, ast.Name) and unit(l.id) and unparse(r) == "hs") or \
                (unparse(l) in ("hs.T", "hs.transpose()") and isinstance(r, ast.Name) and unit(r.id)):
            rep.violation("T3'", f, call, "the image of basis element i is taken as `%s`, i.e. ROW i of the HS matrix; the channel acts as hs @ e_i "
                                         "(column i), so this tests unitality-like row sums of the transpose, not trace preservation" % unparse(mapped),
                          node=mapped)
        else:
            rep.undecided("T3'", f, call, "mapped vector `%s` is outside the recognised forms" % unparse(mapped))
    elif isinstance(mapped, ast.Subscript) and unparse(mapped.value) == "hs":
        t = unparse(mapped.slice).replace(" ", "")
        if t == ":,%s" % idx:
            rep.holds("T3'", f, call, "column i of hs", node=call)
        elif t in (idx, "%s,:" % idx):
            rep.violation("T3'", f, call, "row i of hs is used as the image of basis element i; it is column i", node=mapped)
        else:
            rep.undecided("T3'", f, call, "mapped vector `%s` is outside the recognised forms" % unparse(mapped))
    else:
        rep.undecided("T3'", f, call, "mapped vector `%s` is outside the recognised forms" % unparse(mapped))


def _check_psd(ctx, rep):
    f = ctx.ix.func("quara.utils.matrix_util.is_positive_semidefinite")
    body = body_wo_doc(f.node)
    # find the `if is_hermitian(...)` and the final np.all(... >= 0)
    iff = [s for s in body if isinstance(s, ast.If)]
    if len(iff) != 1:
        rep.undecided("T3'", f, "PSD test", "expected one if on hermiticity")
        return
    iff = iff[0]
    t = iff.test
    neg = False
    if isinstance(t, ast.UnaryOp) and isinstance(t.op, ast.Not):
        t, neg = t.operand, True
    if not (isinstance(t, ast.Call) and (dotted(t.func) or "").endswith("is_hermitian")):
        rep.violation("T3'", f, iff.test, "positivity is not guarded by the hermiticity test", node=iff)
        return
    pos_branch = iff.orelse if neg else iff.body
    neg_branch = iff.body if neg else iff.orelse
    if not neg_branch and not neg:
        # fall-through after the if
        idx = body.index(iff)
        neg_branch = body[idx + 1:]
    neg_rets = [s for s in neg_branch if isinstance(s, ast.Return)]
    if not (neg_rets and const(neg_rets[-1].value) is False):
        rep.violation("T3'", f, iff, "a non-Hermitian matrix is not judged `False`", node=iff)
        return
    rets = [s for s in pos_branch if isinstance(s, ast.Return)]
    if len(rets) != 1:
        rep.undecided("T3'", f, iff, "expected one return in the Hermitian branch")
        return
    # inline assignments of the branch
    defs = {}
    for s in pos_branch:
        if isinstance(s, ast.Assign) and len(s.targets) == 1 and isinstance(s.targets[0], ast.Name):
            defs[s.targets[0].id] = s.value
    e = inline(f, rets[0].value, defs=defs)
    con = rets[0]
    if not (isinstance(e, ast.Call) and (dotted(e.func) or "").split(".")[-1] == "all" and e.args):
        if isinstance(e, ast.Call) and (dotted(e.func) or "").split(".")[-1] == "any":
            rep.violation("T3'", f, con, "`any` eigenvalue non-negative is not positive semidefiniteness (needs all)", node=con)
        else:
            rep.undecided("T3'", f, con, "verdict is not np.all(...)")
        return
    cmp_ = e.args[0]
    if not (isinstance(cmp_, ast.Compare) and len(cmp_.ops) == 1):
        rep.undecided("T3'", f, con, "np.all argument is not a single comparison")
        return
    op, lhs, rhs = cmp_.ops[0], cmp_.left, cmp_.comparators[0]
    if is_num(lhs, 0):  # 0 <= x
        lhs, rhs = rhs, lhs
        op = {ast.LtE: ast.GtE, ast.Lt: ast.Gt, ast.GtE: ast.LtE, ast.Gt: ast.Lt}.get(type(op), type(op))()
    if not is_num(rhs, 0):
        rep.violation("T3'", f, con, "eigenvalues are compared with %s, not with 0" % unparse(rhs), node=con)
        return
    if isinstance(op, ast.Gt):
        rep.violation("T3'", f, con, "strict `> 0` rejects the boundary (eigenvalue exactly 0 outside the atol filter never occurs, "
                                   "but semidefinite means >= 0)", node=con)
        return
    if not isinstance(op, ast.GtE):
        rep.violation("T3'", f, con, "comparison operator %s is not >=" % type(op).__name__, node=con)
        return
    # lhs = np.delete(eigs, np.where(isclose(eigs, 0, atol)))  with eigs = eigvalsh(matrix)
    if not (isinstance(lhs, ast.Call) and (dotted(lhs.func) or "").endswith("delete") and len(lhs.args) >= 2):
        # acceptable alternative: eigs >= -atol is NOT the same filter; anything else is undecided
        rep.undecided("T3'", f, con, "filtered eigenvalue array is not np.delete(eigs, where(close to 0))")
        return
    eigs, where = lhs.args[0], lhs.args[1]
    if not (isinstance(eigs, ast.Call) and (dotted(eigs.func) or "").split(".")[-1] in ("eigvalsh", "eigvals")):
        rep.violation("T3'", f, con, "the tested values %s are not the eigenvalues of the matrix" % unparse(eigs), node=con)
        return
    inner = where.args[0] if isinstance(where, ast.Call) and (dotted(where.func) or "").endswith("where") and where.args else where
    tf = TolFlow(ctx.res)
    ok_filter = False
    if isinstance(inner, ast.Call):
        dn = (dotted(inner.func) or "")
        if dn.endswith("isclose") and len(inner.args) >= 2 and is_num(inner.args[1], 0) \
                and unparse(inner.args[0]) == unparse(eigs):
            ok_filter = True
    if ok_filter:
        rep.holds("T3'", f, con, "hermitian and all(eigvalsh(m) without those within atol of 0 >= 0)", node=con)
    else:
        rep.violation("T3'", f, con, "the eigenvalues ignored are %s, not those within atol of 0" % unparse(inner), node=con)


# ------------------------------------------------------------------------------ T4
def _is_guard_test(t: ast.AST, selfname: str) -> bool:
    if not (isinstance(t, ast.BoolOp) and isinstance(t.op, ast.And) and len(t.values) == 2):
        return False
    a, b = t.values

    def is_req(e):
        return isinstance(e, ast.Attribute) and isinstance(e.value, ast.Name) and e.value.id == selfname \
            and e.attr in ("is_physicality_required", "_is_physicality_required")

    def is_not_phys(e):
        if isinstance(e, ast.UnaryOp) and isinstance(e.op, ast.Not):
            c = e.operand
            return isinstance(c, ast.Call) and isinstance(c.func, ast.Attribute) and c.func.attr == "is_physical" \
                and isinstance(c.func.value, ast.Name) and c.func.value.id == selfname and not c.args and not c.keywords
        if isinstance(e, ast.Compare) and len(e.ops) == 1 and isinstance(e.ops[0], (ast.Eq, ast.Is)) and const(e.comparators[0]) is False:
            c = e.left
            return isinstance(c, ast.Call) and isinstance(c.func, ast.Attribute) and c.func.attr == "is_physical"
        return False

    return (is_req(a) and is_not_phys(b)) or (is_req(b) and is_not_phys(a))


def _guard_ifs(init: Func):
    """outermost `if` statements of the physicality guard: a `raise` that is reached exactly under
    self.is_physicality_required and not self.is_physical() (one conjoined test, nested tests, `== True` spellings ...)"""
    from ..astutil import conjuncts
    from ..index import parents
    sn = init.self_name
    want = {("%s.is_physicality_required" % sn, True), ("%s.is_physical()" % sn, False)}
    alt = {("%s._is_physicality_required" % sn, True), ("%s.is_physical()" % sn, False)}
    out = []
    for r in own_nodes(init.node):
        if not isinstance(r, ast.Raise):
            continue
        atoms, outer, child = set(), None, r
        ok = True
        for p in parents(r):
            if isinstance(p, (ast.FunctionDef, ast.AsyncFunctionDef)):
                break
            if isinstance(p, ast.If):
                in_body = any(child is x for x in p.body)
                c = conjuncts(p.test, in_body)
                if c is None:
                    ok = False
                    break
                atoms |= {(t, pol) for t, pol, _ in c}
                outer = p
            elif isinstance(p, (ast.For, ast.While, ast.Try, ast.With)):
                ok = False
                break
            child = p
        if ok and outer is not None and atoms in (want, alt):
            out.append(outer)
    return out


def _check_ctor_guard(ctx, rep, c: Class):
    init = c.methods.get("__init__")
    if init is None:
        rep.violation("T4", c.qualname, "__init__", "constructor missing")
        return
    cfg: CFG = ctx.cfg(init)
    guard_ifs = _guard_ifs(init)
    guards = [n for n in cfg.nodes if n.kind == "test" and isinstance(n.ast, ast.If) and any(n.ast is g for g in guard_ifs)]
    good = []
    for g in guards:
        # the raising path must not reach the normal exit
        t_succ = [s for s, lab in g.succ if lab == "T"]
        reach = set()
        for s in t_succ:
            reach |= cfg.reachable(s)
        # (for a nested guard the true branch of the outer test does reach the exit - through the inner test's false edge;
        #  what matters is that the raise itself is unconditional below the two atoms, which _guard_ifs established)
        good.append(g)
    if not good:
        rep.violation("T4", init, "physicality guard",
                      "no `if self.is_physicality_required and not self.is_physical(): raise` in the constructor")
        return
    if not cfg.must_pass(good):
        rep.violation("T4", init, good[0].ast.test, "a path reaches the end of the constructor without passing the physicality guard",
                      node=good[0].ast)
        return
    # fields the verdict reads must be assigned before the guard
    isph = c.lookup("is_physical")
    need = attr_read_cone(ctx, c, isph)
    for g in good:
        have = must_attrs_at(ctx, init, g)
        missing = {a: ch for a, ch in need.items() if a not in have}
        if missing:
            for a, ch in sorted(missing.items()):
                rep.violation("T4", init, "self.%s read by %s" % (a, "->".join(ch)),
                              "field self.%s, read by the verdict, is not definitely assigned when the guard runs" % a, node=g.ast)
        else:
            rep.holds("T4", init, g.ast.test, "guard on every normal path; %d verdict field(s) assigned before it: %s"
                      % (len(need), ", ".join(sorted(need))), node=g.ast)


# ------------------------------------------------------------------------------ T5
def _check_zero_origin(ctx, rep):
    ix, res = ctx.ix, ctx.res
    qop = ix.cls(OBJ + "qoperation.QOperation")
    classes = [qop] + [ix.cls(q) for q in WIRING]
    for c in classes:
        for pub, priv in (("generate_zero_obj", "_generate_zero_obj"), ("generate_origin_obj", "_generate_origin_obj")):
            m = c.methods.get(pub)
            if m is None:
                continue
            # find the constructor call whose result is returned
            rets = returns(m)
            ok = False
            for r in rets:
                e = inline(m, r.value)
                if isinstance(e, ast.Call):
                    kw = kwarg(e, "is_physicality_required")
                    srcs = [unparse(a) for a in e.args] + [unparse(k.value) for k in e.keywords]
                    from_priv = any(("self.%s()" % priv) == s for s in srcs)
                    if kw is None or const(kw) is not False:
                        rep.violation("T5", m, r, "result is constructed without is_physicality_required=False "
                                                  "(the zero/origin object must be constructible for every object)", node=r)
                    elif not from_priv:
                        rep.violation("T5", m, r, "result is not built from self.%s()" % priv, node=r)
                    else:
                        rep.holds("T5", m, r, "class(c_sys, self.%s(), is_physicality_required=False, ...)" % priv, node=r)
                    ok = True
            if not ok:
                rep.undecided("T5", m, "return", "no constructor call returned")
    for cq in WIRING:
        c = ix.cls(cq)
        m = c.methods.get("_generate_zero_obj")
        if m is None:
            rep.violation("T5", cq, "_generate_zero_obj", "missing")
            continue
        _check_zero_value(ctx, rep, m)


def _check_zero_value(ctx, rep, m: Func):
    """The returned value is np.zeros(...) storage, a copy of it, or a list of those, and no
    non-zero store touches it."""
    rets = returns(m)
    if len(rets) != 1:
        rep.undecided("T5", m, "return", "expected one return")
        return
    defs = single_defs(m)

    def zeros_like(e, depth=0):
        e = e
        if isinstance(e, ast.Name) and e.id in defs and depth < 6:
            return zeros_like(defs[e.id], depth + 1)
        if isinstance(e, ast.Call):
            dn = dotted(e.func) or ""
            if dn.split(".")[-1] in ("zeros", "zeros_like"):
                return True
            if dn.split(".")[-1] in ("copy", "deepcopy") and (e.args or isinstance(e.func, ast.Attribute)):
                inner = e.args[0] if e.args else e.func.value
                return zeros_like(inner, depth + 1)
        if isinstance(e, ast.ListComp):
            return zeros_like(e.elt, depth + 1)
        if isinstance(e, ast.List):
            return all(zeros_like(x, depth + 1) for x in e.elts) and bool(e.elts)
        return False

    stores = [n for n in own_nodes(m.node) if isinstance(n, (ast.Assign, ast.AugAssign))
              and any(isinstance(t, ast.Subscript) for t in (n.targets if isinstance(n, ast.Assign) else [n.target]))]
    if stores:
        rep.violation("T5", m, stores[0], "the zero object's storage is written after np.zeros", node=stores[0])
    elif zeros_like(rets[0].value):
        rep.holds("T5", m, rets[0], "np.zeros storage", node=rets[0])
    else:
        rep.violation("T5", m, rets[0], "returned value is not np.zeros(...) (or a list/copy of it)", node=rets[0])
