"""C18 - effective Lindbladians (narrow): tolerance flow of the verdicts, equality projection,
spectral reconstruction, homogeneity degree of the jump-operator generators, slot and
constraint-constant agreement, override-pair completeness."""
from __future__ import annotations

import ast

from ..astutil import arg, const, inline, is_num, kwarg, returns, single_defs, unparse
from ..index import AnalysisError, Class, Func, dotted, own_nodes
from ..resolve import bind_call
from ..slots import class_call_sites, factory_call_sites, hook_target
from ..tolflow import TolFlow
from .. import spectral

EL = "quara.objects.effective_lindbladian."
C = EL + "EffectiveLindbladian"


def run(ctx, rep):
    ix = ctx.ix
    rep.rule("T1", "EffectiveLindbladian.is_tp / is_cp: every closeness comparison takes atol from the caller and has effective rtol 0", floor=3)
    rep.rule("S4", "the equality projection zeroes exactly row 0, on a private copy", floor=1)
    rep.rule("S1", "the inequality projection reconstructs V diag(w) V-dagger from a Hermitian eigen-decomposition (eigh), clipping only "
                   "negative eigenvalues to 0", floor=2)
    rep.rule("Q1", "homogeneity: every summand of the dissipator built from jump operators has degree 2 in the operators (GKSL: "
                   "L (x) conj L and the anticommutator with L-dagger L); the parts built from H, J, K are linear in them", floor=5)
    rep.rule("Q2", "the row fixed by the generator's constraint is one constant everywhere: tested by is_tp, written by the equality "
                   "projection, re-inserted by the variable conversion; and that conversion binds the call the base class makes", floor=3)
    rep.rule("Q3", "a class overriding an object-level projection also overrides its variable-level twin (the optimiser closures and the "
                   "variable-level physical projection dispatch to the twin)", floor=2)
    rep.rule("Q5", "is_cp applies the positive-semidefiniteness test to the dissipator matrix calc_k_mat() itself (or to (K + K†)/2)", floor=1)
    rep.rule("Q4", "sparse fast paths: the coefficient vector handed to a pre-computed basis table enumerates K in the order the table's "
                   "rows were built, so that every K[r, c] multiplies the same matrix as in the reference (`_slowly`) sum", floor=2)
    cls = ix.cls(C)
    # ---- T1
    for nm in ("is_tp", "is_cp"):
        f = cls.methods[nm]
        tf = TolFlow(ctx.res)
        tf.analyse(f, {"atol"})
        if not tf.sites:
            rep.undecided("T1", f, nm, "no closeness comparison reached")
        for s in tf.sites:
            if not s.atol_tainted:
                rep.violation("T1", s.func, s.call, "atol does not derive from the caller's tolerance", node=s.call, chain=s.chain)
            elif not s.rtol_ok:
                rep.violation("T1", s.func, s.call, "relative slack is added to the absolute tolerance", node=s.call, chain=s.chain)
            else:
                rep.holds("T1", s.func, s.call, "atol <- caller, rtol 0 / zero reference", node=s.call, chain=s.chain)
    # ---- S4
    f = cls.methods["calc_proj_eq_constraint"]
    stores = [n for n in own_nodes(f.node) if isinstance(n, ast.Assign) and isinstance(n.targets[0], ast.Subscript)]
    ok, why = False, "expected exactly one store new_hs[0, :] = 0"
    if len(stores) == 1:
        t = stores[0].targets[0]
        idx = t.slice
        row0 = isinstance(idx, ast.Tuple) and len(idx.elts) == 2 and is_num(idx.elts[0], 0) and isinstance(idx.elts[1], ast.Slice) \
            and idx.elts[1].lower is None and idx.elts[1].upper is None
        row0 = row0 or is_num(idx, 0)
        tgt = unparse(t.value)
        d = single_defs(f).get(tgt)
        fresh = d is not None and unparse(d) in ("self._copy()", "copy.deepcopy(self.hs)", "copy.deepcopy(self._hs)", "np.copy(self.hs)")
        if fresh and unparse(d) == "self._copy()":
            cp = cls.lookup("_copy")
            r = returns(cp) if cp else []
            fresh = bool(r) and "deepcopy" in unparse(r[0].value)
        if not row0:
            why = "the store goes to %s; the constraint fixes row 0" % unparse(idx)
        elif not is_num(stores[0].value, 0):
            why = "row 0 is set to %s; a trace-preserving generator has first row 0" % unparse(stores[0].value)
        elif not fresh:
            why = "the row is written into %s, which is not a private deep copy" % tgt
        else:
            ok = True
    rep.check(ok, "S4", f, "row 0 := 0 on a copy", "new_hs = deep copy; new_hs[0, :] = 0", why, node=f.node)
    # ---- S1
    f = cls.methods["calc_proj_ineq_constraint"]
    _spectral_inline(rep, f)
    # ---- Q1
    _q1(ctx, rep)
    # ---- Q2
    _q2(ctx, rep, cls)
    # ---- Q3
    _q3(ctx, rep)
    _q4(ctx, rep)
    rep.rule("Q7", "EffectiveLindbladian.is_tp compares the WHOLE first row of the HS matrix with zero (entry (0,0) included)", floor=1)
    _q7(ctx, rep)
    rep.rule("Q6", "calc_h_mat: the Hamiltonian coefficients are i/(2d) x Tr[L (B (x) I - I (x) conj B)]: the normalisation is 2d for every "
                   "dimension d", floor=1)
    _q6(ctx, rep)
    _q5(ctx, rep, cls)


def _spectral_inline(rep, f: Func):
    decs = spectral.decompositions(f)
    if len(decs) != 1:
        rep.undecided("S1", f, "decomposition", "expected one eigen-decomposition")
        return
    dec, routine, w, V = decs[0]
    fs = [x for x in spectral.check(f) if x.kind == "S1"]
    recon = [x for x in fs if isinstance(x.node, (ast.BinOp, ast.Call))]
    if not recon:
        rep.undecided("S1", f, "reconstruction", "no product with the eigenvector matrix found")
    for fd in fs:
        if fd.ok is True:
            rep.holds("S1", f, fd.node, fd.text + " (eigh)", node=fd.node)
        elif fd.ok is False:
            rep.violation("S1", f, fd.node, fd.text, node=fd.node)
        else:
            rep.undecided("S1", f, fd.node, fd.text)
    cl = spectral.clipping(f, w)
    if not cl:
        rep.violation("S1", f, "clipping", "the spectrum is not clipped at 0 from below (no construct replaces the negative eigenvalues by 0 between "
                                           "the decomposition and the reconstruction)", node=f.node)
    for ok, node, text in cl:
        rep.check(ok, "S1", f, "clipping", "negative eigenvalues are replaced by 0 (%s)" % text,
                  "`%s` does not replace exactly the negative eigenvalues by 0" % text, node=node)


# ------------------------------------------------------------------------------ Q1
def degree(e: ast.AST, var: str, env=None):
    """homogeneity degree of `e` in the matrix symbol `var`; None if terms of different degree are added"""
    env = env or {}
    if isinstance(e, ast.Name):
        if e.id == var:
            return 1
        return env.get(e.id, 0)
    if isinstance(e, ast.Constant):
        return 0
    if isinstance(e, ast.UnaryOp):
        return degree(e.operand, var, env)
    if isinstance(e, ast.Attribute) and e.attr in ("T", "real", "imag"):
        return degree(e.value, var, env)
    if isinstance(e, ast.Call):
        dn = dotted(e.func) or ""
        base = dn.split(".")[-1]
        if isinstance(e.func, ast.Attribute) and e.func.attr in ("conj", "conjugate", "transpose", "copy", "toarray") and not e.args:
            return degree(e.func.value, var, env)
        if base in ("kron", "dot", "matmul") and len(e.args) == 2:
            a, b = degree(e.args[0], var, env), degree(e.args[1], var, env)
            return None if a is None or b is None else a + b
        if base in ("conjugate", "conj", "transpose", "array", "asarray") and e.args:
            return degree(e.args[0], var, env)
        if base in ("eye", "identity", "zeros", "ones"):
            return 0
        if base == "reduce" and len(e.args) >= 2 and unparse(e.args[0]) in ("add", "operator.add"):
            return degree(e.args[1], var, env)
        if base == "sum" and e.args:
            return degree(e.args[0], var, env)
        return 0 if not any(isinstance(n, ast.Name) and (n.id == var or env.get(n.id)) for n in ast.walk(e)) else "?"
    if isinstance(e, ast.BinOp):
        a, b = degree(e.left, var, env), degree(e.right, var, env)
        if a is None or b is None or a == "?" or b == "?":
            return None if (a is None or b is None) else "?"
        if isinstance(e.op, (ast.Add, ast.Sub)):
            return a if a == b else None
        if isinstance(e.op, (ast.Mult, ast.MatMult)):
            return a + b
        if isinstance(e.op, ast.Div):
            return a - b
    if isinstance(e, (ast.ListComp, ast.GeneratorExp)):
        return degree(e.elt, var, env)
    return "?"


def _q1(ctx, rep):
    ix = ctx.ix
    results = {}
    for nm in ("generate_j_part_cb_from_jump_operators", "generate_k_part_cb_from_jump_operators"):
        f = ix.func(EL + nm)
        # the comprehension variable ranging over jump_operators
        comps = [n for n in own_nodes(f.node) if isinstance(n, ast.comprehension) and unparse(n.iter) == "jump_operators" and isinstance(n.target, ast.Name)]
        if len(comps) != 1:
            rep.undecided("Q1", f, "terms", "expected one comprehension over jump_operators")
            continue
        var = comps[0].target.id
        lc = getattr(comps[0], "_parent", None)
        d = degree(lc.elt, var)
        results[nm] = d
        con = "degree of %s in the jump operators" % nm
        if d == 2:
            rep.holds("Q1", f, con, "degree 2", node=lc)
        elif d is None:
            rep.violation("Q1", f, con, "terms of different degree in the jump operator are added", node=lc)
        elif d == "?":
            rep.undecided("Q1", f, con, "expression outside the degree fragment")
        else:
            rep.violation("Q1", f, con, "each term %s has degree %s in the jump operator L; in the GKSL dissipator every term is quadratic "
                                        "(L (x) conj L and -1/2 (L-dagger L (x) I + I (x) conj(L-dagger L))): for L = sqrt(gamma) sigma_- the result is off "
                                        "by O(gamma) and Tr D(rho) != 0" % (unparse(lc.elt), d), node=lc)
    f = ix.func(EL + "generate_d_part_cb_from_jump_operators")
    r = returns(f)
    e = inline(f, r[0].value) if r else None
    ok = isinstance(e, ast.BinOp) and isinstance(e.op, ast.Add) and len(set(results.values())) == 1 and None not in results.values()
    rep.check(ok, "Q1", f, "D = J-part + K-part", "both parts have the same degree (%s)" % sorted(set(map(str, results.values()))),
              "the dissipator adds parts of degree %s in the jump operators: it is not homogeneous, so scaling L by c does not scale D by c^2" % results,
              node=r[0] if r else f.node)
    for nm, var in (("_calc_h_part_from_h_mat", "h_mat"), ("_calc_j_part_from_j_mat", "j_mat")):
        f = ix.func(EL + nm)
        r = returns(f)
        d = degree(inline(f, r[0].value), var) if r else "?"
        rep.check(d == 1, "Q1", f, "degree of %s in %s" % (nm, var), "linear", "degree %s (must be linear)" % d, node=r[0] if r else f.node)


# ------------------------------------------------------------------------------ Q2
def _q2(ctx, rep, cls: Class):
    ix = ctx.ix
    base = ix.cls("quara.objects.qoperation.QOperation")
    gfv = base.methods["generate_from_var"]
    t = hook_target(ctx, cls, "_generate_from_var_func")
    sites = factory_call_sites(ctx, gfv, "_generate_from_var_func")
    if t is None or not sites or cls.lookup("generate_from_var") is not gfv:
        rep.undecided("Q2", cls.qualname, "slot", "EffectiveLindbladian does not use the base class's generate_from_var slot")
    else:
        _, errs = bind_call(sites[0], t, False)
        rep.check(not errs, "Q2", gfv, "EffectiveLindbladian via generate_from_var -> %s" % t.name, "call binds",
                  "%s cannot be called as QOperation.generate_from_var calls it: %s (every EffectiveLindbladian.generate_from_var raises TypeError)"
                  % (t.name, "; ".join(errs)), node=sites[0])
    # constraint constant: is_tp reference, projection value, inserted row
    ist = cls.methods["is_tp"]
    cmpc = [n for n in own_nodes(ist.node) if isinstance(n, ast.Call) and (dotted(n.func) or "").endswith("allclose")]
    ref = unparse(cmpc[0].args[1]) if cmpc and len(cmpc[0].args) > 1 else None
    proj = cls.methods["calc_proj_eq_constraint"]
    pst = [n for n in own_nodes(proj.node) if isinstance(n, ast.Assign) and isinstance(n.targets[0], ast.Subscript)]
    pval = unparse(pst[0].value) if pst else None
    conv = ix.func(EL + "convert_var_to_effective_lindbladian")
    ins = [n for n in own_nodes(conv.node) if isinstance(n, ast.Call) and (dotted(n.func) or "").endswith("insert")]
    row = ins[0].args[2] if ins and len(ins[0].args) > 2 else None
    row_is_zero = row is not None and isinstance(row, ast.Call) and (dotted(row.func) or "").split(".")[-1] == "zeros"
    row_is_e0 = row is not None and isinstance(row, ast.Call) and (dotted(row.func) or "").split(".")[-1] == "eye"
    same = ref == "0" and pval == "0" and row_is_zero
    why = "is_tp tests row 0 against %s, the equality projection writes %s, but convert_var_to_effective_lindbladian re-inserts %s as the " \
          "implied first row (%s): a physical generator does not survive to_var -> generate_from_var" % (
              ref, pval, unparse(row) if row is not None else None, "the gate's e0" if row_is_e0 else "not the same constant")
    rep.check(same, "Q2", conv, "implied first row of the generator", "one constant (the zero row) in verdict, projection and parametrisation", why,
              node=ins[0] if ins else conv.node)
    # self.__class__(...) slots used by inherited methods bind to EffectiveLindbladian.__init__
    n = 0
    for m in base.methods.values():
        for call in class_call_sites(ctx, m):
            if cls.lookup(m.name) is m:
                _, errs = bind_call(call, cls.lookup("__init__"), True)
                n += 1
                if errs:
                    rep.violation("Q2", m, "EffectiveLindbladian via %s -> __init__" % m.name, "; ".join(errs), node=call)
    if n:
        rep.holds("Q2", base.qualname, "self.__class__(...) slots for EffectiveLindbladian", "%d inherited constructor calls bind" % n,
                  file=base.module.relpath, line=base.node.lineno)


# ------------------------------------------------------------------------------ Q3
def _q3(ctx, rep):
    ix = ctx.ix
    base = ix.cls("quara.objects.qoperation.QOperation")
    for c in sorted(base.all_subclasses(), key=lambda c: c.qualname):
        for obj, var in (("calc_proj_eq_constraint", "calc_proj_eq_constraint_with_var"), ("calc_proj_ineq_constraint", "calc_proj_ineq_constraint_with_var")):
            if obj in c.methods:
                con = "%s overrides %s" % (c.name, obj)
                if var in c.methods:
                    rep.holds("Q3", c.methods[obj], con, "and its variable-level twin", node=c.methods[obj].node)
                else:
                    inh = c.lookup(var)
                    rep.violation("Q3", c.methods[obj], con, "%s overrides %s but inherits %s from %s: the optimiser closures and the variable-level "
                                                             "physical projection compute %s's projection, not this class's" % (
                                      c.name, obj, var, inh.cls.name if inh and inh.cls else "?", inh.cls.name if inh and inh.cls else "?"), node=c.methods[obj].node)


# ------------------------------------------------------------------------------ Q4
FAST_SLOW = [("_calc_j_mat_from_k_mat_with_sparsity", "_calc_j_mat_from_k_mat_slowly", "basishermitian_basis_T_from_1"),
             ("_calc_k_part_from_k_mat_with_sparsity", "_calc_k_part_from_slowly", "basis_basisconjugate_T_sparse_from_1")]


class _Subst(ast.NodeTransformer):
    def __init__(self, m):
        self.m = m

    def visit_Name(self, n):
        return self.m[n.id] if n.id in self.m else n


def _canon(e: ast.AST):
    """kron(a, b) / matrix-product normal form, as nested tuples of (text, conj, transposed)."""
    from ..matexpr import product
    if isinstance(e, ast.Call) and (dotted(e.func) or "").split(".")[-1] == "kron" and len(e.args) == 2:
        return ("kron", _canon(e.args[0]), _canon(e.args[1]))
    return tuple(product(e))


def _table_element(ctx, table: str):
    """(element expr in terms of alpha/beta names, (alpha, beta), offset) for the CompositeSystem table `table`; the layout is
    read off the builder by qsa.tables (shared with C02 R4)."""
    from ..tables import analyse_builders, Table
    t = analyse_builders(ctx).get("_" + table)
    if t is None:
        return None, "no store to self._%s" % table
    if not isinstance(t, Table):
        return None, t
    if not t.transposed or t.conj:
        return None, "self._%s is not <stacked rows>.T" % table
    if len(t.rows) != 2:
        return None, "table is not filled by one `for a, b in itertools.product(range(n), range(n))` loop"
    if t.elem_order != "C":
        return None, "appended element is flattened in %s order" % t.elem_order
    return (t.elem, tuple(t.rows), t.offset), None


def _q7(ctx, rep):
    f = ctx.ix.func("quara.objects.effective_lindbladian.EffectiveLindbladian.is_tp")
    from ..astutil import deep_inline
    calls = [n for n in own_nodes(f.node) if isinstance(n, ast.Call) and (dotted(n.func) or "").split(".")[-1] in ("allclose", "isclose") and n.args]
    if len(calls) != 1:
        rep.undecided("Q7", f, "first row", "expected one closeness comparison")
        return
    a = deep_inline(f, calls[0].args[0])
    row = isinstance(a, ast.Subscript) and unparse(a.value) in ("self.hs", "self._hs") and is_num(a.slice, 0)
    if row:
        rep.holds("Q7", f, "first row", "np.allclose(self.hs[0], 0, ...)", node=calls[0])
    elif isinstance(a, ast.Subscript) and "hs" in unparse(a):
        rep.violation("Q7", f, "first row", "the trace-preservation test looks at %s, not at the whole first row self.hs[0]: a generator whose defect sits in "
                                            "the entries left out is judged trace preserving" % unparse(a), node=calls[0])
    else:
        rep.undecided("Q7", f, "first row", "compared quantity %s not recognised" % unparse(a))


def _q6(ctx, rep):
    """calc_h_mat: H = sum_a  i/(2d) * Tr[ L_cb (B_a (x) I - I (x) conj(B_a)) ] * B_a  over ALL basis elements (orthonormal basis).
    Tr[(H (x) I - I (x) H^T) (B (x) I - I (x) conj B)] = 2d Tr[H B] for traceless B, hence the factor 1/(2d)."""
    from ..astutil import deep_inline
    from ..poly import Poly
    from .c03 import _size_poly, Undecided as _Und
    f = ctx.ix.func("quara.objects.effective_lindbladian.EffectiveLindbladian.calc_h_mat")
    con = "Hamiltonian coefficient"
    loops = [n for n in own_nodes(f.node) if isinstance(n, ast.For)]
    if len(loops) != 1:
        rep.undecided("Q6", f, con, "expected one loop over the basis")
        return
    lp = loops[0]
    it = unparse(deep_inline(f, lp.iter))
    if not it.endswith(".basis()") and "basis" not in it:
        rep.undecided("Q6", f, con, "the loop does not range over the basis (%s)" % it)
        return
    bdefs = {s_.targets[0].id: s_.value for s_ in lp.body if isinstance(s_, ast.Assign) and len(s_.targets) == 1 and isinstance(s_.targets[0], ast.Name)}
    # the scalar multiplying the trace: find 1j / DEN
    den = None
    for n in own_nodes(f.node):       # in the loop, or hoisted in front of it
        if isinstance(n, ast.BinOp) and isinstance(n.op, ast.Div) and isinstance(n.left, ast.Constant) and isinstance(n.left.value, complex) and n.left.value == 1j:
            den = n.right
    if den is None:
        rep.undecided("Q6", f, con, "no factor 1j / <normalisation> found in the loop")
        return

    def size(e):
        e = deep_inline(f, e)
        if isinstance(e, ast.Call) and dotted(e.func) == "len" and len(e.args) == 1 and "basis" in unparse(deep_inline(f, e.args[0])):
            return Poly.sym("d") ** 2          # a basis of d x d matrices has d^2 elements
        if isinstance(e, ast.BinOp) and isinstance(e.op, ast.Mult):
            return size(e.left) * size(e.right)
        if isinstance(e, ast.BinOp) and isinstance(e.op, ast.Pow):
            return size(e.left) ** size(e.right)
        return _size_poly(e, f)
    try:
        p = size(den)
    except (_Und, ValueError) as ex:
        rep.undecided("Q6", f, con, "normalisation %s: %s" % (unparse(den), ex))
        return
    want = Poly.const(2) * Poly.sym("d")
    rep.check(p == want, "Q6", f, con, "i / (2 d)", "the normalisation is %r; the trace identity gives 2d (they agree for d = 2 only, so a qutrit or "
              "two-qubit Hamiltonian is scaled by 2/d)" % p, node=den)


def _q4(ctx, rep):
    from ..astutil import clone
    ix = ctx.ix
    for fast_n, slow_n, table in FAST_SLOW:
        fast, slow = ix.func(EL + fast_n), ix.func(EL + slow_n)
        con = "%s vs %s" % (fast_n, slow_n)
        te, why = _table_element(ctx, table)
        if te is None:
            rep.undecided("Q4", fast, con, "table %s: %s" % (table, why))
            continue
        elem, (a, b), off = te
        # fast: <c_sys>.<table>.dot(ARG)
        dots = [n for n in own_nodes(fast.node) if isinstance(n, ast.Call) and isinstance(n.func, ast.Attribute) and n.func.attr == "dot"
                and isinstance(n.func.value, ast.Attribute) and n.func.value.attr == table and len(n.args) == 1]
        if len(dots) != 1:
            rep.undecided("Q4", fast, con, "expected one `c_sys.%s.dot(...)`" % table)
            continue
        argx = dots[0].args[0]
        km = fast.params[0]
        t = unparse(argx).replace(" ", "").replace('"', "'")
        row_major = ("%s.flatten()" % km, "%s.ravel()" % km, "%s.reshape(-1)" % km, "%s.flatten('C')" % km, "%s.flatten(order='C')" % km)
        col_major = ("%s.T.flatten()" % km, "%s.flatten('F')" % km, "%s.flatten(order='F')" % km, "%s.T.ravel()" % km, "%s.transpose().flatten()" % km,
                     "%s.T.reshape(-1)" % km)
        if t in row_major:
            swapped = False
        elif t in col_major:
            swapped = True
        else:
            rep.undecided("Q4", fast, con, "coefficient vector `%s` is outside the recognised flattenings of %s" % (unparse(argx), km))
            continue
        # slow: for r in range(K.shape[0]): for c in range(K.shape[..]): term = K[r, c] * G; acc += term
        sk = slow.params[0]
        outer = [n for n in own_nodes(slow.node) if isinstance(n, ast.For) and isinstance(n.target, ast.Name)
                 and unparse(n.iter).startswith("range(%s.shape[" % sk)]
        inner = [m for n in outer for m in n.body if isinstance(m, ast.For) and isinstance(m.target, ast.Name)
                 and unparse(m.iter).startswith("range(%s.shape[" % sk)]
        if len(inner) != 1:
            rep.undecided("Q4", slow, con, "reference implementation is not a double loop over the coefficient matrix")
            continue
        term = None
        for n in ast.walk(inner[0]):
            if isinstance(n, ast.BinOp) and isinstance(n.op, ast.Mult) and isinstance(n.left, ast.Subscript) and unparse(n.left.value) == sk \
                    and isinstance(n.left.slice, ast.Tuple) and len(n.left.slice.elts) == 2 and all(isinstance(x, ast.Name) for x in n.left.slice.elts):
                term = n
        if term is None:
            rep.undecided("Q4", slow, con, "reference term is not K[r, c] * <matrix expression>")
            continue
        r, c = term.left.slice.elts[0].id, term.left.slice.elts[1].id
        first, second = (c, r) if swapped else (r, c)     # entry number i*(n)+j of the vector is K[first=i, second=j]

        def plus(nm):
            return ast.BinOp(left=ast.Name(id=nm, ctx=ast.Load()), op=ast.Add(), right=ast.Constant(value=off)) if off else ast.Name(id=nm, ctx=ast.Load())
        # table row i*(n)+j holds elem(alpha=i+off, beta=j+off)
        got = _Subst({a: plus(first), b: plus(second)}).visit(clone(elem))
        ast.fix_missing_locations(got)
        cg, cw = _canon(got), _canon(term.right)
        ok = cg == cw
        rep.check(ok, "Q4", fast, con, "row (i, j) of %s is %s = coefficient K[%s, %s] of the reference sum" % (table, unparse(got), first, second),
                  "the sparse path multiplies K[%s, %s] by %s (table %s, coefficient vector `%s`), the reference implementation %s multiplies it "
                  "by %s" % (first, second, unparse(got), table, unparse(argx), slow_n, unparse(term.right)), node=dots[0])


# ------------------------------------------------------------------------------ Q5
def _q5(ctx, rep, cls: Class):
    """is_cp judges the dissipator matrix itself: the value handed to the PSD test is calc_k_mat() (or its Hermitian part
    built with the adjoint).  A symmetrisation with the plain transpose keeps Re K only and hides negative directions
    that come from the imaginary antisymmetric part."""
    from ..matexpr import product
    f = cls.methods["is_cp"]
    calls = [n for n in own_nodes(f.node) if isinstance(n, ast.Call) and (dotted(n.func) or "").endswith("is_positive_semidefinite")]
    if len(calls) != 1 or not calls[0].args:
        rep.undecided("Q5", f, "PSD test", "expected one call of is_positive_semidefinite")
        return
    call = calls[0]
    binds = {}
    for n in sorted((x for x in own_nodes(f.node) if isinstance(x, ast.Assign) and len(x.targets) == 1 and isinstance(x.targets[0], ast.Name)),
                    key=lambda x: x.lineno):
        binds.setdefault(n.targets[0].id, []).append(n.value)

    def is_k(e):
        while isinstance(e, ast.Name) and e.id in binds and len(binds[e.id]) >= 1:
            cands = [b for b in binds[e.id] if not any(isinstance(x, ast.Name) and x.id == e.id for x in ast.walk(b))]
            if len(cands) != 1:
                return False
            e = cands[0]
        return unparse(e) == "self.calc_k_mat()"
    arg = call.args[0]
    # follow the last binding of a name
    if isinstance(arg, ast.Name) and arg.id in binds:
        last = binds[arg.id][-1]
    else:
        last = arg
    if is_k(last):
        rep.holds("Q5", f, call, "PSD test on calc_k_mat() itself", node=call)
        return
    # (X + Y) / 2 or 0.5 * (X + Y)
    e = last
    half = False
    if isinstance(e, ast.BinOp) and isinstance(e.op, ast.Div) and is_num(e.right, 2):
        e, half = e.left, True
    elif isinstance(e, ast.BinOp) and isinstance(e.op, ast.Mult) and (is_num(e.left, 0.5) or is_num(e.right, 0.5)):
        e, half = (e.right if is_num(e.left, 0.5) else e.left), True
    if half and isinstance(e, ast.BinOp) and isinstance(e.op, ast.Add):
        pl, pr = product(e.left), product(e.right)
        if len(pl) == 1 and len(pr) == 1 and pl[0][0] == pr[0][0] and is_k(ast.parse(pl[0][0], mode="eval").body if pl[0][0] not in binds else ast.Name(id=pl[0][0], ctx=ast.Load())):
            a, b = pl[0], pr[0]
            plain = (a[1], a[2]) == (False, False) or (b[1], b[2]) == (False, False)
            other = b if (a[1], a[2]) == (False, False) else a
            if plain and other[1] and other[2]:
                rep.holds("Q5", f, call, "PSD test on the Hermitian part (K + K†)/2", node=call)
                return
            if plain and other[2] and not other[1]:
                rep.violation("Q5", f, call, "the PSD test is applied to (K + K^T)/2 = Re K for Hermitian K: the conjugate is missing, so a dissipator "
                              "matrix whose negative direction comes from its imaginary antisymmetric part is judged completely positive",
                              node=call)
                return
    rep.undecided("Q5", f, call, "value handed to the PSD test (`%s`) is neither calc_k_mat() nor its Hermitian part" % unparse(last))
