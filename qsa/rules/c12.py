"""C12 - loss functions: weighting modes take effect, derived weights are fresh, shapes agree,
value/gradient/Hessian read the same fields, squared-error derivative schema."""
from __future__ import annotations

import ast
from fractions import Fraction

from ..astutil import const, inline, is_num, kwarg, returns, single_defs, unparse, NOCONST, body_wo_doc
from ..defined import Definedness
from ..index import AnalysisError, Class, Func, dotted, own_nodes
from ..matexpr import product_nodes
from ..poly import Poly
from ..shapes import ShapeEnv
from ..typestate import FieldFlow

LF = "quara.loss_function."
CLASSES = {
    # loss class -> (option class, weight field, derived field or None, builder)
    LF + "weighted_probability_based_squared_error.WeightedProbabilityBasedSquaredError":
        (LF + "weighted_probability_based_squared_error.WeightedProbabilityBasedSquaredErrorOption", "_weight_matrices", None),
    LF + "weighted_relative_entropy.WeightedRelativeEntropy":
        (LF + "weighted_relative_entropy.WeightedRelativeEntropyOption", "_weights", None),
    LF + "standard_qtomography_based_weighted_probability_based_squared_error.StandardQTomographyBasedWeightedProbabilityBasedSquaredError":
        (LF + "standard_qtomography_based_weighted_probability_based_squared_error.StandardQTomographyBasedWeightedProbabilityBasedSquaredErrorOption",
         "_weight_matrices", "_extend_weight_matrix"),
    LF + "standard_qtomography_based_weighted_relative_entropy.StandardQTomographyBasedWeightedRelativeEntropy":
        (LF + "standard_qtomography_based_weighted_relative_entropy.StandardQTomographyBasedWeightedRelativeEntropyOption",
         "_weights", "_extend_weights"),
}
ENTRY = "set_from_standard_qtomography_option_data"
HOOK = "_set_weights_by_mode"


def accepted_modes(ctx, oc: Class):
    """Modes the option constructor lets through (first class in the MRO that validates)."""
    for c in oc.mro():
        init = c.methods.get("__init__")
        if init is None:
            continue
        for n in own_nodes(init.node):
            if isinstance(n, ast.If):
                t = n.test
                neg = False
                if isinstance(t, ast.UnaryOp) and isinstance(t.op, ast.Not):
                    t, neg = t.operand, True
                from ..astutil import literal_seq
                lit = literal_seq(init, t.comparators[0]) if isinstance(t, ast.Compare) and len(t.ops) == 1 else None
                from ..astutil import deep_inline, conjuncts

                def is_mode(e):
                    # the parameter itself, or a local that carries it (`"custom" if weights is not None else mode_weight`)
                    return any(isinstance(x, ast.Name) and x.id == "mode_weight" for x in ast.walk(deep_inline(init, e)))
                if isinstance(t, ast.Compare) and len(t.ops) == 1 and is_mode(t.left) and lit is not None:
                    isin = isinstance(t.ops[0], ast.In)
                    if (neg and isin) or (not neg and isinstance(t.ops[0], ast.NotIn)):
                        if any(isinstance(x, ast.Raise) for x in n.body):
                            return [const(x) for x in lit.elts], init
                # `if m != 'a' and m != 'b': raise`
                if any(isinstance(x, ast.Raise) for x in n.body):
                    cj = conjuncts(n.test, True)
                    if cj and len(cj) >= 2 and all(pol is False and isinstance(nd, ast.Compare) and len(nd.ops) == 1 and is_mode(nd.left)
                                                    and isinstance(const(nd.comparators[0]), str) for _, pol, nd in cj):
                        return [const(nd.comparators[0]) for _, _, nd in cj], init
    return None, None


def hook_branches(hook: Func):
    """mode literal -> branch body, for an if/elif chain on `mode_weight == '...'` (with `or`)."""
    out = {}
    for n in own_nodes(hook.node):
        if isinstance(n, ast.If):
            tests = n.test.values if isinstance(n.test, ast.BoolOp) and isinstance(n.test.op, ast.Or) else [n.test]
            lits = []
            for t in tests:
                if isinstance(t, ast.Compare) and len(t.ops) == 1 and isinstance(t.ops[0], ast.Eq) and unparse(t.left) == "mode_weight":
                    lits.append(const(t.comparators[0]))
                elif isinstance(t, ast.Compare) and len(t.ops) == 1 and isinstance(t.ops[0], ast.In) and unparse(t.left) == "mode_weight" \
                        and isinstance(t.comparators[0], (ast.List, ast.Tuple)):
                    lits += [const(x) for x in t.comparators[0].elts]
                else:
                    lits = []
                    break
            # only top-level chain members (not the nested re-test inside a branch)
            par = getattr(n, "_parent", None)
            top = par is hook.node or (isinstance(par, ast.If) and n in par.orelse and _is_mode_if(par))
            if lits and top:
                for l in lits:
                    out.setdefault(l, n.body)
    # guard-clause spelling: `if mode_weight != 'a' and mode_weight != 'b': return` - what follows in the block handles a and b
    from ..astutil import conjuncts
    for n in own_nodes(hook.node):
        if isinstance(n, ast.If) and not n.orelse and n.body and isinstance(n.body[-1], (ast.Return, ast.Raise)):
            c = conjuncts(n.test, True)
            if not c:
                continue
            lits = []
            for t, pol, node in c:
                if isinstance(node, ast.Name):
                    # a test bound to a local first: is_sample = mode_weight == '...'
                    from ..astutil import single_defs as _sd
                    node = _sd(hook).get(node.id, node)
                if pol is False and isinstance(node, ast.Compare) and len(node.ops) == 1 and unparse(node.left) == "mode_weight" \
                        and isinstance(node.ops[0], (ast.Eq, ast.NotEq)) and isinstance(const(node.comparators[0]), str):
                    lits.append(const(node.comparators[0]))
                else:
                    lits = []
                    break
            par = getattr(n, "_parent", None)
            blk = getattr(par, "body", None)
            if lits and isinstance(blk, list) and any(n is x for x in blk):
                rest = blk[[i for i, x in enumerate(blk) if x is n][0] + 1:]
                for l in lits:
                    out.setdefault(l, rest)
    return out


def _is_mode_if(n):
    return isinstance(n, ast.If) and "mode_weight" in unparse(n.test)


def run(ctx, rep):
    ix = ctx.ix
    rep.rule("W1", "every weighting mode the option class accepts has a branch in the weight hook the loss class resolves to, every "
                   "self-call in the hook resolves, and every non-identity branch must-writes the weight field", floor=10)
    rep.rule("W2", "fast losses: the derived (extended) weights are rebuilt after the weights change, on every path of the "
                   "configuration entry point and of the public weight setter", floor=4)
    rep.rule("W3", "the identity mode resets the weight field (otherwise a re-used loss keeps the previous dataset's weights)", floor=2)
    rep.rule("W4", "every subscript store in the weight hook is shape-compatible for every outcome count", floor=2)
    rep.rule("W5", "value, gradient and Hessian of a class read the same weight and data fields", floor=4)
    rep.rule("W7", "generic losses: the model of schedule i is rows [size*i, size*(i+1)) of matA and the SAME rows of vecB (value), and "
                   "row size*i + k, k < size (gradient)", floor=3)
    rep.rule("W6", "squared error: gradient = 2*sum B(dv, v), Hessian = 2*sum [B(dv_a, dv_b) + B(d2v, v)] for value = sum B(v, v), "
                   "v = p(x) - q (fast path 2 A^T W (A x + b - q)); relative entropy: value/gradient/Hessian use the same (q, p) order "
                   "and the same weight factor", floor=6)
    rep.rule("W8", "loss functions: no loop reads a variable that only an EARLIER loop binds (the value left behind by that loop - e.g. the shot "
                   "count of the last schedule entry - would be used for every item)", floor=1)
    from ..loops import stale_loop_variable_reads, count_loops
    PFX = ("quara.loss_function", "quara.interface.cvxpy.qtomography.standard.loss_function")
    stale = list(stale_loop_variable_reads(ctx, PFX))
    for f_, x_, lp_ in stale:
        rep.violation("W8", f_, "%s read at line %d" % (x_.id, x_.lineno), "`%s` is bound only by the loop at line %d, which has ended; the code that reads it here "
                      "gets the value of that loop's LAST item (a per-item computation or check that is no longer inside its loop)" % (x_.id, lp_.lineno), node=x_)
    nl = count_loops(ctx, PFX)
    if nl and not stale:
        rep.holds("W8", "quara.loss_function", "%d loops" % nl, "every loop variable is read inside its own loop (or after it, outside any loop)")
    elif not nl:
        rep.undecided("W8", "quara.loss_function", "loops", "no loops found")
    d = Definedness(ctx.res)
    for cq, (oq, wfield, dfield) in CLASSES.items():
        c = ix.cls(cq)
        oc = ix.cls(oq)
        ff = FieldFlow(ctx, c)
        modes, where = accepted_modes(ctx, oc)
        hook = c.lookup(HOOK)
        if modes is None or hook is None:
            rep.undecided("W1", cq, "modes", "cannot read accepted modes / weight hook")
            continue
        branches = hook_branches(hook)
        # definedness of the hook actually used, and of a same-purpose sibling that is never called
        for p in d.check(hook):
            if p.kind in ("no-such-attribute", "undefined-name", "call-does-not-bind"):
                rep.violation("W1", hook, p.node, p.text, node=p.node)
        for m in modes:
            con = "%s accepts mode '%s'" % (oc.name, m)
            body = branches.get(m)
            if body is None:
                own_hooks = [x for k in c.mro() for x in k.methods if "weight" in x and "mode" in x and x != HOOK]
                hint = (" (the class defines %s, which nothing calls)" % own_hooks) if own_hooks else ""
                rep.violation("W1", hook, con, "mode '%s' is accepted by %s but %s.%s (the hook %s resolves to) has no branch for it: "
                                               "the mode silently does nothing%s" % (m, oc.name, hook.cls.name, HOOK, c.name, hint), node=hook.node)
                continue
            if m == "identity":
                # W3
                w = _branch_must_writes(ctx, ff, hook, body)
                rep.check(wfield in w, "W3", hook, "%s identity branch of %s" % (c.name, hook.cls.name),
                          "identity resets %s" % wfield,
                          "the 'identity' branch leaves %s untouched: a loss object configured with custom/covariance weights before "
                          "keeps them" % wfield, node=body[0])
                rep.holds("W1", hook, con, "branch present")
                continue
            w = _branch_must_writes(ctx, ff, hook, body)
            if wfield in w:
                rep.holds("W1", hook, con, "branch must-writes %s" % wfield, node=body[0])
            else:
                rep.violation("W1", hook, con, "the branch for '%s' does not (on every path) write %s, the field value/gradient read" % (m, wfield), node=body[0])
        # ---- W2
        if dfield is not None:
            entry = c.lookup(ENTRY)
            for e, label in ((entry, "configuration entry point"), (c.lookup("set_weight_matrices" if wfield == "_weight_matrices" else "set_weights"), "public weight setter")):
                if e is None:
                    rep.undecided("W2", cq, label, "entry point not found")
                    continue
                st = set()
                for s0 in ("F", "S"):
                    st |= ff.freshness(e, {wfield}, dfield, s0)
                con = "%s.%s keeps %s fresh" % (c.name, e.name, dfield)
                if "S" in st:
                    rep.violation("W2", e, con, "after %s (%s) the derived field %s may be stale: %s is (re)written after the last rebuild, so "
                                                "value/gradient use the weights of an earlier configuration (or none)" % (e.name, label, dfield, wfield), node=e.node)
                else:
                    rep.holds("W2", e, con, "%s is rebuilt after every write of %s" % (dfield, wfield), node=e.node)
        # ---- W5
        val, grad, hes = c.lookup("value"), c.lookup("gradient"), c.lookup("hessian")
        sets = {}
        for nm, m in (("value", val), ("gradient", grad), ("hessian", hes)):
            if m is None:
                continue
            body = body_wo_doc(m.node)
            if len(body) == 1 and isinstance(body[0], ast.Raise):
                continue
            sets[nm] = ff.reads(m)
        wf = {k: {a for a in v if "weight" in a} for k, v in sets.items()}
        df = {k: {a for a in v if "prob_dists_q" in a} for k, v in sets.items()}
        ok = len({frozenset(x) for x in wf.values()}) == 1 and len({frozenset(x) for x in df.values()}) == 1
        rep.check(ok, "W5", cq, "fields read by value/gradient/hessian of %s" % c.name, "weights %s, data %s" % (sorted(next(iter(wf.values()))), sorted(next(iter(df.values())))),
                  "value/gradient/hessian read different fields: weights %s, data %s" % ({k: sorted(v) for k, v in wf.items()}, {k: sorted(v) for k, v in df.items()}),
                  file=c.module.relpath, line=c.node.lineno)
    _w4(ctx, rep)
    _w6(ctx, rep)
    _w7(ctx, rep)


def _branch_must_writes(ctx, ff: FieldFlow, hook: Func, body):
    """Attributes definitely written by executing `body` (a branch of the hook)."""
    acc = None
    # straight-line approximation: statements at the top level of the branch
    must = set()
    for st in body:
        if isinstance(st, (ast.If, ast.For, ast.While, ast.Try, ast.With)):
            # a loop body may not run; an if must write on both sides
            if isinstance(st, ast.If) and st.orelse:
                a = _branch_must_writes(ctx, ff, hook, st.body)
                b = _branch_must_writes(ctx, ff, hook, st.orelse)
                must |= (a & b)
            continue
        must |= ff.direct_stores(st, hook.self_name)
        for n in ast.walk(st):
            if isinstance(n, ast.Call):
                c = ff.callee(hook, n)
                if c is not None:
                    must |= ff.must_writes(c)
    return must


# ------------------------------------------------------------------------------ W4
def _w4(ctx, rep):
    hook = ctx.ix.func(LF + "weighted_probability_based_squared_error.WeightedProbabilityBasedSquaredError._set_weights_by_mode")
    def sub_stores(fn):
        return [n for n in own_nodes(fn.node) if isinstance(n, ast.Assign) and len(n.targets) == 1 and isinstance(n.targets[0], ast.Subscript)]
    stores = sub_stores(hook)
    if not stores:
        # the per-distribution computation may live in a private helper the hook calls
        for n in own_nodes(hook.node):
            if isinstance(n, ast.Call):
                t = None
                if isinstance(n.func, ast.Name):
                    t = ctx.ix.scope_lookup(hook.module, hook, n.func.id)
                elif isinstance(n.func, ast.Attribute) and isinstance(n.func.value, ast.Name) and n.func.value.id == hook.self_name and hook.cls is not None:
                    t = hook.cls.lookup(n.func.attr)
                if isinstance(t, Func) and t.name.startswith("_") and sub_stores(t):
                    hook = t
                    stores = sub_stores(t)
                    break
    if not stores:
        rep.undecided("W4", hook, "stores", "no subscript store found")
        return
    for st in stores:
        env = ShapeEnv()
        # the covariance matrix of an m-outcome distribution is m x m
        m = Poly.sym("m")
        env.shape["covariance_mat"] = (m, m)
        env.scalar["num_data"] = Poly.sym("N")
        # walk the enclosing block in order up to the store
        blk = _enclosing_stmts(hook, st)
        cond = _path_literals(st)
        for s in blk:
            if s is st:
                break
            if isinstance(s, ast.Assign) and len(s.targets) == 1:
                t = s.targets[0]
                if isinstance(t, ast.Name):
                    if t.id == "covariance_mat":
                        continue
                    sh = env.sh(s.value)
                    env.shape[t.id] = sh
                    sc = env.sc(s.value)
                    if sc is not None:
                        env.scalar[t.id] = sc
                elif isinstance(t, ast.Tuple) and isinstance(s.value, ast.Attribute) and s.value.attr == "shape":
                    sh = env.sh(s.value.value)
                    if sh is not None and len(sh) == len(t.elts):
                        for nm, dim in zip(t.elts, sh):
                            if isinstance(nm, ast.Name):
                                env.scalar[nm.id] = dim
        sub = dict(cond)
        tgt = env.sh(st.targets[0])
        val = env.sh(st.value)
        if tgt is None or val is None:
            # scalar element stores
            if tgt == () or (tgt is not None and len(tgt) == 0):
                rep.holds("W4", hook, st, "scalar element store", node=st)
            else:
                rep.undecided("W4", hook, st, "shape of %s or %s unknown" % (unparse(st.targets[0]), unparse(st.value)))
            continue
        tgt = tuple(x.subst(sub) for x in tgt)
        val = tuple(x.subst(sub) for x in val)
        one = Poly.const(1)
        ok = len(val) <= len(tgt) and all(a == b or b == one for a, b in zip(tgt[len(tgt) - len(val):], val))
        label = ", ".join("%s=%s" % kv for kv in sorted(cond.items())) or "generic outcome count m"
        if ok:
            rep.holds("W4", hook, st, "target %s <- value %s [%s]" % (list(tgt), list(val), label), node=st, label=label)
        else:
            rep.violation("W4", hook, st, "target slice has shape %s but the stored value has shape %s (covariance is m x m; %s): numpy cannot "
                                          "broadcast this for m >= 3" % (list(tgt), list(val), label), node=st, label=label)


def _enclosing_stmts(func: Func, st):
    """Statements that execute before `st` on the way from the start of its innermost loop body / function."""
    chain = []
    cur = st
    while True:
        par = getattr(cur, "_parent", None)
        if par is None:
            break
        if isinstance(par, (ast.FunctionDef, ast.AsyncFunctionDef)):
            if cur in par.body:
                chain = par.body[: par.body.index(cur)] + chain
            break
        for field in ("body", "orelse"):
            blk = getattr(par, field, None)
            if isinstance(blk, list) and cur in blk:
                chain = blk[: blk.index(cur)] + chain
        if isinstance(par, (ast.For, ast.While)):
            break
        cur = par
    return chain + [st]


def _path_literals(st):
    """row == 2 and col == 2 style equalities on the path to `st` -> substitution (then-branches only)."""
    sub = {}
    cur = st
    par = getattr(cur, "_parent", None)
    while par is not None and not isinstance(par, (ast.FunctionDef,)):
        if isinstance(par, ast.If) and cur in par.body:
            tests = par.test.values if isinstance(par.test, ast.BoolOp) and isinstance(par.test.op, ast.And) else [par.test]
            for t in tests:
                if isinstance(t, ast.Compare) and len(t.ops) == 1 and isinstance(t.ops[0], ast.Eq) and isinstance(t.left, ast.Name):
                    c = const(t.comparators[0])
                    if isinstance(c, int) and t.left.id in ("row", "col"):
                        sub["m"] = Poly.const(c)
        cur, par = par, getattr(par, "_parent", None)
    return sub


# ------------------------------------------------------------------------------ W6
class Bil:
    """Multiset of bilinear terms coef * B_w(a, b) (symmetric in a, b); atoms are strings, w is the
    weight of the form: 'W' (the index's weight matrix) or 'I' (plain dot product)."""

    def __init__(self, terms=None):
        self.t = {}
        for (a, b, w), c in (terms or {}).items():
            k = tuple(sorted((a, b))) + (w,)
            self.t[k] = self.t.get(k, 0) + c
        self.t = {k: v for k, v in self.t.items() if v != 0}

    def __add__(self, o):
        d = dict(self.t)
        for k, v in o.t.items():
            d[k] = d.get(k, 0) + v
        return Bil(d)

    def scale(self, c):
        return Bil({k: v * c for k, v in self.t.items()})

    def __eq__(self, o):
        return self.t == o.t

    def __repr__(self):
        return " + ".join("%s*B_%s(%s, %s)" % (v, w, a, b) for (a, b, w), v in sorted(self.t.items())) or "0"


def _d(atom: str, var: str) -> str:
    """derivative of an atom w.r.t. index `var` (a/b); '0' for constants."""
    if atom == "v":            # v = p(x) - q
        return "dv[%s]" % var
    if atom.startswith("dv["):
        other = atom[3:-1]
        return "d2v[%s]" % ",".join(sorted([other, var]))
    return "0"


def _dB(b: Bil, var: str) -> Bil:
    out = Bil()
    for (x, y, w), c in b.t.items():
        for a2, b2 in ((_d(x, var), y), (x, _d(y, var))):
            if a2 != "0" and b2 != "0":
                out = out + Bil({(a2, b2, w): c})
    return out


def _atom_of(e, defs, idx):
    """classify a vector expression of the generic squared-error code."""
    e2 = e
    for _ in range(4):
        if isinstance(e2, ast.Name) and e2.id in defs:
            e2 = defs[e2.id]
    t = unparse(e2)
    if t == "self.func_prob_dists[index](var) - self.prob_dists_q[index]":
        return "v"
    import re
    m = re.fullmatch(r"self\.func_gradient_prob_dists\[index\]\((\w+), var\)", t)
    if m:
        return "dv[%s]" % idx.get(m.group(1), m.group(1))
    m = re.fullmatch(r"self\.func_hessian_prob_dists\[index\]\((\w+), (\w+), var\)", t)
    if m:
        return "d2v[%s]" % ",".join(sorted([idx.get(m.group(1), m.group(1)), idx.get(m.group(2), m.group(2))]))
    return None


def _collect_bil(m: Func, idx, weighted=True):
    """Sum of B-terms appended to tmp_values in the innermost loop (weighted branch) and the outer factor."""
    # the method body specialised to one value of `self.weight_matrices` (every `if` on it is replaced by the branch taken; loops
    # are flattened: only the definitions and the appends of the innermost body matter here)
    def wtest(t):
        if isinstance(t, ast.UnaryOp) and isinstance(t.op, ast.Not):
            v = wtest(t.operand)
            return None if v is None else not v
        if unparse(t) in ("self.weight_matrices", "self._weight_matrices"):
            return True
        if isinstance(t, ast.Compare) and len(t.ops) == 1 and unparse(t.left) in ("self.weight_matrices", "self._weight_matrices") \
                and const(t.comparators[0]) is None and isinstance(t.ops[0], (ast.IsNot, ast.NotEq)):
            return True
        if isinstance(t, ast.Compare) and len(t.ops) == 1 and unparse(t.left) in ("self.weight_matrices", "self._weight_matrices") \
                and const(t.comparators[0]) is None and isinstance(t.ops[0], (ast.Is, ast.Eq)):
            return False
        return None

    def flat(stmts):
        out = []
        for s_ in stmts:
            if isinstance(s_, ast.If):
                w = wtest(s_.test)
                if w is None:
                    out.append(s_)
                else:
                    out += flat(s_.body if w == weighted else s_.orelse)
            elif isinstance(s_, (ast.For, ast.While)):
                out += flat(s_.body)
            else:
                out.append(s_)
        return out
    seq = flat(body_wo_doc(m.node))
    defs = {}
    twice = set()
    for s_ in seq:
        if isinstance(s_, ast.Assign) and len(s_.targets) == 1 and isinstance(s_.targets[0], ast.Name):
            if s_.targets[0].id in defs and unparse(defs[s_.targets[0].id]) != unparse(s_.value):
                twice.add(s_.targets[0].id)
            defs[s_.targets[0].id] = s_.value
    for k in twice:
        if k not in ("tmp_values", "val", "value"):
            defs.pop(k, None)
    total = None
    # the list of per-schedule terms: whichever list is summed with np.sum(...)
    summed = {unparse(c_.args[0]) for c_ in ast.walk(m.node) if isinstance(c_, ast.Call) and (dotted(c_.func) or "").split(".")[-1] == "sum"
              and len(c_.args) == 1 and isinstance(c_.args[0], ast.Name)}
    apps = [n for s_ in seq for n in ast.walk(s_) if isinstance(n, ast.Call) and isinstance(n.func, ast.Attribute) and n.func.attr == "append"
            and unparse(n.func.value) in summed and len(n.args) == 1
            and any(isinstance(x, ast.Call) and (dotted(x.func) or "").startswith("multiply_veca_vecb") for x in ast.walk(_resolve_term(n.args[0], defs)))]
    if any(isinstance(s_, ast.If) for s_ in seq if any(a is x for a in apps for x in ast.walk(s_))):
        apps = []       # an append under a condition that is not the weight test
    for a in apps:
        b_ = _bil_expr(a.args[0], defs, idx)
        if b_ is None:
            total = None
            break
        total = b_ if total is None else total + b_
    outer = None
    for r in returns(m):
        e = r.value
        if isinstance(e, ast.BinOp) and isinstance(e.op, ast.Mult) and const(e.left) is not NOCONST:
            outer = const(e.left)
        elif isinstance(e, ast.BinOp) and isinstance(e.op, ast.Mult) and const(e.right) is not NOCONST:
            outer = const(e.right)
        else:
            outer = 1
    return total, outer


def _resolve_term(e, defs, depth=4):
    """e with the loop body's once-bound locals written out (to see whether it is built from the bilinear helpers)"""
    from ..symsum import subst
    for _ in range(depth):
        e = subst(e, defs)
    return e


def _bil_expr(e, defs, idx):
    if isinstance(e, ast.BinOp) and isinstance(e.op, ast.Add):
        l, r = _bil_expr(e.left, defs, idx), _bil_expr(e.right, defs, idx)
        return None if l is None or r is None else l + r
    if isinstance(e, ast.Name) and e.id in defs:
        return _bil_expr(defs[e.id], {k: v for k, v in defs.items() if k != e.id}, idx)
    fn = (dotted(e.func) or "") if isinstance(e, ast.Call) else ""
    if fn in ("multiply_veca_vecb_matc", "multiply_veca_vecb") and len(e.args) == (3 if fn.endswith("matc") else 2) and not e.keywords:
        a, b = _atom_of(e.args[0], defs, idx), _atom_of(e.args[1], defs, idx)
        if a is None or b is None:
            return None
        if fn.endswith("matc"):
            if unparse(e.args[2]) != "self.weight_matrices[index]":
                return None
            return Bil({(a, b, "W"): 1})
        return Bil({(a, b, "I"): 1})
    return None


def _w6(ctx, rep):
    ix = ctx.ix
    c = ix.cls(LF + "weighted_probability_based_squared_error.WeightedProbabilityBasedSquaredError")
    val, grad, hes = c.methods["value"], c.methods["gradient"], c.methods["hessian"]
    for weighted in (True, False):
        lab = "weighted" if weighted else "unweighted"
        v, vo = _collect_bil(val, {}, weighted)
        g, go = _collect_bil(grad, {"alpha": "a"}, weighted)
        h, ho = _collect_bil(hes, {"alpha": "a", "beta": "b"}, weighted)
        if v is None or g is None or h is None:
            rep.undecided("W6", val, "squared-error schema (%s)" % lab, "value/gradient/hessian terms are not sums of bilinear forms of p-q, dp, d2p")
            continue
        want_v = Bil({("v", "v", "W" if weighted else "I"): 1})
        rep.check(v == want_v and vo == 1, "W6", val, "value (%s)" % lab, "sum B(v, v)", "value is %s*(%r), expected sum B(v, v)" % (vo, v), node=val.node)
        want_g = _dB(want_v, "a")            # = 2 B(dv[a], v)
        got_g = g.scale(go)
        rep.check(got_g == want_g, "W6", grad, "gradient (%s)" % lab, "%r = d/dx_a value" % got_g,
                  "gradient is %r but the derivative of the value is %r" % (got_g, want_g), node=grad.node)
        want_h = _dB(want_g, "b")
        got_h = h.scale(ho)
        rep.check(got_h == want_h, "W6", hes, "hessian (%s)" % lab, "%r = d2/dx_a dx_b value" % got_h,
                  "Hessian is %r but the second derivative of the value is %r" % (got_h, want_h), node=hes.node)
    # fast path: value B(vec, vec; Wext), gradient 2 A^T Wext vec with vec = A x + b - q
    fc = ix.cls(LF + "standard_qtomography_based_weighted_probability_based_squared_error.StandardQTomographyBasedWeightedProbabilityBasedSquaredError")
    fv, fg = fc.methods["value"], fc.methods["gradient"]
    from .. import symsum
    MODEL = "self._matA @ var + self._vecB - self._prob_dists_q_flat"
    WNONE = "self._extend_weight_matrix is None"

    def norm_model(e):
        """text of e with the residual A x + b - q written canonically (so that it can be compared whatever locals were used)"""
        return unparse(e).replace(" ", "")
    for m, what in ((fv, "value"), (fg, "gradient")):
        cs = symsum.cases(m)
        if cs is None:
            rep.undecided("W6", m, "fast %s" % what, "too many paths")
            continue
        by_w = {}
        for c in symsum.returning(cs):
            g = {t: pol for t, pol, _ in c.guards}
            if WNONE not in g:
                continue
            by_w.setdefault(not g[WNONE], []).append(c)         # True = weighted
        for weighted in (True, False):
            lab = "weighted" if weighted else "unweighted"
            con = "fast %s (%s)" % (what, lab)
            cl = by_w.get(weighted)
            if not cl:
                rep.undecided("W6", m, con, "no path selected by `%s`" % WNONE)
                continue
            texts = {norm_model(c.value) for c in cl}
            if len(texts) != 1:
                rep.undecided("W6", m, con, "paths return different expressions: %s" % sorted(texts))
                continue
            e = cl[0].value
            V = MODEL.replace(" ", "")
            if what == "value":
                want = ("multiply_veca_vecb_matc(%s,%s,self._extend_weight_matrix)" % (V, V)) if weighted else ("multiply_veca_vecb(%s,%s)" % (V, V))
                got = norm_model(e)
                rep.check(got == want, "W6", m, con, "B(v, v) with v = A x + b - q", "fast value is %s; expected %s" % (unparse(e), want), node=m.node)
            else:
                facs = product_nodes(e)
                coef = 1
                if facs:
                    first = facs[0][0]
                    if isinstance(first, ast.BinOp) and isinstance(first.op, ast.Mult) and const(first.left) is not NOCONST:
                        coef = const(first.left)
                        facs = product_nodes(first.right) + facs[1:]
                tx = [(unparse(n).replace(" ", ""), c, t) for n, c, t in facs]
                want = [("self._matA", False, True)] + ([("self._extend_weight_matrix", False, False)] if weighted else []) + [("(%s)" % V, False, False)]
                tx = [(a if not a.startswith("(") else a, c, t) for a, c, t in tx]
                tx2 = [(a.strip("()") if a.strip("()") == V else a, c, t) for a, c, t in tx]
                want2 = [(a.strip("()") if a.strip("()") == V else a, c, t) for a, c, t in want]
                rep.check(coef == 2 and tx2 == want2, "W6", m, con, "2 A^T W v",
                          "fast gradient is %s * %s; the derivative of v^T W v with v = A x + b - q is 2 A^T W v" % (coef, tx2), node=m.node)
    # relative entropy: same (q, p) order and weight factor in value / gradient / hessian
    rc = ix.cls(LF + "weighted_relative_entropy.WeightedRelativeEntropy")
    sig = {}
    for nm in ("value", "gradient", "hessian"):
        m = rc.methods[nm]
        calls = [n for n in own_nodes(m.node) if isinstance(n, ast.Call) and "relative_entropy" in (dotted(n.func) or "")]
        forms = set()
        # the loop index over the schedules, whatever it is called
        idx = None
        for lp in own_nodes(m.node):
            if isinstance(lp, ast.For) and isinstance(lp.target, ast.Name) and any(cl is x for cl in calls for x in ast.walk(lp)):
                idx = lp.target.id
        defs = {}
        for n in own_nodes(m.node):
            if isinstance(n, ast.Assign) and len(n.targets) == 1 and isinstance(n.targets[0], ast.Name):
                defs.setdefault(n.targets[0].id, []).append(n.value)
        one = {k: v[0] for k, v in defs.items() if len(v) == 1}

        def norm(e):
            """text of e with once-bound locals replaced by their definitions and the loop index written as `index`"""
            from ..symsum import subst
            x = e
            for _ in range(4):
                x = subst(x, one)
            if idx:
                x = subst(x, {idx: ast.Name(id="index", ctx=ast.Load())})
            return unparse(x)
        for cl in calls:
            par = getattr(cl, "_parent", None)
            w = norm(par.left) if isinstance(par, ast.BinOp) and isinstance(par.op, ast.Mult) and par.right is cl else \
                (norm(par.right) if isinstance(par, ast.BinOp) and isinstance(par.op, ast.Mult) and par.left is cl else "1")
            forms.add((w, tuple(norm(a) for a in cl.args[:2])))
        sig[nm] = (frozenset(forms), None, None)
    DATA, MODEL_ = "self.prob_dists_q[index]", "self.func_prob_dists[index](var)"
    want_forms = frozenset({("self.weights[index]", (DATA, MODEL_)), ("1", (DATA, MODEL_))})
    for nm, (forms, q, p) in sig.items():
        ok = forms == want_forms
        q = sorted({f_[1][0] for f_ in forms})
        p = sorted({f_[1][1] for f_ in forms if len(f_[1]) > 1})
        rep.check(ok, "W6", rc.methods[nm], "relative entropy %s" % nm, "w_i * f(q_i, p_i(x))",
                  "%s uses %s with q=%s, p=%s; expected weights[index] * f(q, p) with q = data, p = model" % (nm, sorted(forms), q, p), node=rc.methods[nm].node)


# ------------------------------------------------------------------------------ W7: per-schedule blocks of the model
def _ipoly(e, defs, depth=0):
    """integer expression over names -> Poly (names are symbols; single local definitions are inlined)"""
    from ..poly import Poly
    from fractions import Fraction
    if depth > 8:
        raise ValueError("definition chain too deep")
    if isinstance(e, ast.Constant) and isinstance(e.value, int) and not isinstance(e.value, bool):
        return Poly.const(e.value)
    if isinstance(e, ast.Name):
        if e.id in defs:
            return _ipoly(defs[e.id], {k: v for k, v in defs.items() if k != e.id}, depth + 1)
        return Poly.sym(e.id)
    if isinstance(e, ast.BinOp) and isinstance(e.op, (ast.Add, ast.Sub, ast.Mult)):
        l, r = _ipoly(e.left, defs, depth + 1), _ipoly(e.right, defs, depth + 1)
        return l + r if isinstance(e.op, ast.Add) else (l - r if isinstance(e.op, ast.Sub) else l * r)
    if isinstance(e, ast.UnaryOp) and isinstance(e.op, ast.USub):
        return -_ipoly(e.operand, defs, depth + 1)
    if isinstance(e, (ast.Attribute, ast.Subscript, ast.Call)):
        # an opaque integer quantity (x.shape[0], len(xs), self._n ...): a symbol named by its text
        if isinstance(e, ast.Call) and (dotted(e.func) or "") == "int" and len(e.args) == 1:
            return _ipoly(e.args[0], defs, depth + 1)
        return Poly.sym(unparse(e))
    raise ValueError("not an integer polynomial: %s" % unparse(e))


def _w7(ctx, rep):
    from ..poly import Poly
    c = ctx.ix.cls(LF + "probability_based_loss_function.ProbabilityBasedLossFunction")
    for mname, arrays in (("_generate_func_prob_dist", ("matA", "vecB")), ("_generate_func_gradient_prob_dist", ("matA",))):
        m = c.methods.get(mname)
        if m is None:
            raise AnalysisError("%s not found" % mname)
        size_p = next((p for p in m.params if "size" in p), None)
        idx_p = next((p for p in m.params if p == "index"), None)
        if size_p is None or idx_p is None:
            rep.undecided("W7", m, "block", "parameters (size, index) not found")
            continue
        s, i = Poly.sym(size_p), Poly.sym(idx_p)
        nodes = list(ast.walk(m.node))
        defs = {}
        multi = set()
        for n in nodes:
            if isinstance(n, ast.Assign) and len(n.targets) == 1 and isinstance(n.targets[0], ast.Name):
                if n.targets[0].id in defs:
                    multi.add(n.targets[0].id)
                defs[n.targets[0].id] = n.value
        for k in multi:
            defs.pop(k, None)
        seen = {a: 0 for a in arrays}
        for n in nodes:
            if not (isinstance(n, ast.Subscript) and isinstance(n.value, ast.Name) and n.value.id in arrays and isinstance(n.ctx, ast.Load)):
                continue
            arr = n.value.id
            sl = n.slice
            row = sl.elts[0] if isinstance(sl, ast.Tuple) else sl
            con = "%s: %s" % (mname, unparse(n))
            try:
                if isinstance(row, ast.Slice):
                    if row.lower is None or row.upper is None or row.step is not None:
                        rep.violation("W7", m, con, "open or strided row range; schedule %s owns rows [%s*%s, %s*(%s+1))" % (idx_p, size_p, idx_p, size_p, idx_p), node=n)
                        continue
                    lo, hi = _ipoly(row.lower, defs), _ipoly(row.upper, defs)
                    ok = lo == s * i and hi - lo == s
                    rep.check(ok, "W7", m, con, "rows [%s*%s, +%s)" % (size_p, idx_p, size_p),
                              "rows [%r, %r) of %s are read for schedule %s; its block is [%s*%s, %s*%s + %s) (the matrix and the offset of one "
                              "schedule must come from the same rows)" % (lo, hi, arr, idx_p, size_p, idx_p, size_p, idx_p, size_p), node=n)
                    seen[arr] += 1
                else:
                    # single row: size*index + k with k ranging over range(size)
                    comp = next((g for p_ in nodes if isinstance(p_, (ast.ListComp, ast.GeneratorExp)) for g in p_.generators
                                 if isinstance(g.target, ast.Name) and any(isinstance(x, ast.Name) and x.id == g.target.id for x in ast.walk(row))), None)
                    if comp is None:
                        rep.undecided("W7", m, con, "row index is neither a slice nor offset + loop variable")
                        continue
                    k = comp.target.id
                    r = _ipoly(row, defs)
                    ok = r - Poly.sym(k) == s * i and unparse(comp.iter).replace(" ", "") == "range(%s)" % size_p
                    rep.check(ok, "W7", m, con, "row %s*%s + %s, %s in range(%s)" % (size_p, idx_p, k, k, size_p),
                              "row %r for %s in %s does not enumerate the block [%s*%s, +%s) of schedule %s" % (r, k, unparse(comp.iter), size_p, idx_p, size_p, idx_p),
                              node=n)
                    seen[arr] += 1
            except ValueError as ex:
                rep.undecided("W7", m, con, str(ex))
        for a, k in seen.items():
            if k == 0:
                rep.undecided("W7", m, "%s: use of %s" % (mname, a), "no block access of %s found" % a)
