"""C02 - representations: definedness, representation tags, basis-change conjugation,
sparse-table direction, slot conformance."""
from __future__ import annotations

import ast
import re

from ..astutil import const, inline, returns, single_defs, unparse
from ..defined import Definedness
from ..index import AnalysisError, Class, Func, dotted, own_nodes
from ..matexpr import fmt, is_adjoint_of, product
from ..resolve import bind_call
from ..slots import check_slots

MODS = ["quara.objects.state", "quara.objects.povm", "quara.objects.gate", "quara.objects.mprocess",
        "quara.objects.composite_system", "quara.objects.matrix_basis", "quara.utils.matrix_util",
        "quara.objects.qoperation"]

TAGS = {
    "var": "var", "vec": "vec", "vecs": "vecs", "hs": "hs", "hss": "hss", "choi": "choi",
    "density_matrix": "density_matrix", "density": "density_matrix", "matrix": "matrix", "matrices": "matrices",
    "kraus_matrices": "kraus", "kraus": "kraus", "process_matrix": "process_matrix",
    "state": "obj", "povm": "obj", "gate": "obj", "mprocess": "obj",
    "effective_lindbladian": "obj",
}
SUFFIXES = ("_with_sparsity", "_with_dict")


def conv_sig(name: str):
    """(arg tag, return tag) from the repo's naming convention, or None."""
    base = name
    for s in SUFFIXES:
        if base.endswith(s):
            base = base[: -len(s)]
    m = re.fullmatch(r"to_(\w+?)_from_(\w+)", base)
    if m and m.group(1) in TAGS and m.group(2) in TAGS:
        return TAGS[m.group(2)], TAGS[m.group(1)]
    m = re.fullmatch(r"convert_(\w+?)_to_(\w+)", base)
    if m and m.group(1) in TAGS and m.group(2) in TAGS and "index" not in base:
        return TAGS[m.group(1)], TAGS[m.group(2)]
    return None


def tagged_param(f: Func, tag: str):
    for p in f.params:
        if TAGS.get(p) == tag:
            return p
    return None


def run(ctx, rep):
    ix, res = ctx.ix, ctx.res
    rep.rule("R1", "every function of the conversion modules resolves all its names and attributes, binds every resolved call, "
                   "and does not use a method as an array value", floor=300)
    rep.rule("R2", "a value tagged with representation Y is only passed where Y is expected, and to_X_from_Y returns an X "
                   "(tags from the repo's own naming convention)", floor=25)
    rep.rule("R3", "basis changes conjugate where the formula does: convert_hs = U·hs·U† with U from vdot(to, from); "
                   "convert_vec = U·vec with the same U; Kraus -> HS uses kron(K, conj(K))", floor=3)
    rep.rule("R4", "sparse tables: builders give each table the conjugation/transposition its name states, each accessor guards "
                   "and returns its own field, and each *_with_sparsity conversion reads the table of its own direction", floor=12)
    rep.rule("R7", "dictionary fast paths: HS[a,b] = sum_rc conj(M_ab[r,c]) C[r,c] and C[r,c] = sum_ab HS[a,b] M_ab[r,c] with "
                   "M_ab = B_a (x) conj(B_b), read against the layout the dictionary builder actually stores", floor=2)
    rep.rule("R6", "an option (defaulted parameter) that both a conversion and its delegate accept under the same name is handed on, "
                   "so that the caller's choice (basis ordering mode, truncation threshold, constraint flag) governs every path", floor=40)
    rep.rule("R5", "functions reached through one slot (self.__class__(...), _generate_from_var_func()) bind the call made through it", floor=28)

    # ---------------------------------------------------------------------- R1
    d = Definedness(res)
    funcs = [f for f in ix.funcs.values() if f.module.name in MODS]
    for f in funcs:
        probs = d.check(f)
        hard = [p for p in probs if p.kind != "call-does-not-bind-some"]
        if hard:
            for p in hard:
                rep.violation("R1", f, p.node, "%s: %s" % (p.kind, p.text), node=p.node)
        else:
            rep.holds("R1", f, "definedness of %s" % f.name, "names, attributes and calls resolve", nontrivial=len(f.node.body) > 1)
        for p in probs:
            if p.kind == "call-does-not-bind-some":
                rep.info("R1", f, p.node, p.text, node=p.node)
    rep.stats["R1"] = dict(functions=len(funcs), names=d.names_checked, attribute_reads_typed=d.attrs_checked,
                           calls_resolved=d.calls_checked, calls_bound=d.calls_bound)

    # ---------------------------------------------------------------------- R2
    sigs = {}
    for f in ix.funcs.values():
        if f.module.name.startswith("quara.objects") and f.parent is None:
            s = conv_sig(f.name)
            if s and f.kind in ("function", "static"):
                p = tagged_param(f, s[0])
                if p:
                    sigs[f.qualname] = (f, p, s[0], s[1])
    rep.stats["R2_tagged_functions"] = len(sigs)
    n_calls = 0
    for f in ix.funcs.values():
        if not f.module.name.startswith("quara.objects"):
            continue
        vt = _var_tags(ctx, f, sigs)
        for n in own_nodes(f.node):
            if not isinstance(n, ast.Call):
                continue
            for t in res.resolve_call(f, n, by_name=False):
                if isinstance(t, Func) and t.qualname in sigs:
                    callee, p, atag, rtag = sigs[t.qualname]
                    binding, _ = bind_call(n, callee, False)
                    e = binding.get(p)
                    if e is None:
                        continue
                    et = _expr_tag(e, vt, f)
                    if et is None:
                        continue
                    n_calls += 1
                    if _compatible(et, atag):
                        rep.holds("R2", f, n, "%s-tagged %s -> parameter '%s' of %s" % (et, unparse(e), p, callee.name), node=n)
                    else:
                        rep.violation("R2", f, n, "a %s (%s) is passed as '%s' to %s, which converts from %s"
                                      % (et, unparse(e), p, callee.name, atag), node=n)
        # return tag of the function itself
        if f.qualname in sigs:
            _, pin, atag, rtag = sigs[f.qualname]
            for r in returns(f):
                if r.value is None:
                    continue
                if isinstance(r.value, ast.Name) and r.value.id == pin:
                    continue        # identity path (e.g. the parametrisation flag is off): the input is handed back as it came
                et = _expr_tag(r.value, vt, f, use_name=False)
                if et is None:
                    continue
                if _compatible(et, rtag):
                    rep.holds("R2", f, r, "returns a %s" % et, node=r)
                else:
                    rep.violation("R2", f, r, "%s returns a %s-tagged value, its name promises a %s" % (f.name, et, rtag), node=r)

    # ---------------------------------------------------------------------- R3
    _check_convert_hs(ctx, rep)
    _check_convert_vec(ctx, rep)
    _check_kraus_hs(ctx, rep)

    # ---------------------------------------------------------------------- R4
    _check_tables(ctx, rep)
    _check_table_orientation(ctx, rep)
    _check_option_forwarding(ctx, rep)
    _check_dict_paths(ctx, rep)

    # ---------------------------------------------------------------------- R5
    base = ix.cls("quara.objects.qoperation.QOperation")
    for m, c, call, filler, errs in check_slots(ctx, base):
        con = "%s via %s -> %s" % (c.name, m.name, filler)
        if c.name == "EffectiveLindbladian":
            continue  # reported under C18 (Q2)
        if c.name not in ("State", "Povm", "Gate", "MProcess"):
            rep.info("R5", m, con, "outside the four object types of this property: %s" % "; ".join(errs or ["binds"]), node=call)
            continue
        if errs:
            rep.violation("R5", m, con, "%s cannot be called as %s does: %s" % (filler, m.name, "; ".join(errs)), node=call)
        else:
            rep.holds("R5", m, con, "call binds", node=call)


def _compatible(a: str, b: str) -> bool:
    if a == b:
        return True
    fam = [{"density_matrix", "matrix"}, ]
    return any(a in s and b in s for s in fam)


def _var_tags(ctx, f: Func, sigs):
    """local name -> tag (parameters by name; locals from tagged call results; conflicting -> None)."""
    tags = {}
    for p in f.params:
        if p in TAGS and TAGS[p] != "obj":
            tags[p] = TAGS[p]
    assigned = {}
    for n in own_nodes(f.node):
        if isinstance(n, ast.Assign) and len(n.targets) == 1 and isinstance(n.targets[0], ast.Name) and isinstance(n.value, ast.Call):
            for t in ctx.res.resolve_call(f, n.value, by_name=False):
                if isinstance(t, Func) and t.qualname in sigs:
                    assigned.setdefault(n.targets[0].id, set()).add(sigs[t.qualname][3])
        elif isinstance(n, (ast.Assign, ast.AugAssign)):
            tg = n.targets if isinstance(n, ast.Assign) else [n.target]
            for t in tg:
                if isinstance(t, ast.Name):
                    assigned.setdefault(t.id, set()).add(None)
    for k, v in assigned.items():
        if len(v) == 1 and None not in v:
            tags[k] = next(iter(v))
        elif k in tags:
            del tags[k]
    return tags


def _expr_tag(e, vt, f: Func, use_name=True):
    if isinstance(e, ast.Name):
        return vt.get(e.id)
    if isinstance(e, ast.Attribute) and isinstance(e.value, ast.Name) and e.value.id == f.self_name:
        a = e.attr.lstrip("_")
        if a in TAGS and TAGS[a] != "obj":
            return TAGS[a]
    return None


# ------------------------------------------------------------------------------ R3
def _U_definition(f: Func, name: str):
    """`name = np.array(L).reshape(...)`, L = [vdot(a, b) for a, b in product(X, Y)] -> (X, Y, a-first?)"""
    defs = single_defs(f)
    e = defs.get(name)
    if e is None:
        # the matrix may be written in place (no local of its own): `name` is then the expression text
        try:
            e = ast.parse(name, mode="eval").body
        except SyntaxError:
            return None
        if isinstance(e, ast.Name):
            return None
    e = inline(f, e, defs=defs)
    # strip reshape / np.array
    while isinstance(e, ast.Call):
        dn = dotted(e.func) or ""
        if isinstance(e.func, ast.Attribute) and e.func.attr == "reshape":
            e = e.func.value
        elif dn.split(".")[-1] in ("array", "asarray") and e.args:
            e = e.args[0]
        else:
            break
    if not isinstance(e, (ast.ListComp, ast.GeneratorExp)):
        return None
    if len(e.generators) == 1:
        g = e.generators[0]
        if not (isinstance(g.iter, ast.Call) and (dotted(g.iter.func) or "").split(".")[-1] == "product" and len(g.iter.args) == 2):
            return None
        if not (isinstance(g.target, ast.Tuple) and len(g.target.elts) == 2 and all(isinstance(x, ast.Name) for x in g.target.elts)):
            return None
        t0, t1 = g.target.elts[0].id, g.target.elts[1].id
        it0, it1 = g.iter.args[0], g.iter.args[1]
    elif len(e.generators) == 2 and all(isinstance(g.target, ast.Name) and not g.ifs for g in e.generators):
        # for a in X for b in Y: the same enumeration as product(X, Y)
        t0, t1 = e.generators[0].target.id, e.generators[1].target.id
        it0, it1 = e.generators[0].iter, e.generators[1].iter
    else:
        return None
    el = e.elt
    if not (isinstance(el, ast.Call) and (dotted(el.func) or "").split(".")[-1] == "vdot" and len(el.args) == 2):
        return None
    a0, a1 = unparse(el.args[0]), unparse(el.args[1])
    return dict(outer=unparse(it0), inner=unparse(it1),
                conj_side=(it0 if a0 == t0 else it1 if a0 == t1 else None),
                plain_side=(it0 if a1 == t0 else it1 if a1 == t1 else None))


def _check_basis_change(ctx, rep, f: Func, vector: bool):
    rets = returns(f)
    if len(rets) != 1:
        rep.undecided("R3", f, "return", "expected one return")
        return
    defs = single_defs(f)
    # the transformation matrix is the local built from the vdot enumeration, whatever it is called; every other
    # local (U†, intermediate products, the result variable) is inlined
    u_names = [k for k in defs if _U_definition(f, k) is not None]
    # keep the outermost such name (a list local and the array built from it both qualify)
    u_keep = [k for k in u_names if not any(k != o and any(isinstance(x, ast.Name) and x.id == k for x in ast.walk(defs[o])) for o in u_names)]
    e = inline(f, rets[0].value, defs={k: v for k, v in defs.items() if k not in u_keep})
    p = product(e)
    want_len = 2 if vector else 3
    if len(p) != want_len:
        rep.undecided("R3", f, rets[0], "result %s is not a %d-factor product" % (fmt(p), want_len))
        return
    U = p[0]
    src = p[1]
    src_param = "from_vec" if vector else "from_hs"
    if src != (src_param, False, False):
        rep.violation("R3", f, rets[0], "middle factor is %s, expected the input %s" % (fmt([src]), src_param), node=rets[0])
        return
    if U[1] or U[2]:
        rep.violation("R3", f, rets[0], "left factor %s must be the plain change-of-basis matrix" % fmt([U]), node=rets[0])
        return
    if not vector and not is_adjoint_of(U, p[2]):
        rep.violation("R3", f, rets[0], "result is %s; a basis change of an HS matrix is U·hs·U† (right factor must be the "
                                        "conjugate transpose of the left one)" % fmt(p), node=rets[0])
        return
    ud = _U_definition(f, U[0])
    if ud is None:
        rep.undecided("R3", f, rets[0], "change-of-basis matrix %s is not [vdot(a, b) for a, b in product(X, Y)] reshaped" % U[0])
        return
    if ud["outer"] != "to_basis" or ud["inner"] != "from_basis":
        rep.violation("R3", f, rets[0], "U rows must run over to_basis and columns over from_basis (product(%s, %s))"
                      % (ud["outer"], ud["inner"]), node=rets[0])
        return
    if ud["conj_side"] is None or unparse(ud["conj_side"]) != "to_basis":
        rep.violation("R3", f, rets[0], "vdot conjugates its first argument; it must be the to_basis element (U_ab = <to_a, from_b>)",
                      node=rets[0])
        return
    rep.holds("R3", f, rets[0], "%s with U_ab = vdot(to_a, from_b)" % fmt(p), node=rets[0])


def _check_convert_hs(ctx, rep):
    _check_basis_change(ctx, rep, ctx.ix.func("quara.objects.gate.convert_hs"), vector=False)


def _check_convert_vec(ctx, rep):
    _check_basis_change(ctx, rep, ctx.ix.func("quara.objects.matrix_basis.convert_vec"), vector=True)


def _check_kraus_hs(ctx, rep):
    f = ctx.ix.func("quara.objects.gate.to_hs_from_kraus_matrices")
    krons = [n for n in ast.walk(f.node) if isinstance(n, ast.Call) and (dotted(n.func) or "").split(".")[-1] == "kron"]
    if len(krons) != 1 or len(krons[0].args) != 2:
        rep.undecided("R3", f, "kron", "expected one kron(K, conj K)")
        return
    a, b = product(krons[0].args[0]), product(krons[0].args[1])
    ok = len(a) == 1 and len(b) == 1 and a[0][0] == b[0][0] and not a[0][2] and not b[0][2] and (a[0][1] != b[0][1]) and not a[0][1]
    if ok:
        rep.holds("R3", f, krons[0], "kron(K, K*)", node=krons[0])
    else:
        rep.violation("R3", f, krons[0], "HS of a Kraus operator is kron(K, conj(K)); found kron(%s, %s)" % (fmt(a), fmt(b)), node=krons[0])


# ------------------------------------------------------------------------------ R4
TABLE_DIR = {
    # accessor -> (from tag family, to tag family)
    "basis_T_sparse": ("vec", "matrix"),
    "basisconjugate_sparse": ("matrix", "vec"),
    "basis_basisconjugate_T_sparse": ("hs", "choi"),
    "basisconjugate_basis_sparse": ("choi", "hs"),
}
FAMILY = {"vec": "vec", "vecs": "vec", "var": "vec", "matrix": "matrix", "matrices": "matrix", "density_matrix": "matrix",
          "hs": "hs", "hss": "hs", "choi": "choi"}
# field -> (conjugated?, transposed?) as its name states
POLARITY = {
    "_basis_T_sparse": (False, True),
    "_basisconjugate_sparse": (True, False),
    "_basisconjugate_basis_sparse": (True, False),
    "_basis_basisconjugate_T_sparse": (False, True),
    "_basis_basisconjugate_T_sparse_from_1": (False, True),
    "_basishermitian_basis_T_from_1": (False, True),
}


def _check_tables(ctx, rep):
    ix = ctx.ix
    cs = ix.cls("quara.objects.composite_system.CompositeSystem")
    # (a) accessors: guard on own field, call a builder that assigns it, return own field
    for acc, _ in list(TABLE_DIR.items()) + [("basis_basisconjugate_T_sparse_from_1", None), ("basishermitian_basis_T_from_1", None),
                                               ("dict_from_hs_to_choi", None), ("dict_from_choi_to_hs", None)]:
        m = cs.methods.get(acc)
        if m is None:
            raise AnalysisError("CompositeSystem.%s not found" % acc)
        field = "_" + acc
        from ..astutil import lazy_accessor
        guard, region, ret_ok = lazy_accessor(m, field)
        built = False
        for g in region:
            for n in ast.walk(g):
                if isinstance(n, ast.Call) and isinstance(n.func, ast.Attribute) and isinstance(n.func.value, ast.Name) \
                        and n.func.value.id == "self":
                    b = cs.lookup(n.func.attr)
                    if b is not None and any(isinstance(t, ast.Attribute) and t.attr == field and isinstance(t.ctx, ast.Store)
                                             for t in ast.walk(b.node)):
                        built = True
                elif isinstance(n, ast.Attribute) and n.attr == field and isinstance(n.ctx, ast.Store):
                    built = True
        if ret_ok and guard and built:
            rep.holds("R4", m, "accessor %s" % acc, "guards, builds and returns self.%s" % field)
        else:
            rep.violation("R4", m, "accessor %s" % acc, "accessor must test self.%s for None, build exactly that field and return it "
                                                         "(returns own field: %s, guard: %s, builder assigns it: %s)"
                          % (field, ret_ok, bool(guard), built), node=m.node)
    # (b) builder polarity
    for bname in ("_calc_basis_sparse", "_calc_basis_basisconjugate_sparse"):
        b = cs.methods.get(bname)
        if b is None:
            raise AnalysisError("CompositeSystem.%s not found" % bname)
        # element polarity of each accumulated list: appended expressions
        appended = {}
        for n in own_nodes(b.node):
            if isinstance(n, ast.Call) and isinstance(n.func, ast.Attribute) and n.func.attr == "append" \
                    and isinstance(n.func.value, ast.Name) and n.args:
                appended.setdefault(n.func.value.id, []).append(n.args[0])
        last_def = {}
        for n in own_nodes(b.node):
            if isinstance(n, ast.Assign) and len(n.targets) == 1 and isinstance(n.targets[0], ast.Name):
                last_def.setdefault(n.targets[0].id, []).append(n.value)
        for n in own_nodes(b.node):
            if not (isinstance(n, ast.Assign) and len(n.targets) == 1 and isinstance(n.targets[0], ast.Attribute)
                    and n.targets[0].attr in POLARITY):
                continue
            field = n.targets[0].attr
            e = n.value
            if isinstance(e, ast.Call) and (dotted(e.func) or "").split(".")[-1] in ("csr_matrix", "csc_matrix") and e.args:
                e = e.args[0]
            p = product(e)
            if len(p) != 1:
                rep.undecided("R4", b, n, "stored table is not a single (conj/transposed) factor")
                continue
            base, conj, tr = p[0]
            want = POLARITY[field]
            if field == "_basisconjugate_sparse":
                # conjugation is applied element-wise when the list is filled
                elems = appended.get(base, [])
                econj = [product(x.args[0])[0][1] if isinstance(x, ast.Call) and x.args else product(x)[0][1] for x in elems]
                conj = conj != (bool(econj) and all(econj))
            if (conj, tr) == want:
                rep.holds("R4", b, n, "%s: conjugated=%s transposed=%s" % (field, conj, tr), node=n)
            else:
                rep.violation("R4", b, n, "%s is stored with conjugated=%s, transposed=%s; its name (and its users) require %s/%s"
                              % (field, conj, tr, want[0], want[1]), node=n)
    # (c) users: direction of the table each conversion reads
    for f in ix.funcs.values():
        if not f.module.name.startswith("quara.objects") or f.module.name.endswith("composite_system"):
            continue
        sig = conv_sig(f.name)
        for n in own_nodes(f.node):
            if isinstance(n, ast.Attribute) and n.attr in TABLE_DIR and isinstance(n.ctx, ast.Load):
                frm, to = TABLE_DIR[n.attr]
                if sig is None:
                    # methods: direction from what the table is applied to
                    par = getattr(n, "_parent", None)
                    rep.info("R4", f, n, "table %s used outside a to_X_from_Y function" % n.attr, node=n)
                    continue
                a, r = FAMILY.get(sig[0]), FAMILY.get(sig[1])
                if (a, r) == (frm, to):
                    rep.holds("R4", f, n, "%s maps %s -> %s as %s needs" % (n.attr, frm, to, f.name), node=n)
                else:
                    rep.violation("R4", f, n, "%s converts %s -> %s but reads table %s, which maps %s -> %s"
                                  % (f.name, a, r, n.attr, frm, to), node=n)


# ------------------------------------------------------------------------------ R4 (d): orientation
def _check_table_orientation(ctx, rep):
    from .. import tables as T
    from ..astutil import single_defs
    tabs = T.analyse_builders(ctx)
    us = T.uses(ctx, "quara.objects")
    for u in us:
        t = tabs.get("_" + u.table)
        con = "%s.dot(%s)" % (u.table, unparse(u.arg))
        if t is None or isinstance(t, str):
            rep.undecided("R4", u.f, con, "layout of table %s not derivable: %s" % (u.table, t))
            continue
        argx = u.arg
        defs = single_defs(u.f)
        for _ in range(3):
            if isinstance(argx, ast.Name) and argx.id in defs:
                argx = defs[argx.id]
        order, base = T.flat_order(ctx, argx)
        rorder, rnode = T.result_reshape(u.f, u.call)
        problems, undec = [], []
        if t.transposed:
            # coefficient vector runs over the table's row index; result is a flattened element
            if len(t.rows) == 2:
                if order is None:
                    undec.append("coefficient vector `%s` is not a recognised flattening of a matrix" % unparse(argx))
                elif order != "C":
                    problems.append("the coefficient vector `%s` enumerates the matrix column by column, but the table's rows were built with "
                                    "`%s` as the major index (for %s in product(...)): coefficient [i, j] meets the element of (j, i)"
                                    % (unparse(argx), t.rows[0], ", ".join(t.rows)))
            if rnode is None:
                undec.append("result of the product is not reshaped into a matrix")
            elif rorder is None:
                undec.append("reshape order not constant")
            elif rorder != t.elem_order:
                problems.append("the result is reshaped in %s order but the table's elements were flattened in %s order (the matrix comes out "
                                "transposed)" % (rorder, t.elem_order))
        else:
            # input vector runs over a flattened element; result runs over the row index
            if order is None:
                undec.append("input vector `%s` is not a recognised flattening of a matrix" % unparse(argx))
            elif order != t.elem_order:
                problems.append("the input `%s` is flattened in %s order but the table's elements were flattened in %s order: entry (i, j) of "
                                "the input meets entry (j, i) of each basis element" % (unparse(argx), order, t.elem_order))
            if len(t.rows) == 2:
                if rnode is None:
                    undec.append("result of the product is not reshaped into a matrix")
                elif rorder != "C":
                    problems.append("the result is reshaped in %s order but the table's rows have `%s` as the major index" % (rorder, t.rows[0]))
        if problems:
            rep.violation("R4", u.f, con, "; ".join(problems) + " [" + t.describe() + "]", node=u.call)
        elif undec:
            rep.undecided("R4", u.f, con, "; ".join(undec))
        else:
            rep.holds("R4", u.f, con, "orientation agrees with the builder (%s)" % t.describe(), node=u.call)
    # name-stated element of the two-index tables: B_a (x) conj(B_b), first loop variable on the left
    for field, t in sorted(tabs.items()):
        if isinstance(t, str) or len(t.rows) != 2 or "basisconjugate" not in field:
            continue
        if "basis_basisconjugate" in field or "basisconjugate_basis" in field:
            want = ("kron", (("basis[%s]" % t.rows[0], False, False),), (("basis[%s]" % t.rows[1], True, False),))
            got = T.canon(t.elem)
            rep.check(got == want, "R4", t.builder, "element of %s" % field, "kron(B_%s, conj B_%s)" % t.rows,
                      "table %s is filled with %s; its name and the conversions' formula C(A) = sum HS[a,b] B_a (x) conj(B_b) require "
                      "kron(basis[%s], conj(basis[%s]))" % (field, unparse(t.elem), t.rows[0], t.rows[1]), node=t.node)


# ------------------------------------------------------------------------------ R6: option forwarding
def _defaults(f: Func):
    a = f.node.args
    pos = a.posonlyargs + a.args
    d = {}
    for p, dv in zip(pos[len(pos) - len(a.defaults):], a.defaults):
        d[p.arg] = dv
    for p, dv in zip(a.kwonlyargs, a.kw_defaults):
        if dv is not None:
            d[p.arg] = dv
    return d


def _check_option_forwarding(ctx, rep):
    """A conversion that accepts an option (a defaulted parameter: basis ordering `mode`, truncation threshold, ...) and
    delegates to a callee that accepts an option of the same name hands its own value on.  When the option is left out the
    callee silently uses its default, so the caller's choice (e.g. column-major computational basis) is ignored on that path."""
    ix, res = ctx.ix, ctx.res
    for f in ix.funcs.values():
        if f.module.name not in MODS:
            continue
        fd = _defaults(f)
        if not fd:
            continue
        for c in own_nodes(f.node):
            if not isinstance(c, ast.Call) or any(k.arg is None for k in c.keywords) or any(isinstance(a, ast.Starred) for a in c.args):
                continue
            ts = []
            for t in res.resolve_call(f, c, by_name=True):
                if isinstance(t, Class):
                    t = t.lookup("__init__")
                if isinstance(t, Func):
                    ts.append(t)
            if not ts:
                continue
            for p in fd:
                if not all(p in _defaults(t) for t in ts):
                    continue
                passed = []
                for t in ts:
                    bound = t.name == "__init__" or (isinstance(c.func, ast.Attribute) and t.kind not in ("function", "static"))
                    b, _ = bind_call(c, t, bound)
                    passed.append(b.get(p))
                con = "%s(... %s=)" % (unparse(c.func)[:60], p)
                if all(e is None for e in passed):
                    # the caller may have consumed the option itself before delegating (reads of p other than forwarding)
                    rep.violation("R6", f, con, "%s accepts the option '%s' but calls %s without it: the callee falls back to its own default "
                                                "(%s) whatever the caller asked for" % (f.name, p, ts[0].qualname, unparse(_defaults(ts[0])[p])), node=c)
                elif all(e is not None for e in passed):
                    e = passed[0]
                    derived = any(isinstance(x, ast.Name) and x.id == p for x in ast.walk(e))
                    if derived:
                        rep.holds("R6", f, con, "%s <- %s" % (p, unparse(e)), node=c)
                    else:
                        rep.info("R6", f, con, "callee option %s is set to %s, not to the caller's value" % (p, unparse(e)), node=c)


# ------------------------------------------------------------------------------ R7: dictionary fast paths
def _dict_builder(ctx, field: str):
    """Layout of CompositeSystem.<field> (a dict of lists of triples) as the builder writes it:
    dict(key=('basis'|'entry', swapped?), first=('basis'|'entry', swapped?), coef_swapped?, coef_conj?) or a reason string."""
    cs = ctx.ix.cls("quara.objects.composite_system.CompositeSystem")
    m = cs.methods.get(field.lstrip("_"))
    if m is None:
        return "accessor %s not found" % field
    loops = [n for n in own_nodes(m.node) if isinstance(n, ast.For) and isinstance(n.iter, ast.Call) and (dotted(n.iter.func) or "").endswith("product")
             and isinstance(n.target, ast.Tuple) and len(n.target.elts) == 2]
    if len(loops) != 1:
        return "expected one product loop over the basis pairs"
    lp = loops[0]
    a, b = [x.id for x in lp.target.elts]
    defs = {}
    for st in lp.body:
        if isinstance(st, ast.Assign) and len(st.targets) == 1 and isinstance(st.targets[0], ast.Name):
            defs[st.targets[0].id] = st.value
    mat = None
    for k, v in defs.items():
        if isinstance(v, ast.Call) and (dotted(v.func) or "").split(".")[-1] == "kron" and len(v.args) == 2:
            mat = k
            x, y = v.args
            for _ in range(2):
                x = defs.get(x.id, x) if isinstance(x, ast.Name) else x
                y = defs.get(y.id, y) if isinstance(y, ast.Name) else y
            px, py = product(x), product(y)
            if not (px == [("basis[%s]" % a, False, False)] and py == [("basis[%s]" % b, True, False)]):
                return "matrix is kron(%s, %s), expected kron(basis[%s], conj(basis[%s]))" % (fmt(px), fmt(py), a, b)
    if mat is None:
        return "no kron(...) matrix in the loop"
    inner = [n for n in lp.body if isinstance(n, ast.For) and isinstance(n.target, ast.Tuple) and len(n.target.elts) == 2
             and isinstance(n.iter, ast.Call) and dotted(n.iter.func) == "zip" and len(n.iter.args) == 2]
    if len(inner) != 1:
        return "expected one loop over the non-zero entries"
    r, c = [x.id for x in inner[0].target.elts]
    # zip(row_indices, column_indices) with row_indices, column_indices = where_not_zero(matrix)
    wz = [st for st in lp.body if isinstance(st, ast.Assign) and isinstance(st.targets[0], ast.Tuple) and isinstance(st.value, ast.Call)
          and (dotted(st.value.func) or "").endswith("where_not_zero") and unparse(st.value.args[0]) == mat]
    if len(wz) != 1 or [unparse(x) for x in wz[0].targets[0].elts] != [unparse(x) for x in inner[0].iter.args]:
        return "entry indices are not where_not_zero(%s) in (row, column) order" % mat
    roles = {a: ("basis", 0), b: ("basis", 1), r: ("entry", 0), c: ("entry", 1)}
    layouts = set()
    ldefs = {st.targets[0].id: st.value for st in ast.walk(inner[0]) if isinstance(st, ast.Assign) and len(st.targets) == 1 and isinstance(st.targets[0], ast.Name)}

    def loc(e):
        for _ in range(3):
            if isinstance(e, ast.Name) and e.id in ldefs:
                e = ldefs[e.id]
        return e
    for n in ast.walk(inner[0]):
        key = tup = None
        if isinstance(n, ast.Call) and isinstance(n.func, ast.Attribute) and n.func.attr == "append" and isinstance(n.func.value, ast.Subscript) \
                and unparse(n.func.value.value) == "self." + field and n.args:
            key, tup = n.func.value.slice, n.args[0]
        elif isinstance(n, ast.Call) and isinstance(n.func, ast.Attribute) and n.func.attr == "append" and isinstance(n.func.value, ast.Call) \
                and isinstance(n.func.value.func, ast.Attribute) and n.func.value.func.attr == "setdefault" \
                and unparse(n.func.value.func.value) == "self." + field and len(n.func.value.args) == 2 and n.args:
            key, tup = n.func.value.args[0], n.args[0]
        elif isinstance(n, ast.Assign) and isinstance(n.targets[0], ast.Subscript) and unparse(n.targets[0].value) == "self." + field \
                and isinstance(n.value, ast.List) and len(n.value.elts) == 1:
            key, tup = n.targets[0].slice, n.value.elts[0]
        if key is None:
            continue
        key, tup = loc(key), loc(tup)
        if not (isinstance(key, ast.Tuple) and len(key.elts) == 2 and isinstance(tup, ast.Tuple) and len(tup.elts) == 3):
            return "stored entry is not key (x, y) -> (u, v, coefficient)"
        try:
            k = [roles[x.id] for x in key.elts]
            t = [roles[x.id] for x in tup.elts[:2]]
        except (KeyError, AttributeError):
            return "key / triple use names other than the loop variables"
        co = tup.elts[2]
        conj = False
        while isinstance(co, ast.Call) and ((dotted(co.func) or "") in ("np.conjugate", "np.conj") or (isinstance(co.func, ast.Attribute) and co.func.attr in ("conj", "conjugate"))):
            conj = not conj
            co = co.args[0] if co.args else co.func.value
        if not (isinstance(co, ast.Subscript) and unparse(co.value) == mat and isinstance(co.slice, ast.Tuple) and len(co.slice.elts) == 2):
            return "coefficient is not %s[row, column]" % mat
        try:
            ci = [roles[x.id] for x in co.slice.elts]
        except (KeyError, AttributeError):
            return "coefficient index uses other names"
        if {x[0] for x in k} != {k[0][0]} or {x[0] for x in t} != {t[0][0]} or {x[0] for x in ci} != {"entry"} or k[0][0] == t[0][0]:
            return "key / triple mix basis and entry indices"
        layouts.add((k[0][0], k[0][1] == 1, t[0][0], t[0][1] == 1, ci[0][1] == 1, conj))
    if len(layouts) != 1:
        return "append and first-store layouts differ or are missing: %s" % sorted(layouts)
    kk, ks, tk, ts, cs_, cj = next(iter(layouts))
    return dict(key=kk, key_swapped=ks, first=tk, first_swapped=ts, coef_swapped=cs_, coef_conj=cj, node=m.node, func=m)


def _check_dict_paths(ctx, rep):
    ix = ctx.ix
    OBJ = "quara.objects."
    for qn, field, direction in ((OBJ + "gate.to_hs_from_choi_with_dict", "_dict_from_choi_to_hs", "choi->hs"),
                                 (OBJ + "gate.to_choi_from_hs_with_dict", "_dict_from_hs_to_choi", "hs->choi")):
        f = ix.funcs.get(qn)
        if f is None:
            raise AnalysisError("%s not found" % qn)
        con = "%s via %s" % (f.name, field[1:])
        lay = _dict_builder(ctx, field)
        if isinstance(lay, str):
            rep.undecided("R7", f, con, "builder of %s: %s" % (field, lay))
            continue
        want_key = "basis" if direction == "choi->hs" else "entry"
        if lay["key"] != want_key:
            rep.violation("R7", lay["func"], con, "%s is keyed by %s indices, a %s conversion looks it up by %s indices" % (field, lay["key"], direction, want_key),
                          node=lay["node"])
            continue
        loops = [n for n in own_nodes(f.node) if isinstance(n, ast.For) and ((isinstance(n.target, ast.Tuple) and len(n.target.elts) == 2)
                                                                              or isinstance(n.target, ast.Name))
                 and isinstance(n.iter, ast.Call) and (dotted(n.iter.func) or "").endswith("product")]
        if len(loops) != 1:
            rep.undecided("R7", f, con, "expected one product loop")
            continue
        lp = loops[0]
        pair_name = None
        if isinstance(lp.target, ast.Name):
            # `for idx in product(r, repeat=2)`: the pair is used as a whole (d.get(idx), m[idx]); its components are idx[0], idx[1]
            it_ = lp.iter
            two = (len(it_.args) == 2 and not it_.keywords) or (len(it_.args) == 1 and len(it_.keywords) == 1 and it_.keywords[0].arg == "repeat"
                                                                and const(it_.keywords[0].value) == 2)
            if not two:
                rep.undecided("R7", f, con, "the product loop does not range over pairs")
                continue
            pair_name = lp.target.id
            k1, k2 = pair_name + "[0]", pair_name + "[1]"
        else:
            k1, k2 = [x.id for x in lp.target.elts]
        get = [st for st in lp.body if isinstance(st, ast.Assign) and isinstance(st.value, ast.Call) and isinstance(st.value.func, ast.Attribute)
               and st.value.func.attr == "get" and unparse(inline(f, st.value.func.value)).endswith("." + field[1:])]
        inner = [n for n in lp.body if isinstance(n, ast.For) and isinstance(n.target, ast.Tuple) and len(n.target.elts) == 3]

        def is_get(e):
            return isinstance(e, ast.Call) and isinstance(e.func, ast.Attribute) and e.func.attr == "get" and e.args \
                and unparse(inline(f, e.func.value)).endswith("." + field[1:])
        # the looked-up list is bound to a local first, or iterated in place (the canonical form of a single-use local)
        if len(get) == 1 and len(inner) == 1 and unparse(inner[0].iter) == unparse(get[0].targets[0]):
            getcall = get[0].value
        elif not get and len(inner) == 1 and is_get(inner[0].iter):
            getcall = inner[0].iter
        else:
            rep.undecided("R7", f, con, "expected `nz = c_sys.%s.get((x, y), [])` and one loop `for u, v, coefficient in nz`" % field[1:])
            continue
        key = getcall.args[0]
        if pair_name is not None and isinstance(key, ast.Name) and key.id == pair_name:
            key = ast.Tuple(elts=[ast.parse(k1, mode="eval").body, ast.parse(k2, mode="eval").body], ctx=ast.Load())
        if not (isinstance(key, ast.Tuple) and [unparse(x) for x in key.elts] in ([k1, k2], [k2, k1])):
            rep.undecided("R7", f, con, "lookup key %s is not the pair of loop variables" % unparse(key))
            continue
        key_sw = [unparse(x) for x in key.elts] == [k2, k1]
        t1, t2, co = [x.id for x in inner[0].target.elts]
        acc = [st for st in inner[0].body if isinstance(st, ast.AugAssign) and isinstance(st.op, ast.Add) and isinstance(st.target, ast.Subscript)]
        if len(acc) != 1:
            rep.undecided("R7", f, con, "expected one accumulation `target[x, y] += ...`")
            continue
        st = acc[0]
        tgt_idx = [unparse(x) for x in st.target.slice.elts] if isinstance(st.target.slice, ast.Tuple) else None
        if tgt_idx is None and pair_name is not None and isinstance(st.target.slice, ast.Name) and st.target.slice.id == pair_name:
            tgt_idx = [k1, k2]
        # factors of the summand
        facs = _scalar_factors_c02(st.value)
        coef_conj, src_idx, other = False, None, []
        for e in facs:
            cj = False
            while isinstance(e, ast.Call) and ((dotted(e.func) or "") in ("np.conjugate", "np.conj") or (isinstance(e.func, ast.Attribute) and e.func.attr in ("conj", "conjugate"))):
                cj = not cj
                e = e.args[0] if e.args else e.func.value
            if isinstance(e, ast.Name) and e.id == co:
                coef_conj = cj
            elif isinstance(e, ast.Subscript) and not cj:
                sl = e.slice
                if isinstance(sl, ast.Tuple) and len(sl.elts) == 2:
                    src_idx = [unparse(x) for x in sl.elts]
                elif isinstance(e.value, ast.Subscript):
                    src_idx = [unparse(e.value.slice), unparse(sl)]
                else:
                    other.append(e)
            else:
                other.append(e)
        if tgt_idx is None or src_idx is None or other:
            rep.undecided("R7", f, con, "summand `%s` is not coefficient * source[x, y]" % unparse(st.value))
            continue
        # express every index pair in builder coordinates
        # key pair as the builder stored it: (kA, kB) = builder order of the key kind
        kpair = [k1, k2] if not key_sw else [k2, k1]          # what is passed as (first, second) of the key
        if lay["key_swapped"]:
            kpair = kpair[::-1]                                  # now kpair = (index 0, index 1) of the key kind
        tpair = [t1, t2]
        if lay["first_swapped"]:
            tpair = tpair[::-1]                                  # (index 0, index 1) of the triple kind
        eff_conj = coef_conj != lay["coef_conj"]
        # coefficient = M_{basis}[entry0, entry1] (or swapped)
        entry = kpair if lay["key"] == "entry" else tpair
        basis_ = kpair if lay["key"] == "basis" else tpair
        if lay["coef_swapped"]:
            entry_of_coef = entry[::-1]
        else:
            entry_of_coef = entry
        if direction == "choi->hs":
            # HS[a, b] = Tr[M_ab^dagger C] = sum conj(M_ab[r, c]) C[r, c]  (= sum M_ab[r, c] C[c, r] for Hermitian M_ab)
            ok_t = tgt_idx == basis_
            straight = src_idx == entry_of_coef
            transposed = src_idx == entry_of_coef[::-1]
            if not ok_t:
                rep.violation("R7", f, con, "accumulates into %s[%s]; the entry for basis pair (%s) belongs at [%s]" % (unparse(st.target.value), ", ".join(tgt_idx),
                              ", ".join(basis_), ", ".join(basis_)), node=st)
            elif not (straight or transposed):
                rep.undecided("R7", f, con, "source index %s is not the entry pair %s" % (src_idx, entry))
            elif eff_conj != straight:
                rep.violation("R7", f, con, "HS[a,b] = Tr[M_ab^† C] = sum_rc conj(M_ab[r,c]) C[r,c]; the code sums %s(M_ab[%s]) * C[%s], i.e. "
                              "Tr[%s C]: the conjugation is lost, so matrices M_ab with imaginary entries (Pauli Y, antisymmetric Gell-Mann) "
                              "contribute with the wrong sign" % ("conj" if eff_conj else "", ", ".join(entry_of_coef), ", ".join(src_idx),
                                                                    "M_ab^T" if straight else "conj(M_ab)^†"), node=st)
            else:
                rep.holds("R7", f, con, "sum %sM_ab[%s] C[%s] = Tr[M_ab^† C]%s" % ("conj " if eff_conj else "", ", ".join(entry_of_coef), ", ".join(src_idx),
                                                                                      "" if eff_conj else " (M_ab Hermitian: the Hermitian-basis assumption of the dict path)"), node=st)
        else:
            # C[r, c] = sum_ab HS[a, b] M_ab[r, c]
            ok = tgt_idx == entry_of_coef and src_idx == basis_ and not eff_conj
            rep.check(ok, "R7", f, con, "C[r,c] += HS[a,b] M_ab[r,c]",
                      "Choi[r,c] = sum_ab HS[a,b] M_ab[r,c]; the code accumulates %s[%s] += %s[%s] * %sM_ab[%s]" % (
                          unparse(st.target.value), ", ".join(tgt_idx), "hs", ", ".join(src_idx), "conj " if eff_conj else "", ", ".join(entry_of_coef)), node=st)


def _scalar_factors_c02(e):
    if isinstance(e, ast.BinOp) and isinstance(e.op, ast.Mult):
        return _scalar_factors_c02(e.left) + _scalar_factors_c02(e.right)
    return [e]
