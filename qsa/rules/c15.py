"""C15 - simulations: repetitions draw from advancing/spawned streams; no stream shared between
parallel tasks; re-estimation reads stored data; tomography slot conformance; depolarising siblings
agree; physicality check dispatch."""
from __future__ import annotations

import ast

from ..astutil import const, kwarg, returns, unparse
from ..index import AnalysisError, Class, Func, dotted, own_nodes
from ..resolve import bind_call
from ..seeds import Seeds, is_seedish

SIM = "quara.simulation."
TOMO = ["quara.protocol.qtomography.standard.standard_qst.StandardQst", "quara.protocol.qtomography.standard.standard_povmt.StandardPovmt",
        "quara.protocol.qtomography.standard.standard_qpt.StandardQpt", "quara.protocol.qtomography.standard.standard_qmpt.StandardQmpt"]


def run(ctx, rep):
    ix = ctx.ix
    sd = Seeds(ctx)
    rep.rule("H1", "a loop-invariant value handed to a seed sink inside a loop or comprehension is a stream, never a raw seed "
                   "(parameter kinds joined over all in-repo call sites)", floor=3)
    rep.rule("H2", "in joblib.Parallel comprehensions every stream / seed argument is derived from the comprehension variable "
                   "(no generator is shared between tasks)", floor=2)
    rep.rule("H3", "SeedSequence(seed).spawn(n): one Generator per child, and the task comprehension iterates the spawned list itself", floor=2)
    rep.rule("H4", "re-estimation reaches no draw site or seed sink, and what is loaded from storage is what is estimated from", floor=3)
    rep.rule("H5", "physicality check dispatch: ProjectedLinear -> eq+ineq; Linear -> eq iff parametrised; LossMinimization -> the "
                   "algorithm option's flags", floor=3)
    rep.rule("H6", "both depolarising implementations compose the channel on the same side per kind (after the object; before it for POVMs)", floor=8)
    rep.rule("H7", "the four tomography classes accept the data-generation calls the simulation makes through the common slot", floor=11)
    rep.rule("H8", "simulation settings and results that re-create or hand on their own configuration pass each field to the like-named "
                   "parameter (copy(), to_simulation_setting(), generation settings): the setting that is stored / re-estimated from is the "
                   "setting that was run", floor=20)
    _h8(ctx, rep)
    rep.rule("H9", "checks and simulations that compute one value per sample size / repetition collect it inside the loop that computes it "
                   "(a list created before the loop and filled after it keeps the last value only)", floor=3)
    _h9(ctx, rep)
    rep.rule("H10", "simulation and noise-generation settings hand the stream they receive to every callee that draws (rule G5 of C14 on "
                    "quara.simulation)", floor=5)
    from ..report import Relay
    from .c14 import _g5
    _g5(ctx, Relay(rep, {"G5": "H10"}, keep=lambda f_, con_: "quara.simulation" in (getattr(f_, "qualname", None) or str(f_))), sd)
    rep.stats["seed_sinks"] = sorted("%s(%s)" % (q.split(".")[-1], p) for q, p in sd.sinks)[:60]
    _h1_h2(ctx, rep, sd)
    _h3(ctx, rep, sd)
    _h4(ctx, rep, sd)
    _h5(ctx, rep)
    _h6(ctx, rep)
    _h7(ctx, rep)


def _h1_h2(ctx, rep, sd: Seeds):
    for s in sd.sites:
        f = s.func
        if not f.module.name.startswith(("quara.simulation", "quara.qcircuit", "quara.protocol", "quara.data_analysis")):
            continue
        loops = sd.enclosing_loops(s.node)
        if not loops:
            continue
        in_parallel = s.delayed
        streams, lists = sd.stream_vars(f)
        variant = set()
        for l in loops:
            variant |= sd.loop_variant_names(l)
        for t, b in sd.bindings(s):
            for p, e in b.items():
                if (t.qualname, p) not in sd.sinks:
                    continue
                names = {n.id for n in ast.walk(e) if isinstance(n, ast.Name)}
                is_variant = bool(names & variant)
                con = "%s(... %s=%s ...)" % (t.name, p, unparse(e))
                if in_parallel:
                    if is_variant:
                        rep.holds("H2", f, con, "per-task stream %s" % unparse(e), node=s.node)
                    elif isinstance(e, ast.Constant) and e.value is None:
                        rep.holds("H2", f, con, "no stream handed over", node=s.node)
                    else:
                        rep.violation("H2", f, con, "%s is the same object for every parallel task: tasks would share (or each re-create) one "
                                                    "random stream, so results depend on worker scheduling / repetitions coincide" % unparse(e), node=s.node)
                    continue
                if is_variant:
                    rep.holds("H1", f, con, "per-iteration value", node=s.node)
                    continue
                kind = None
                if isinstance(e, ast.Name):
                    if e.id in streams:
                        kind = "STREAM"
                    elif e.id in f.params:
                        kind = sd.param_kind.get((f.qualname, e.id), "RAW")
                    else:
                        kind = "RAW"
                elif isinstance(e, ast.Constant) and e.value is None:
                    kind = "NONE"
                else:
                    kind = "RAW"
                if kind in ("STREAM", "NONE"):
                    rep.holds("H1", f, con, "loop-invariant %s (advances across iterations)" % kind.lower(), node=s.node)
                else:
                    callers = sd.incoming.get((f.qualname, e.id), []) if isinstance(e, ast.Name) else []
                    rep.violation("H1", f, con, "'%s' may be an integer seed (call sites pass: %s) and is handed unchanged to every iteration: "
                                                "each iteration re-creates the same generator, so all repetitions are identical"
                                  % (unparse(e), sorted(set(callers)) or "none in repo - public entry point"), node=s.node)


def _h3(ctx, rep, sd: Seeds):
    for f in sd.funcs:
        if not f.module.name.startswith("quara.simulation"):
            continue
        for n in own_nodes(f.node):
            if isinstance(n, ast.Call) and isinstance(n.func, ast.Attribute) and n.func.attr == "spawn":
                # must sit in [Generator(MT19937(s)) for s in sg.spawn(k)]
                par = getattr(n, "_parent", None)
                comp = getattr(par, "_parent", None) if isinstance(par, ast.comprehension) else None
                ok, why = False, "spawned children are not turned into one Generator each"
                lst = None
                if isinstance(comp, ast.ListComp) and isinstance(comp.elt, ast.Call) and (dotted(comp.elt.func) or "").split(".")[-1] == "Generator":
                    tv = unparse(par.target)
                    inner = comp.elt.args[0] if comp.elt.args else None
                    if isinstance(inner, ast.Call) and inner.args and unparse(inner.args[0]) == tv:
                        asg = getattr(comp, "_parent", None)
                        if isinstance(asg, ast.Assign) and isinstance(asg.targets[0], ast.Name):
                            lst = asg.targets[0].id
                            ok = True
                # the receiver is SeedSequence(seed)
                recv = n.func.value
                seq_ok = False
                if isinstance(recv, ast.Name):
                    for a in own_nodes(f.node):
                        if isinstance(a, ast.Assign) and unparse(a.targets[0]) == recv.id and isinstance(a.value, ast.Call) \
                                and (dotted(a.value.func) or "").split(".")[-1] == "SeedSequence":
                            seq_ok = True
                if ok and not seq_ok:
                    ok, why = False, "children are not spawned from a SeedSequence built from the configured seed"
                if ok:
                    # the list is iterated directly by a task comprehension
                    used = False
                    for c in own_nodes(f.node):
                        if isinstance(c, ast.comprehension):
                            it = c.iter
                            if isinstance(it, ast.Name) and it.id == lst:
                                used = True
                            if isinstance(it, ast.Call) and dotted(it.func) in ("enumerate", "zip") and any(isinstance(a, ast.Name) and a.id == lst for a in it.args):
                                used = True
                    if not used:
                        ok, why = False, "the spawned list %s is not what the task comprehension iterates (counts could differ)" % lst
                rep.check(ok, "H3", f, n, "one Generator per spawned child; tasks iterate the list", why, node=n)


def _h4(ctx, rep, sd: Seeds):
    ix = ctx.ix
    roots = []
    for nm in ("re_estimate", "re_estimate_sequence", "execute_estimation", "_execute_estimation", "_load_and_execute_estimation",
               "execute_estimation_with_saved_empi_dists_sequences"):
        f = ix.funcs.get(SIM + "standard_qtomography_simulation." + nm)
        if f is not None:
            roots.append(f)
    if len(roots) < 4:
        raise AnalysisError("re-estimation entry points not found")
    cone = ctx.res.cone(roots, max_depth=6, by_name=False)
    from .c14 import draw_sites
    bad = []
    for qn, (f, chain) in cone.items():
        if qn.startswith("quara.objects") or qn.startswith("quara.utils") or qn.startswith("quara.math"):
            continue
        sites, _, _ = draw_sites(ctx, sd, f)
        for node, kind, s in sites:
            if kind != "seed":  # global re-seeding is C14 G2's business; it draws nothing
                bad.append((f, node, chain))
        for n in own_nodes(f.node):
            if isinstance(n, ast.Call) and sd.to_stream in ctx.res.resolve_call(f, n, by_name=False):
                bad.append((f, n, chain))
    if bad:
        for f, node, chain in bad:
            rep.violation("H4", f, node, "re-estimation reaches a random draw / seed conversion", node=node, chain=chain)
    else:
        rep.holds("H4", roots[0], "cone of re-estimation entry points", "%d functions, no draw site, no to_stream" % len(cone))
    # loaded data is what is estimated from
    for f in roots:
        loads = [n for n in own_nodes(f.node) if isinstance(n, ast.Call) and (dotted(n.func) or "") in ("pickle.load", "joblib.load", "np.load", "numpy.load")]
        for ld in loads:
            asg = getattr(ld, "_parent", None)
            if not (isinstance(asg, ast.Assign) and isinstance(asg.targets[0], ast.Name)):
                rep.undecided("H4", f, ld, "loaded value is not bound to a name")
                continue
            var = asg.targets[0].id
            # later uses of var as the data argument of an estimation call
            used = False
            for n in own_nodes(f.node):
                if isinstance(n, ast.Call) and n is not ld and getattr(n, "lineno", 0) >= asg.lineno:
                    for a in list(n.args) + [k.value for k in n.keywords]:
                        if isinstance(a, ast.Name) and a.id == var:
                            nm = dotted(n.func) or ""
                            if "estimat" in nm:
                                used = True
            if used:
                rep.holds("H4", f, asg, "loaded distributions flow into the estimation call", node=asg)
            else:
                rep.violation("H4", f, asg, "the distributions loaded from storage are bound to '%s' and never reach the estimator (the estimator "
                                            "receives a different value)" % var, node=asg)
    # re_estimate reads the stored sequences
    f = ix.func(SIM + "standard_qtomography_simulation.re_estimate")
    src = [n for n in own_nodes(f.node) if isinstance(n, ast.Assign) and unparse(n.targets[0]) == "empi_dists_seq"]
    ok = len(src) == 1 and unparse(src[0].value) == "simulation_result.empi_dists_sequences[n_rep_index]"
    calls = [n for n in own_nodes(f.node) if isinstance(n, ast.Call) and isinstance(n.func, ast.Attribute) and n.func.attr == "calc_estimate_sequence"]
    ok = ok and bool(calls) and all(len(c.args) >= 2 and unparse(c.args[1]) == "empi_dists_seq" for c in calls)
    rep.check(ok, "H4", f, "data source of re_estimate", "stored distributions of the repetition -> estimator",
              "re_estimate does not estimate from simulation_result.empi_dists_sequences[n_rep_index]", node=f.node)


def _h5(ctx, rep):
    f = ctx.ix.func(SIM + "standard_qtomography_simulation_check.StandardQTomographySimulationCheck.execute_physicality_violation_check")
    branches = {}
    for n in own_nodes(f.node):
        if isinstance(n, ast.If) and isinstance(n.test, ast.Compare) and "estimator" in unparse(n.test.left) and len(n.test.ops) == 1:
            nm = unparse(n.test.comparators[0])
            branches[nm] = n
    want = ["ProjectedLinearEstimator", "LinearEstimator", "LossMinimizationEstimator"]
    if sorted(branches) != sorted(want):
        rep.undecided("H5", f, "dispatch", "expected branches for %s, found %s" % (want, sorted(branches)))
        return

    def calls(body):
        return [(dotted(c.func) or "").split(".")[-1] for s in body for c in ast.walk(s) if isinstance(c, ast.Call)
                and (dotted(c.func) or "").startswith("physicality_violation_check.")]

    p = calls(branches["ProjectedLinearEstimator"].body)
    rep.check(p == ["is_physical_qobjects_all"], "H5", f, "ProjectedLinearEstimator", "checks both constraints",
              "projected linear estimates are checked with %s, expected is_physical_qobjects_all (eq and ineq)" % p, node=branches["ProjectedLinearEstimator"])
    lb = branches["LinearEstimator"]
    # path-sensitive: on the paths taken for a LinearEstimator, the equality check is returned exactly when the estimate's
    # on_para_eq_constraint is set; otherwise True is returned (nothing to check)
    from ..symsum import cases, returning
    ok = False
    why = "linear estimates must be checked for the equality constraint exactly when on_para_eq_constraint is set"
    cs = cases(f)
    if cs:
        seen = {}
        for c in returning(cs):
            g = {t: pol for t, pol, _ in c.guards}
            lin = [pol for t, pol in g.items() if t.endswith("== LinearEstimator")]
            if not lin or lin[0] is not True:
                continue
            para = [pol for t, pol in g.items() if t.endswith(".on_para_eq_constraint")]
            if len(para) != 1:
                seen["?"] = unparse(c.value) if c.value is not None else None
                continue
            v = c.value
            if isinstance(v, ast.Call):
                seen.setdefault(para[0], set()).add((dotted(v.func) or "").split(".")[-1])
            elif isinstance(v, ast.Constant):
                seen.setdefault(para[0], set()).add(v.value)
            else:
                seen.setdefault(para[0], set()).add(unparse(v) if v is not None else None)
        ok = seen.get(True) == {"is_eq_constraint_satisfied_all"} and seen.get(False) == {True} and "?" not in seen
        if not ok:
            why += " (paths: %s)" % {str(k): sorted(map(str, v)) if isinstance(v, set) else v for k, v in seen.items()}
    if not ok and (not cs or "?" in seen or set(seen) != {True, False}):
        # the two paths (flag set / not set) could not both be read: nothing is claimed about them
        rep.undecided("H5", f, "LinearEstimator", "the paths taken for a LinearEstimator are not of the form `flag -> check / True`: %s"
                      % ({str(k): sorted(map(str, v)) if isinstance(v, set) else v for k, v in seen.items()} if cs else "no path summaries"))
    else:
        rep.check(ok, "H5", f, "LinearEstimator", "eq constraint iff parametrised", why, node=lb)
    mb = branches["LossMinimizationEstimator"]
    txt = {}
    for n in ast.walk(mb):
        if isinstance(n, ast.If) and unparse(n.test) in ("on_algo_eq_constraint", "on_algo_ineq_constraint"):
            txt[unparse(n.test)] = calls(n.body)
    defs = {unparse(s.targets[0]): unparse(s.value) for s in ast.walk(mb) if isinstance(s, ast.Assign) and isinstance(s.targets[0], ast.Name)}
    ok = txt == {"on_algo_eq_constraint": ["is_eq_constraint_satisfied_all"], "on_algo_ineq_constraint": ["is_ineq_constraint_satisfied_all"]} \
        and defs.get("on_algo_eq_constraint", "").endswith("algo_option.on_algo_eq_constraint") \
        and defs.get("on_algo_ineq_constraint", "").endswith("algo_option.on_algo_ineq_constraint")
    fal = [n for n in ast.walk(mb) if isinstance(n, ast.If) and unparse(n.test) == "False in results"]
    ok = ok and len(fal) == 1 and any(isinstance(s, ast.Return) and const(s.value) is False for s in fal[0].body)
    if not ok and (set(txt) != {"on_algo_eq_constraint", "on_algo_ineq_constraint"} or not {"on_algo_eq_constraint", "on_algo_ineq_constraint"} <= set(defs)):
        rep.undecided("H5", f, "LossMinimizationEstimator", "no `if on_algo_eq_constraint:` / `if on_algo_ineq_constraint:` pair bound from the algorithm "
                                                           "option found in the branch: the dispatch is outside the recognised forms")
        return
    rep.check(ok, "H5", f, "LossMinimizationEstimator", "each enabled flag checks its own constraint; any failure fails the check",
              "dispatch is %s with flags %s" % (txt, {k: v for k, v in defs.items() if "algo" in k}), node=mb)


def _compose_sides(f: Func, base_names):
    """kind -> 'after' (dp first argument: channel applied after the object) or 'before'."""
    out = {}
    for n in own_nodes(f.node):
        if isinstance(n, ast.Call) and (dotted(n.func) or "").split(".")[-1] == "compose_qoperations" and len(n.args) == 2:
            from ..astutil import deep_inline
            # the depolarising channel is whichever argument is built by a *depolariz* generator; the object is the base
            xs = [unparse(deep_inline(f, x)) for x in n.args]
            raw = [unparse(x) for x in n.args]
            is_dp = ["depolariz" in t_.lower() and r_ not in base_names for t_, r_ in zip(xs, raw)]
            is_base = [r_ in base_names or t_ in base_names for t_, r_ in zip(xs, raw)]
            if is_dp[0] and is_base[1] and not is_dp[1]:
                out[n] = "after"
            elif is_dp[1] and is_base[0] and not is_dp[0]:
                out[n] = "before"
            else:
                out[n] = "?"
    return out


def _h9(ctx, rep):
    """a verdict / estimate computed once per sample size (or per repetition) is collected inside the loop that computes it"""
    from ..loops import per_iteration_results
    n = 0
    for f, lp, L, where in per_iteration_results(ctx, ("quara.data_analysis", "quara.simulation")):
        con = "%s: per-iteration values collected in `%s`" % (f.name, L)
        if where == "inside":
            n += 1
            rep.holds("H9", f, con, "appended inside the loop", node=lp, nontrivial=False)
        else:
            n += 1
            rep.violation("H9", f, con, "`%s` is created before the loop and filled only AFTER it, with a value the loop computes in every iteration: only the "
                                        "last iteration's value is kept (a violation at an earlier sample size / repetition is dropped from the verdict)" % L, node=lp)
    if n == 0:
        rep.undecided("H9", "quara.data_analysis", "collections", "no per-iteration collection found")


def _h6(ctx, rep):
    ix = ctx.ix
    want = {"state": "after", "povm": "before", "gate": "after", "mprocess": "after"}
    c = ix.cls(SIM + "depolarized_qoperation_generation_setting.DepolarizedQOperationGenerationSetting")
    got1 = {}
    for kind in want:
        m = c.methods.get("generate_" + kind)
        if m is None:
            rep.violation("H6", c.qualname, "generate_" + kind, "method missing")
            continue
        sides = list(_compose_sides(m, ("self.qoperation_base", "self._qoperation_base")).values())
        got1[kind] = sides[0] if len(sides) == 1 else "?"
        rep.check(got1[kind] == want[kind], "H6", m, "setting.generate_%s" % kind, "channel composed %s the object" % want[kind],
                  "depolarising channel is composed %s the %s; it must act %s it (Heisenberg picture for POVMs)" % (got1[kind], kind, want[kind]), node=m.node)
    f = ix.func("quara.objects.qoperation_typical.generate_qoperation_depolarized")
    for n in own_nodes(f.node):
        if isinstance(n, ast.If) and isinstance(n.test, ast.Compare) and unparse(n.test.left) == "mode":
            kind = const(n.test.comparators[0])
            if kind in want:
                sides = [v for k, v in _compose_sides(f, ("qoperation",)).items() if any(k is x or k in ast.walk(x) for x in n.body)]
                side = sides[0] if len(sides) == 1 else "?"
                ok = side == want[kind] and side == got1.get(kind)
                rep.check(ok, "H6", f, "generate_qoperation_depolarized[%s]" % kind, "agrees with the generation setting (%s)" % side,
                          "composes the channel %s the %s; the sibling implementation composes it %s" % (side, kind, got1.get(kind)), node=n)


def _h7(ctx, rep):
    ix = ctx.ix
    classes = [ix.cls(q) for q in TOMO]
    # calls made on "whatever tomography was given": receiver named *qtomography*
    callers = [f for f in ix.funcs.values() if f.module.name.startswith("quara.simulation")]
    n = 0
    for f in callers:
        for c in own_nodes(f.node):
            call, fn, delayed = None, None, False
            if isinstance(c, ast.Call) and isinstance(c.func, ast.Attribute) and c.func.attr.startswith("generate_empi_dist"):
                call, fn = c, c.func
            elif isinstance(c, ast.Call) and isinstance(c.func, ast.Call) and (dotted(c.func.func) or "").endswith("delayed") and c.func.args \
                    and isinstance(c.func.args[0], ast.Attribute) and c.func.args[0].attr.startswith("generate_empi_dist"):
                call, fn, delayed = c, c.func.args[0], True
            if call is None or "qtomography" not in unparse(fn.value):
                continue
            for k in classes:
                m = k.lookup(fn.attr)
                con = "%s.%s called from %s" % (k.name, fn.attr, f.name)
                n += 1
                if m is None:
                    rep.violation("H7", f, con, "%s has no %s" % (k.name, fn.attr), node=call)
                    continue
                _, errs = bind_call(call, m, True)
                if errs:
                    rep.violation("H7", f, con, "the call does not bind to %s.%s: %s (its three sibling tomography classes accept it)"
                                  % (k.name, fn.attr, "; ".join(errs)), node=call)
                else:
                    rep.holds("H7", f, con, "binds", node=call)
    # sibling signature agreement of the three public generators
    for meth in ("generate_empi_dist", "generate_empi_dists", "generate_empi_dists_sequence"):
        sigs = {}
        for k in classes:
            m = k.lookup(meth)
            if m is not None:
                sigs[k.name] = tuple(m.params)
        roles = {k: tuple("obj" if i == (1 if meth == "generate_empi_dist" else 0) else p for i, p in enumerate(v)) for k, v in sigs.items()}
        ok = len(set(roles.values())) == 1
        rep.check(ok, "H7", classes[0].qualname + "." + meth, "sibling signatures of %s" % meth, "same parameter names (up to the object's name)",
                  "parameter names differ between siblings: %s" % roles, file=classes[0].module.relpath, line=classes[0].node.lineno)



def _h8(ctx, rep):
    from ..slots import keyword_field_agreement
    n = 0
    for f in ctx.ix.funcs.values():
        if not f.module.name.startswith("quara.simulation") or f.self_name is None:
            continue
        for call, kw, attr, same, like in keyword_field_agreement(ctx, f):
            con = "%s.%s: %s=self.%s" % (f.cls.name if f.cls else "?", f.name, kw, attr)
            if same:
                n += 1
                rep.holds("H8", f, con, "like-named field", node=call)
            elif like:
                rep.violation("H8", f, con, "parameter `%s` is fed from self.%s although the object has its own `%s`: the re-created / derived object is "
                              "configured differently from this one" % (kw, attr, kw), node=call)
