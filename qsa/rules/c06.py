"""C06 - composition: dispatch typing, time order of HS products, outcome layout vs shape,
spectral construction of the projective back-action, Heisenberg-picture products."""
from __future__ import annotations

import ast

from ..astutil import const, inline, is_num, kwarg, returns, single_defs, unparse
from ..index import AnalysisError, Class, Func, dotted, own_nodes
from ..layout import dispatch_branches, helper_calls, layout_sites, matmul_sites, typed_attribute_problems
from ..poly import Poly
from .. import spectral
from .c03 import _size_poly
from ..symint import Undecided

OP = "quara.objects.operators."


def run(ctx, rep):
    ix = ctx.ix
    rep.rule("O1", "every type pair _compose_qoperations dispatches is handled by a branch (and helper) whose attribute reads exist on "
                   "the guarded classes with the right kind (array vs list vs method)", floor=12)
    rep.rule("O2", "time order: where HS matrices of the two operands are multiplied, the later operation (first argument) is the left "
                   "factor; a gate/process acts on a state vector from the left", floor=6)
    rep.rule("O3", "outcome layout: a flat list filled by a nested loop over both operands' outcomes is labelled by a shape that "
                   "concatenates the operands in the same (outer-first) order; all composition siblings are earlier-operation-major", floor=3)
    rep.rule("O4", "Heisenberg picture: a POVM vector multiplies an HS matrix from the left (vec @ hs, or hs.T @ vec); the outcome "
                   "probability of a measurement process is the trace functional of the unnormalised post-state and the post-state is "
                   "divided by that same probability", floor=4)
    rep.rule("O6", "the POVM measured by a measurement process is the Heisenberg image of the identity: element x is sqrt(d) times ROW 0 of "
                   "HS_x in an identity-first orthonormal basis (column 0 would be the Schroedinger image M_x(I) of the identity)", floor=1)
    rep.rule("S2", "projective back-action (mode 1): for a repeated eigenvalue the rank-1 projectors are summed to the eigenspace projector "
                   "P before the quadratic term kron(P, conj P) is formed (the sum of per-vector terms drops the cross terms and dephases the "
                   "state inside the eigenspace)", floor=1)
    rep.rule("S1", "projective back-action (mode 1): eigenvectors are taken as columns and projectors are v v-dagger", floor=2)
    rep.rule("O5", "compose_qoperations folds right-to-left: the last argument is applied first", floor=1)
    f = ix.func(OP + "_compose_qoperations")
    p1, p2 = f.params[0], f.params[1]
    branches = dispatch_branches(ctx, f, p1, p2)
    if len(branches) < 12:
        rep.undecided("O1", f, "dispatch", "expected at least 12 typed branches, found %d" % len(branches))
    seen_pairs = []
    for c1, c2, br in branches:
        seen_pairs.append((c1.name, c2.name))
        con = "branch (%s, %s)" % (c1.name, c2.name)
        probs = typed_attribute_problems(ctx, f, {p1: c1, p2: c2}, br.body)
        helpers = helper_calls(ctx, f, br, p1, p2)
        for h, call in helpers:
            hp = h.params
            probs += [(n, "in %s: %s" % (h.name, t)) for n, t in typed_attribute_problems(ctx, h, {hp[0]: c1, hp[1]: c2})]
        if probs:
            for n, t in probs:
                rep.violation("O1", f, con, t, node=n)
        else:
            rep.holds("O1", f, con, "attribute reads fit %s / %s (%d helper(s))" % (c1.name, c2.name, len(helpers)), node=br)
        # ---- O2 / O4 on the branch body and helpers
        scopes = [(f, [n for s in br.body for n in ast.walk(s)], p1, p2)]
        for h, _ in helpers:
            scopes.append((h, list(own_nodes(h.node)), h.params[0], h.params[1]))
            # helpers of helpers that take the same operands
            for sub in own_nodes(h.node):
                if isinstance(sub, ast.Call) and isinstance(sub.func, ast.Name) and len(sub.args) >= 2 and unparse(sub.args[0]) == h.params[0] \
                        and unparse(sub.args[1]) in (h.params[1], "state_old"):
                    t = ix.scope_lookup(h.module, h, sub.func.id)
                    if isinstance(t, Func) and t is not h:
                        scopes.append((t, list(own_nodes(t.node)), t.params[0], t.params[1]))
        for g, nodes, a, b in scopes:
            for node, l, r in matmul_sites(nodes, a, b):
                con2 = "%s: %s" % (g.name, unparse(node))
                kinds = (l[1], r[1])
                if kinds == ("hs", "hs"):
                    rep.check(l[0] == 1, "O2", g, con2, "later operation on the left", "the earlier operation's HS matrix (second argument) is the "
                              "left factor: the product applies the operations in the wrong time order", node=node)
                elif kinds == ("hs", "vec"):
                    if c1.name == "Povm":
                        rep.violation("O4", g, con2, "a POVM vector must multiply the HS matrix from the left (Heisenberg picture)", node=node)
                    else:
                        rep.check(l[0] == 1, "O2", g, con2, "operation acts on the state from the left", "state and operation roles are swapped", node=node)
                elif kinds in (("vec", "hs"), ("hsT", "vec")):
                    povm_owner = l[0] if kinds[0] == "vec" else r[0]
                    rep.check(c1.name == "Povm" and povm_owner == 1, "O4", g, con2, "Heisenberg picture: POVM vector on the left of the map (or map transposed)",
                              "this product transposes the map although the first operand is not a POVM", node=node)
                else:
                    rep.undecided("O2", g, con2, "operand kinds %s" % (kinds,))
    # ---- O3
    orders = []
    for name in ("_compose_qoperations_MProcess_MProcess", "_compose_qoperations_Povm_MProcess", "_compose_qoperations_MProcess_StateEnsemble",
                 "_compose_qoperations_Povm_StateEnsemble"):
        h = ix.func(OP + name)
        a, b = h.params[0], h.params[1]
        fills, shapes = layout_sites(h, a, b)
        # single loops over one operand's states that extend per-outcome lists are earlier-major by construction
        if name.endswith("MProcess_StateEnsemble") or name.endswith("Povm_StateEnsemble"):
            loops = [n for n in own_nodes(h.node) if isinstance(n, ast.For) and ("%s.states" % b) in unparse(n.iter)]
            if loops and not fills:
                fills = [(loops[0], 2, 1)]
        for node, o_outer, o_inner in fills:
            orders.append((h, node, o_outer))
            for snode, s1, s2 in shapes:
                con = "%s: fill %s-major, shape %s first" % (h.name, "elem%d" % o_outer, "elem%d" % s1)
                rep.check(s1 == o_outer, "O3", h, con, "list order and shape agree", "the list is filled with operand %d's outcomes as the slow index, "
                          "but the shape lists operand %d first: for different outcome counts the multi-index labels the wrong elements" % (o_outer, s1), node=snode)
        if not fills:
            rep.undecided("O3", h, "layout", "no nested fill found")
    majors = {o for _, _, o in orders}
    rep.check(majors == {2}, "O3", ix.func(OP + "_compose_qoperations"), "sibling layouts", "all composition helpers are earlier-operation-major (second argument outermost)",
              "helpers disagree on which operand is the slow index: %s" % [(h.name, o) for h, _, o in orders])
    # ---- O4: MProcess on State probabilities
    _o4_probability(ctx, rep)
    _o4_weight_after_normalisation(ctx, rep)
    # ---- S1: Povm.generate_mprocess
    g = ix.func("quara.objects.povm.Povm.generate_mprocess")
    fs = spectral.check(g) + spectral.outer_products(g)
    if not fs:
        rep.undecided("S1", g, "mode 1", "no eigen-decomposition found")
    seen = set()
    for fd in fs:
        k = (fd.kind, unparse(fd.node))
        if k in seen:
            continue
        seen.add(k)
        if fd.ok is True:
            rep.holds("S1", g, fd.node, fd.text, node=fd.node)
        elif fd.ok is False:
            rep.violation("S1", g, fd.node, fd.text, node=fd.node)
    _s2_eigenspace(ctx, rep, g)
    _to_povm(ctx, rep)
    # ---- O5
    c = ix.func(OP + "compose_qoperations")
    txt = [unparse(s) for s in c.node.body]
    ok = any(t == "temp = element_list[-1]" for t in txt) and any("for elem in reversed(element_list[:-1])" in t and "temp = _compose_qoperations(elem, temp)" in t for t in txt)
    rep.check(ok, "O5", c, "fold", "temp = last; for elem in reversed(rest): temp = compose(elem, temp)",
              "the chain is not folded from the right (last argument first)", node=c.node)


def _o4_probability(ctx, rep):
    from ..astutil import deep_inline
    from ..symsum import subst
    h = ctx.ix.func(OP + "_compose_qoperations_MProcess_State_for_States")
    a, b = h.params[0], h.params[1]
    loops = [n for n in own_nodes(h.node) if isinstance(n, ast.For) and unparse(n.iter) == "%s.hss" % a]
    if not loops:
        rep.undecided("O4", h, "probability", "no loop over the outcomes of the measurement process")
        return
    # local helpers (possibly defined once per basis branch) that compute the probability from the unnormalised post-state
    helpers = {}
    for n in ast.walk(h.node):
        if isinstance(n, ast.FunctionDef) and n is not h.node:
            body = [x for x in n.body if not (isinstance(x, ast.Expr) and isinstance(x.value, ast.Constant))]
            if len(body) == 1 and isinstance(body[0], ast.Return) and body[0].value is not None:
                helpers.setdefault(n.name, []).append((n, body[0].value))
    n_forms = 0
    names_px = {}
    for lp in loops:
        lv = unparse(lp.target)
        alldefs = {}
        for s in ast.walk(lp):
            if isinstance(s, ast.Assign) and len(s.targets) == 1 and isinstance(s.targets[0], ast.Name):
                alldefs.setdefault(s.targets[0].id, []).append(s.value)
        defs = {k: v[0] for k, v in alldefs.items()}
        # the unnormalised post-state: the local defined as <loop var> @ <state>.vec
        mx_name = next((k for k, v in defs.items() if unparse(v) == "%s @ %s.vec" % (lv, b) and len(alldefs[k]) == 1), None)
        if mx_name is None:
            cand = {k: unparse(v) for k, v in defs.items() if "@" in unparse(v)}
            if cand and all(len(alldefs[k]) == 1 for k in cand):
                rep.violation("O4", h, lp, "unnormalised post-state is %s, expected %s @ %s.vec" % (cand or None, lv, b), node=lp)
            else:
                rep.undecided("O4", h, lp, "no unnormalised post-state %s @ %s.vec found in the loop" % (lv, b))
            continue
        # the probability: the local that is later compared with eps_zero / appended next to the post-state
        px_name = next((k for k, vs in alldefs.items() if k != mx_name
                        and any(isinstance(x, ast.Name) and x.id == mx_name for v in vs for x in ast.walk(v))), None)
        if px_name is None:
            rep.undecided("O4", h, lp, "no probability computed from %s" % mx_name)
            continue
        names_px[id(lp)] = (mx_name, px_name)
        forms = []
        for px in alldefs[px_name]:
            if isinstance(px, ast.Constant) and px.value in (0, 0.0):
                continue        # the truncation of a negligible probability
            if isinstance(px, ast.Call) and isinstance(px.func, ast.Name) and px.func.id in helpers and len(px.args) == 1 and not px.keywords:
                for fn, ret in helpers[px.func.id]:
                    prm = [x.arg for x in fn.args.args]
                    if len(prm) == 1:
                        forms.append(subst(ret, {prm[0]: px.args[0]}))
            else:
                forms.append(px)
        px = alldefs[px_name][0]
        for e in forms:
            n_forms += 1
            t = unparse(e)
            if "%s[0]" % mx_name in t and isinstance(e, ast.BinOp) and isinstance(e.op, ast.Mult):
                try:
                    coef = e.left if unparse(e.right) == "%s[0]" % mx_name else (e.right if unparse(e.left) == "%s[0]" % mx_name else None)
                    c = _size_poly(coef, h)
                    ok = c == Poly.sym("d") ** __import__("fractions").Fraction(1, 2)
                    rep.check(ok, "O4", h, "p_x = %s" % t, "trace functional in an identity-first orthonormal basis: sqrt(d) * (M rho)[0]",
                              "probability is %r * (M rho)[0]; the trace of the post-state is sqrt(d) * coefficient 0" % c, node=e)
                except Undecided as ex:
                    rep.undecided("O4", h, "p_x = %s" % t, str(ex))
            elif isinstance(e, ast.Call) and (dotted(e.func) or "") in ("np.vdot", "np.dot", "np.inner") and len(e.args) == 2 \
                    and unparse(e.args[1]) == mx_name and "I_vec" in unparse(e.args[0]):
                rep.holds("O4", h, "p_x = %s" % t, "trace functional <I, M rho> in a general basis", node=e)
            else:
                rep.violation("O4", h, "p_x = %s" % t, "probability is not the trace functional of the unnormalised post-state", node=px)
    if n_forms == 0:
        rep.undecided("O4", h, "probability", "no probability expression recognised")
    # post state = Mx_rho / p_x with the same pair
    if not names_px:
        return
    nodes = list(own_nodes(h.node))
    lists_m, lists_p = set(), set()
    for mx_name, px_name in names_px.values():
        for c in nodes:
            if isinstance(c, ast.Call) and isinstance(c.func, ast.Attribute) and c.func.attr == "append" and isinstance(c.func.value, ast.Name) \
                    and len(c.args) == 1 and isinstance(c.args[0], ast.Name):
                if c.args[0].id == mx_name:
                    lists_m.add(c.func.value.id)
                if c.args[0].id == px_name:
                    lists_p.add(c.func.value.id)
    pairs = []      # (node, name bound to an element of the post-state list, name bound to the matching probability)
    for n in nodes:
        if isinstance(n, (ast.For, ast.comprehension)) and isinstance(n.iter, ast.Call) and dotted(n.iter.func) == "zip" and len(n.iter.args) == 2 \
                and all(isinstance(x, ast.Name) for x in n.iter.args) and isinstance(n.target, ast.Tuple) and len(n.target.elts) == 2 \
                and all(isinstance(x, ast.Name) for x in n.target.elts):
            i0, i1 = n.iter.args[0].id, n.iter.args[1].id
            t0, t1 = n.target.elts[0].id, n.target.elts[1].id
            if i0 in lists_m and i1 in lists_p:
                pairs.append((n, t0, t1))
            elif i1 in lists_m and i0 in lists_p:
                pairs.append((n, t1, t0))
    if len(lists_m) != 1 or len(lists_p) != 1 or not pairs:
        rep.undecided("O4", h, "post-measurement state", "no loop over zip(<unnormalised post-states>, <probabilities>) found (lists %s / %s)"
                      % (sorted(lists_m), sorted(lists_p)))
        return
    for n, tm, tp in pairs:
        scope = n if isinstance(n, ast.For) else getattr(n, "_parent", n)
        divs = [x for x in ast.walk(scope) if isinstance(x, ast.BinOp) and isinstance(x.op, ast.Div) and isinstance(x.left, ast.Name) and x.left.id == tm]
        div_lefts = {id(x.left) for x in divs}
        uses = [x for x in ast.walk(scope) if isinstance(x, ast.Name) and x.id == tm and isinstance(x.ctx, ast.Load) and id(x) not in div_lefts]
        if uses:
            rep.violation("O4", h, "post-measurement state", "the unnormalised post-state %s is used without dividing it by its probability %s: "
                          "the post-measurement state is not normalised" % (tm, tp), node=uses[0])
            continue
        if not divs:
            rep.undecided("O4", h, "post-measurement state", "the unnormalised post-state %s is not used in the loop over the pairs" % tm)
            continue
        ok = all(isinstance(x.right, ast.Name) and x.right.id == tp for x in divs)
        rep.check(ok, "O4", h, "post-measurement state", "rho_x = (M rho)_x / p_x with the probability of the same outcome",
                  "the post-measurement state is not the unnormalised state divided by its own probability (%s)" % ", ".join(unparse(x) for x in divs),
                  node=divs[0])



def _o4_weight_after_normalisation(ctx, rep):
    """the probabilities returned for one branch of an ensemble are (branch weight) x (conditional probabilities, renormalised after
    truncation): the renormalisation must act on the conditional probabilities, not on the weighted ones (which would make every
    truncated branch sum to 1 instead of to its weight)"""
    from ..symsum import cases, returning
    h = ctx.ix.func(OP + "_compose_qoperations_MProcess_State_for_States")
    wparams = [p for p in h.params if "weight" in p]
    con = "branch weight x renormalised conditional probabilities"
    if not wparams:
        rep.undecided("O4", h, con, "no weight parameter")
        return
    w = wparams[0]
    cs = cases(h)
    if not cs:
        rep.undecided("O4", h, con, "too many paths")
        return
    n = 0
    for c in returning(cs):
        v = c.value
        if not isinstance(v, ast.Tuple):
            continue
        for e in v.elts:
            if not any(isinstance(x, ast.Name) and x.id == w for x in ast.walk(e)):
                continue
            n += 1
            # outermost operation: the weighting, or a normalisation of something already weighted?
            def weighted_top(x):
                if isinstance(x, (ast.ListComp, ast.GeneratorExp)):
                    return any(isinstance(y, ast.Name) and y.id == w for y in ast.walk(x.elt))
                if isinstance(x, ast.BinOp) and isinstance(x.op, ast.Mult):
                    return (isinstance(x.left, ast.Name) and x.left.id == w) or (isinstance(x.right, ast.Name) and x.right.id == w)
                if isinstance(x, ast.Call) and dotted(x.func) in ("list", "np.array", "np.asarray", "tuple") and x.args:
                    return weighted_top(x.args[0])
                return False
            norm_top = isinstance(e, ast.BinOp) and isinstance(e.op, ast.Div) and isinstance(e.right, ast.Call) and (dotted(e.right.func) or "").split(".")[-1] == "sum"
            g = " and ".join(("" if pol else "not ") + t for t, pol, _ in c.guards) or "always"
            if norm_top and any(isinstance(x, ast.Name) and x.id == w for x in ast.walk(e.left)):
                rep.violation("O4", h, con + " [%s]" % g[:60], "the returned probabilities are <weighted list> / sum(<weighted list>): after a truncation the branch "
                              "sums to 1 instead of to its weight `%s`, so the joint distribution of the ensemble is rescaled" % w, node=c.ret_node)
            elif weighted_top(e):
                rep.holds("O4", h, con + " [%s]" % g[:60], "weight applied last", node=c.ret_node)
            else:
                rep.undecided("O4", h, con + " [%s]" % g[:60], "returned probabilities `%s` are outside the recognised forms" % unparse(e)[:80])
    if n == 0:
        rep.undecided("O4", h, con, "no returned value depends on the weight")


def _s2_eigenspace(ctx, rep, g):
    groups = [n for n in own_nodes(g.node) if isinstance(n, ast.For) and isinstance(n.iter, ast.Call) and isinstance(n.iter.func, ast.Attribute)
              and n.iter.func.attr == "items" and isinstance(n.target, ast.Tuple) and len(n.target.elts) == 2
              and all(isinstance(x, ast.Name) for x in n.target.elts)]
    if len(groups) != 1:
        rep.undecided("S2", g, "eigenvalue groups", "expected one loop over (eigenvalue, projectors) groups, found %d" % len(groups))
        return
    lp = groups[0]
    ev, ps = lp.target.elts[0].id, lp.target.elts[1].id
    body = [x for st in lp.body for x in ast.walk(st)]
    group_names, elem_names = set(), set()
    for n in body:
        if isinstance(n, ast.Assign) and len(n.targets) == 1 and isinstance(n.targets[0], ast.Name):
            t = unparse(n.value).replace(" ", "")
            if t in ("reduce(add,%s)" % ps, "sum(%s)" % ps, "np.sum(%s,axis=0)" % ps, "functools.reduce(add,%s)" % ps, "reduce(operator.add,%s)" % ps):
                group_names.add(n.targets[0].id)
        if isinstance(n, (ast.For, ast.comprehension)) and isinstance(n.target, ast.Name) and unparse(n.iter) == ps:
            elem_names.add(n.target.id)
    krons = [n for n in body if isinstance(n, ast.Call) and (dotted(n.func) or "").split(".")[-1] == "kron" and len(n.args) == 2]
    if not krons:
        rep.undecided("S2", g, "quadratic term", "no kron(P, conj P) inside the group loop")
        return
    from ..matexpr import product
    for k in krons:
        bases = {f[0] for a in k.args for f in product(a)}
        con = unparse(k)
        if bases and bases <= group_names:
            rep.holds("S2", g, con, "kron of the summed eigenspace projector", node=k)
        elif bases & elem_names:
            rep.violation("S2", g, con, "the quadratic term is formed per eigenvector (%s ranges over the projectors of one eigenvalue) and the terms are "
                          "added: sum_i kron(P_i, conj P_i) lacks the cross terms of kron(sum P_i, conj sum P_i), so coherence inside a "
                          "degenerate eigenspace is destroyed" % sorted(bases & elem_names), node=k)
        else:
            rep.undecided("S2", g, con, "operands %s are neither the summed projector nor single projectors of the group" % sorted(bases))



def _to_povm(ctx, rep):
    from ..astutil import deep_inline
    f = ctx.ix.funcs.get("quara.objects.mprocess.MProcess.to_povm")
    if f is None:
        rep.undecided("O6", "quara.objects.mprocess.MProcess", "to_povm", "method not found")
        return
    # element-wise map over self.hss (comprehension or append loop)
    cands = []
    for n in own_nodes(f.node):
        if isinstance(n, (ast.ListComp, ast.GeneratorExp)) and len(n.generators) == 1 and isinstance(n.generators[0].target, ast.Name) \
                and unparse(n.generators[0].iter) in ("self.hss", "self._hss"):
            cands.append((n.generators[0].target.id, n.elt, n))
        if isinstance(n, ast.For) and isinstance(n.target, ast.Name) and unparse(n.iter) in ("self.hss", "self._hss"):
            apps = [c for st in n.body for c in ast.walk(st) if isinstance(c, ast.Call) and isinstance(c.func, ast.Attribute) and c.func.attr == "append" and c.args]
            local = {st.targets[0].id: st.value for st in n.body if isinstance(st, ast.Assign) and len(st.targets) == 1 and isinstance(st.targets[0], ast.Name)}
            for a in apps:
                e = a.args[0]
                for _ in range(3):
                    if isinstance(e, ast.Name) and e.id in local:
                        e = local[e.id]
                cands.append((n.target.id, e, n))
    if len(cands) != 1:
        rep.undecided("O6", f, "to_povm", "expected one element-wise map over self.hss, found %d" % len(cands))
        return
    lv, e, node = cands[0]
    e = deep_inline(f, e)
    subs = [x for x in ast.walk(e) if isinstance(x, ast.Subscript) and isinstance(x.value, ast.Name) and x.value.id == lv]
    if len(subs) == 1 and e is subs[0]:
        # the bare row / column: scale factor 1
        e = ast.BinOp(left=ast.Constant(value=1), op=ast.Mult(), right=subs[0])
    if len(subs) != 1 or not (isinstance(e, ast.BinOp) and isinstance(e.op, ast.Mult)):
        rep.undecided("O6", f, unparse(e), "element is not <scalar> * <row of the HS matrix>")
        return
    sub = subs[0]
    sl = sub.slice
    row0 = is_num(sl, 0) or (isinstance(sl, ast.Tuple) and len(sl.elts) == 2 and is_num(sl.elts[0], 0) and isinstance(sl.elts[1], ast.Slice)
                             and sl.elts[1].lower is None and sl.elts[1].upper is None)
    col0 = isinstance(sl, ast.Tuple) and len(sl.elts) == 2 and is_num(sl.elts[1], 0) and isinstance(sl.elts[0], ast.Slice)
    coef = e.left if e.right is sub else (e.right if e.left is sub else None)
    try:
        cpoly = _size_poly(coef, f) if coef is not None else None
    except Undecided:
        cpoly = None
    want = Poly.sym("d") ** __import__("fractions").Fraction(1, 2)
    if col0:
        rep.violation("O6", f, unparse(e), "the element is built from COLUMN 0 of the HS matrix, i.e. the image M_x(I)/sqrt(d) of the identity; the POVM "
                      "element is M_x^†(I), which is row 0 (they coincide only for symmetric HS matrices, e.g. projective processes)", node=sub)
    elif not row0:
        rep.undecided("O6", f, unparse(e), "subscript %s is neither row 0 nor column 0" % unparse(sub))
    elif cpoly is None:
        rep.undecided("O6", f, unparse(e), "scale factor not recognised")
    else:
        rep.check(cpoly == want, "O6", f, unparse(e), "sqrt(d) * row 0", "the element is %r * row 0; the identity is sqrt(d) * B_0, so the factor must be d^1/2" % cpoly, node=sub)
