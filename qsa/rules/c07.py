"""C07 - tensor products: Kronecker dimensions multiply, outcome layout, dispatch typing,
subsystem ordering (sort before the product basis; permutation derived from what was multiplied)."""
from __future__ import annotations

import ast

from ..astutil import const, inline, is_num, kwarg, returns, single_defs, unparse
from ..index import AnalysisError, Class, Func, dotted, own_nodes
from ..layout import dispatch_branches, helper_calls, layout_sites, owner_of, typed_attribute_problems

OP = "quara.objects.operators."
MU = "quara.utils.matrix_util."


def run(ctx, rep):
    ix = ctx.ix
    rep.rule("K1", "vec-permutation padding: every identity block kron-ed around the commutation matrix has the PRODUCT of the sizes it "
                   "stands for (dim kron = product of dims, so the padded matrix has side prod(size_list) only if head and tail are products)", floor=2)
    rep.rule("O3", "product measurements: the flat list is filled in the order the reported outcome shape concatenates the operands", floor=3)
    rep.rule("O1", "every type pair _tensor_product dispatches is handled with attribute reads that exist on the guarded classes", floor=11)
    rep.rule("P1", "CompositeSystem sorts a copy of its elemental systems by name before storing them and builds the product basis from "
                   "the stored (sorted) tuple", floor=2)
    rep.rule("P2", "each tensor helper kron-s operand 1 before operand 2 and derives system_order / size_list from the same unsorted "
                   "concatenation it handed to CompositeSystem", floor=5)
    rep.rule("K2", "sorting by adjacent transpositions: inside the loop every elementary swap is computed from the working copies that "
                   "the loop itself swaps (the parameters they were copied from are stale after the first swap), and order and sizes are "
                   "swapped at the same positions", floor=3)
    _k1(ctx, rep)
    _k2(ctx, rep)
    rep.rule("E1", "qutrit-to-qubit embedding: the coefficient of the identity padded onto the extra level makes the padded level physical "
                   "(0 for a state, 1/N over the N POVM elements, 1/sqrt(N) over ALL N Kraus operators of a gate / measurement process)", floor=4)
    _e1(ctx, rep)
    _p2_povm_counts(ctx, rep)
    # ---- O1
    f = ix.func(OP + "_tensor_product")
    p1, p2 = f.params[0], f.params[1]
    branches = dispatch_branches(ctx, f, p1, p2)
    for c1, c2, br in branches:
        con = "branch (%s, %s)" % (c1.name, c2.name)
        probs = typed_attribute_problems(ctx, f, {p1: c1, p2: c2}, br.body)
        for h, call in helper_calls(ctx, f, br, p1, p2):
            probs += [(n, "in %s: %s" % (h.name, t)) for n, t in typed_attribute_problems(ctx, h, {h.params[0]: c1, h.params[1]: c2})]
        if probs:
            for n, t in probs:
                rep.violation("O1", f, con, t, node=n)
        else:
            rep.holds("O1", f, con, "attribute reads fit the guarded types", node=br)
    # the chain ends in a raise
    from ..astutil import always_exits, body_wo_doc
    body = body_wo_doc(f.node)
    ends_in_raise = bool(body) and (isinstance(body[-1], ast.Raise) or (isinstance(body[-1], ast.If) and always_exits([body[-1]])))
    if not branches:
        # no if-chain on the operand types at all (e.g. a lookup table keyed by the type pair): the dispatch is not read, so nothing
        # can be said about what an unsupported pair does
        rep.undecided("O1", f, "dispatch", "no branch on the types of %s / %s found: the dispatch is outside the recognised forms" % (p1, p2))
    else:
        rep.check(ends_in_raise and all(r.value is not None for r in returns(f)), "O1", f, "fall-through", "unsupported pairs raise TypeError",
                  "an unsupported type pair falls through without an error", node=f.node)
    # ---- O3
    for name in ("_tensor_product_MProcess_MProcess", "_tensor_product_StateEnsemble_StateEnsemble", "_tensor_product_Povm_Povm"):
        h = ix.func(OP + name)
        a, b = h.params[0], h.params[1]
        fills, shapes = layout_sites(h, a, b)
        if not fills or not shapes:
            rep.undecided("O3", h, "layout", "no fill/shape pair found")
            continue
        for node, o_outer, o_inner in fills:
            for snode, s1, s2 in shapes:
                con = "%s: fill operand-%d-major, shape operand %d first" % (h.name, o_outer, s1)
                rep.check(s1 == o_outer, "O3", h, con, "layout and shape agree", "the slow index of the list belongs to operand %d but the shape "
                          "lists operand %d first: the multi-index is mislabelled when outcome counts differ" % (o_outer, s1), node=snode)
    # ---- P1
    _p1(ctx, rep)
    # ---- P2
    for name in ("_tensor_product_Gate_Gate", "_tensor_product_Gate_MProcess", "_tensor_product_MProcess_Gate", "_tensor_product_MProcess_MProcess",
                 "_tensor_product_State_State", "_tensor_product_Povm_Povm"):
        h = ix.func(OP + name)
        _p2(ctx, rep, h)
    _p2_hs(ctx, rep)


def _k1(ctx, rep):
    f = ctx.ix.func(MU + "_left_permutation_matrix")
    krons = [n for n in own_nodes(f.node) if isinstance(n, ast.Call) and (dotted(n.func) or "").endswith("kron")]
    pad_names = set()
    for k in krons:
        for a in k.args:
            if isinstance(a, ast.Name):
                pad_names.add(a.id)
    eyes = [n for n in own_nodes(f.node) if isinstance(n, ast.Assign) and isinstance(n.targets[0], ast.Name) and n.targets[0].id in pad_names
            and isinstance(n.value, ast.Call) and (dotted(n.value.func) or "").split(".")[-1] in ("eye", "identity") and n.value.args]
    n_sites = 0
    for e in eyes:
        arg = e.value.args[0]
        if is_num(arg, 1):
            continue
        # the size is defined just before in the same block
        blk = getattr(e, "_parent", None)
        src = None
        for fld in ("body", "orelse"):
            b = getattr(blk, fld, [])
            if e in b:
                for s in b[: b.index(e)]:
                    if isinstance(s, ast.Assign) and unparse(s.targets[0]) == unparse(arg):
                        src = s.value
        src = src if src is not None else arg
        n_sites += 1
        con = "%s = eye(%s)" % (unparse(e.targets[0]), unparse(src))
        agg, ok = _aggregate(src)
        if agg is None:
            rep.undecided("K1", f, con, "the block size is not an aggregate over a slice of the size list")
        elif ok:
            rep.holds("K1", f, con, "product of the sizes (%s)" % agg, node=e)
        else:
            rep.violation("K1", f, con, "the identity block has side %s of the sizes; kron multiplies dimensions, so padding a commutation matrix "
                                        "needs the PRODUCT (the two coincide only for [2, 2]-like lists and break for four subsystems)" % agg, node=e)
    if n_sites < 2:
        rep.undecided("K1", f, "padding blocks", "expected a head and a tail identity block, found %d" % n_sites)
    # the commutation matrix swaps the two neighbours' sizes
    kcalls = [n for n in own_nodes(f.node) if isinstance(n, ast.Call) and unparse(n.func) == "_K"]
    ok = len(kcalls) == 1 and [unparse(a) for a in kcalls[0].args] == ["size_list[position]", "size_list[position - 1]"]
    rep.check(ok, "K1", f, "commutation block", "_K(size[position], size[position-1]) between head and tail",
              "commutation block is %s" % ([unparse(a) for a in kcalls[0].args] if kcalls else None), node=kcalls[0] if kcalls else f.node)


def _aggregate(e: ast.AST):
    """('sum'|'product', is product) for reduce(op, xs) / np.prod / np.sum / sum / math.prod"""
    if isinstance(e, ast.IfExp):
        # `<aggregate> if <there is something to aggregate> else 1`: the literal 1 is the empty product
        kinds = []
        for br in (e.body, e.orelse):
            if is_num(br, 1):
                continue
            k, okb = _aggregate(br)
            if k is None:
                return None, False
            kinds.append((k, okb))
        if kinds and len({k for k, _ in kinds}) == 1:
            return kinds[0][0], all(o for _, o in kinds)
        return None, False
    if isinstance(e, ast.Call):
        dn = dotted(e.func) or ""
        base = dn.split(".")[-1]
        if base == "reduce" and len(e.args) >= 2:
            op = unparse(e.args[0])
            if op in ("mul", "operator.mul", "np.multiply", "lambda a, b: a * b", "lambda x, y: x * y"):
                return "product", True
            if op in ("add", "operator.add", "np.add", "lambda a, b: a + b", "lambda x, y: x + y"):
                return "sum", False
        if base in ("prod",):
            return "product", True
        if base in ("sum",):
            return "sum", False
        if base == "int" and e.args:
            return _aggregate(e.args[0])
    return None, False


def _p1(ctx, rep):
    f = ctx.ix.func("quara.objects.composite_system.CompositeSystem.__init__")
    cfg = ctx.cfg(f)
    sorts = [n for n in own_nodes(f.node) if isinstance(n, ast.Call) and isinstance(n.func, ast.Attribute) and n.func.attr == "sort"]
    stores = [n for n in own_nodes(f.node) if isinstance(n, (ast.Assign, ast.AnnAssign)) and
              unparse(n.targets[0] if isinstance(n, ast.Assign) else n.target) == "self._elemental_systems"]
    ok, why = False, "no sort / store found"
    if len(sorts) == 1 and len(stores) == 1:
        s = sorts[0]
        key = kwarg(s, "key")
        recv = unparse(s.func.value)
        by_name = key is not None and isinstance(key, ast.Lambda) and unparse(key.body).endswith(".name") and kwarg(s, "reverse") is None
        defs = {unparse(n.targets[0]): n.value for n in own_nodes(f.node) if isinstance(n, ast.Assign) and isinstance(n.targets[0], ast.Name)}
        is_copy = recv in defs and isinstance(defs[recv], ast.Call) and (dotted(defs[recv].func) or "") in ("copy.copy", "list", "copy.deepcopy", "sorted") \
            and unparse(defs[recv].args[0]) == "systems"
        stored = unparse(stores[0].value) == "tuple(%s)" % recv
        dom = cfg.dominates(cfg.node_of(s), cfg.node_of(stores[0]))
        ok = by_name and is_copy and stored and dom
        why = "sort by name: %s, on a copy of the argument: %s, sorted tuple stored: %s, sort before store: %s" % (by_name, is_copy, stored, dom)
    rep.check(ok, "P1", f, "subsystem order", "a copy of the systems is sorted by name and stored", why, node=stores[0] if stores else f.node)
    # basis built from the stored tuple, in order
    ok = False
    for n in own_nodes(f.node):
        if isinstance(n, ast.Assign) and unparse(n.targets[0]) == "basis_list":
            ok = unparse(n.value) == "[e_sys.basis for e_sys in self._elemental_systems]"
    loops = [n for n in own_nodes(f.node) if isinstance(n, ast.For) and unparse(n.iter) == "basis_list[1:]"]
    ok = ok and len(loops) == 1 and "itertools.product(temp, elem)" in unparse(loops[0]) and "kron(val1, val2)" in unparse(loops[0])
    rep.check(ok, "P1", f, "product basis", "kron over the stored (sorted) systems, left to right",
              "the total basis is not the ordered Kronecker product over self._elemental_systems", node=f.node)


def _p2(ctx, rep, h: Func):
    a, b = h.params[0], h.params[1]
    # e_sys_list = list(a...systems); e_sys_list.extend(b...systems); CompositeSystem(e_sys_list)
    base = [n for n in own_nodes(h.node) if isinstance(n, ast.Assign) and unparse(n.targets[0]) == "e_sys_list"]
    ext = [n for n in own_nodes(h.node) if isinstance(n, ast.Call) and unparse(n.func) == "e_sys_list.extend"]
    ok = len(base) == 1 and len(ext) == 1 and owner_of(base[0].value, {a: 1, b: 2}) == {1} and owner_of(ext[0].args[0], {a: 1, b: 2}) == {2}
    cs = [n for n in own_nodes(h.node) if isinstance(n, ast.Call) and unparse(n.func) == "CompositeSystem"]
    ok = ok and len(cs) == 1 and unparse(cs[0].args[0]) == "e_sys_list"
    why = "the concatenated system list is not [operand 1 systems] + [operand 2 systems] handed to CompositeSystem"
    if ok:
        # system_order / size_list comprehensions over the same list (directly or in _tensor_product_hs_hs)
        so = [n for n in own_nodes(h.node) if isinstance(n, ast.Assign) and unparse(n.targets[0]) in ("system_order", "size_list")]
        for s in so:
            if not (isinstance(s.value, ast.ListComp) and unparse(s.value.generators[0].iter) == "e_sys_list"):
                ok, why = False, "%s is not derived from the concatenation that was multiplied" % unparse(s.targets[0])
        hs_calls = [n for n in own_nodes(h.node) if isinstance(n, ast.Call) and unparse(n.func) == "_tensor_product_hs_hs"]
        for c in hs_calls:
            o1, o2 = owner_of(c.args[0], _own(h, a, b)), owner_of(c.args[1], _own(h, a, b))
            if o1 != {1} or o2 != {2} or unparse(c.args[2]) != "e_sys_list":
                ok, why = False, "_tensor_product_hs_hs is called with %s: operand 1's HS must come first, with the concatenated system list" % [unparse(x) for x in c.args]
        krons = [n for n in own_nodes(h.node) if isinstance(n, ast.Call) and (dotted(n.func) or "").endswith("kron") and len(n.args) == 2]
        for k in krons:
            o1, o2 = owner_of(k.args[0], _own(h, a, b)), owner_of(k.args[1], _own(h, a, b))
            if o1 and o2 and (o1 != {1} or o2 != {2}):
                ok, why = False, "np.kron(%s, %s): operand 2 is multiplied in first although its systems come second in the list" % (unparse(k.args[0]), unparse(k.args[1]))
        if not so and not hs_calls and not krons:
            ok, why = False, "no Kronecker product found"
    rep.check(ok, "P2", h, "operand order in %s" % h.name, "operand 1 first in the product and in the system list; permutation from the same list", why, node=h.node)


def _own(h: Func, a: str, b: str):
    """names owned by operand 1 / 2 including loop variables over their lists"""
    own = {a: 1, b: 2}
    for n in own_nodes(h.node):
        if isinstance(n, (ast.For, ast.comprehension)):
            it = n.iter
            if isinstance(it, ast.Call) and (dotted(it.func) or "").split(".")[-1] == "product" and isinstance(n.target, ast.Tuple):
                for t, src in zip(n.target.elts, it.args):
                    o = owner_of(src, {a: 1, b: 2})
                    if isinstance(t, ast.Name) and len(o) == 1:
                        own[t.id] = next(iter(o))
            elif isinstance(n.target, ast.Name):
                o = owner_of(it, {a: 1, b: 2})
                if len(o) == 1:
                    own[n.target.id] = next(iter(o))
    return own


def _p2_hs(ctx, rep):
    from ..astutil import deep_inline, square_base
    from ..tables import flat_order
    h = ctx.ix.func(OP + "_tensor_product_hs_hs")
    con = "vec-permutation of |HS1>> (x) |HS2>>"
    defs = {n.targets[0].id: n.value for n in own_nodes(h.node) if isinstance(n, ast.Assign) and len(n.targets) == 1 and isinstance(n.targets[0], ast.Name)}
    p1, p2 = h.params[0], h.params[1]

    def kron_args(e):
        if isinstance(e, ast.Call) and (dotted(e.func) or "").split(".")[-1] == "kron" and len(e.args) == 2:
            return e.args
        return None

    def eye_of(e):
        if isinstance(e, ast.Call) and (dotted(e.func) or "").split(".")[-1] in ("eye", "identity") and len(e.args) == 1:
            return unparse(e.args[0]).replace(" ", "")
        return None
    # the vector that is permuted: kron of the row-major flattened operands, first operand first
    perm_apps = [n for n in own_nodes(h.node) if isinstance(n, ast.BinOp) and isinstance(n.op, ast.MatMult)]
    fv = None
    # both Kronecker products are looked for wherever they are written (bound to a local or used in place)
    krons = [n for n in own_nodes(h.node) if kron_args(n) is not None]
    for v in krons:
        nm = unparse(v)[:40]
        e = deep_inline(h, v)
        ka = kron_args(e)
        if ka is not None:
            o1, b1 = flat_order(ctx, ka[0])
            o2, b2 = flat_order(ctx, ka[1])
            if o1 and o2:
                fv = (nm, o1, unparse(b1), o2, unparse(b2))
    perm = None
    for v in krons:
        nm = unparse(v)[:40]
        e = deep_inline(h, v)
        ka = kron_args(e)
        if ka is not None and kron_args(ka[0]) is not None and eye_of(ka[1]) is not None:
            inner = kron_args(ka[0])
            kc = inner[1]
            if eye_of(inner[0]) is not None and isinstance(kc, ast.Call) and (dotted(kc.func) or "").split(".")[-1] == "_K" and len(kc.args) == 2:
                perm = (nm, eye_of(inner[0]), [unparse(a).replace(" ", "") for a in kc.args], eye_of(ka[1]))
    d1, d2 = "%s.shape[0]" % p1, "%s.shape[0]" % p2
    sl = defs.get("size_list")
    so = defs.get("system_order")
    sl_ok = isinstance(sl, ast.ListComp) and len(sl.generators) == 1 and (
        unparse(sl.elt).replace(" ", "") in ("e_sys.dim**2",) or (square_base(sl.elt) is not None and unparse(square_base(sl.elt)) == "%s.dim" % unparse(sl.generators[0].target)))
    so_ok = isinstance(so, ast.ListComp) and len(so.generators) == 1 and unparse(so.elt) == "%s.name" % unparse(so.generators[0].target) \
        and sl is not None and isinstance(sl, ast.ListComp) and unparse(so.generators[0].iter) == unparse(sl.generators[0].iter)
    if fv is None or perm is None:
        rep.undecided("P2", h, con, "did not find kron(flatten(hs1), flatten(hs2)) and kron(kron(eye, _K), eye) (found %s / %s)" % (fv, perm))
        return
    problems = []
    if (fv[1], fv[2], fv[3], fv[4]) != ("C", p1, "C", p2):
        problems.append("the vector is kron(%s-flatten(%s), %s-flatten(%s)); expected the row-major flattenings of %s and %s in this order" % (fv[1], fv[2], fv[3], fv[4], p1, p2))
    if not (perm[1] == d1 and perm[2] == [d2, d1] and perm[3] == d2):
        problems.append("the reordering is I_{%s} (x) K(%s) (x) I_{%s}; expected I_d1 (x) K(d2, d1) (x) I_d2 with d1 = %s, d2 = %s" % (perm[1], ", ".join(perm[2]), perm[3], d1, d2))
    if not sl_ok or not so_ok:
        problems.append("system_order / size_list are not the names and squared dimensions of the same concatenated system list")
    rep.check(not problems, "P2", h, con, "kron(vec HS1, vec HS2) reordered by I_d1 (x) K(d2,d1) (x) I_d2, then by subsystem name", "; ".join(problems), node=h.node)


def _p2_povm_counts(ctx, rep):
    """_tensor_product_Povm_Povm: the outcome counts stored on the result are the name-sorted ones (the elements are permuted to ascending
    subsystem name, so the shape must be too)"""
    from ..astutil import deep_inline
    f = ctx.ix.func(OP + "_tensor_product_Povm_Povm")
    con = "outcome counts of the product follow the sorted subsystem order"
    stores = [n for n in own_nodes(f.node) if isinstance(n, ast.Assign) and len(n.targets) == 1 and isinstance(n.targets[0], ast.Attribute)
              and n.targets[0].attr in ("_nums_local_outcomes", "nums_local_outcomes")]
    kws = [k.value for n in own_nodes(f.node) if isinstance(n, ast.Call) for k in n.keywords if k.arg == "nums_local_outcomes"]
    vals = [n.value for n in stores] + kws
    if not vals:
        rep.undecided("P2", f, con, "no store of the outcome counts found")
        return
    allb = {}
    for n in own_nodes(f.node):
        if isinstance(n, ast.Assign) and len(n.targets) == 1 and isinstance(n.targets[0], ast.Name):
            allb.setdefault(n.targets[0].id, []).append(n.value)

    def derives_from_sorted(x, seen=frozenset(), depth=0):
        if depth > 6:
            return False
        for y in ast.walk(x):
            if isinstance(y, ast.Call) and dotted(y.func) == "sorted":
                return True
        for y in ast.walk(x):
            if isinstance(y, ast.Name) and y.id in allb and y.id not in seen:
                if any(derives_from_sorted(b, seen | {y.id}, depth + 1) for b in allb[y.id]):
                    return True
        return False
    for v in vals:
        e = deep_inline(f, v)
        # the sorted list: built from sorted(zip(names, counts)) / sorted(..., key=...)
        if derives_from_sorted(e):
            rep.holds("P2", f, con, "counts taken from the name-sorted pairs", node=v)
        elif isinstance(e, ast.Name) or (isinstance(e, ast.BinOp) and isinstance(e.op, ast.Add)) or isinstance(e, ast.Call):
            rep.violation("P2", f, con, "the result stores `%s` as its outcome counts, which is in ARGUMENT order; its elements are permuted to ascending "
                                        "subsystem name, so for operands handed over out of order with different outcome counts the multi-index labels the "
                                        "wrong elements" % unparse(v), node=v)
        else:
            rep.undecided("P2", f, con, "stored counts %s not recognised" % unparse(e)[:60])


# ------------------------------------------------------------------------------ E1
def _e1(ctx, rep):
    """embedding qutrits into qubits pads every operator with coeff * I on the extra level; the padded level stays physical only if
    the coefficients of ALL padded operators add up: sum c = 1 for POVM elements, sum c^2 = 1 for Kraus operators, c = 0 for a state"""
    from ..astutil import deep_inline
    from ..index import parents
    kinds = {"state.State": "state", "povm.Povm": "povm", "gate.Gate": "kraus", "mprocess.MProcess": "kraus"}
    for cq, kind in kinds.items():
        c = ctx.ix.classes.get("quara.objects." + cq)
        m = c.methods.get("_embed_qoperation_from_qutrits_to_qubits") if c is not None else None
        if m is None:
            continue
        calls = [n for n in own_nodes(m.node) if isinstance(n, ast.Call) and (dotted(n.func) or "").endswith("_calc_matrix_from_qutrits_to_qubits")]
        con = "%s: padding coefficient" % c.name
        if len(calls) != 1:
            rep.undecided("E1", m, con, "expected one call of _calc_matrix_from_qutrits_to_qubits, found %d" % len(calls))
            continue
        call = calls[0]
        ce = kwarg(call, "coeff") or (call.args[3] if len(call.args) > 3 else None)
        if ce is None:
            rep.undecided("E1", m, con, "coefficient argument not found")
            continue
        ce = deep_inline(m, ce)
        loops = [p for p in parents(call) if isinstance(p, ast.For)][::-1]      # outermost first
        if kind == "state":
            rep.check(is_num(ce, 0) and not loops, "E1", m, con, "density matrix padded with 0", "a state must be padded with 0 (got %s)" % unparse(ce), node=call)
            continue
        # 1 / N (povm)  or  1 / sqrt(N) (kraus)
        N = None
        if isinstance(ce, ast.BinOp) and isinstance(ce.op, ast.Div) and is_num(ce.left, 1):
            d = ce.right
            if kind == "povm":
                N = d
            elif isinstance(d, ast.Call) and (dotted(d.func) or "").split(".")[-1] == "sqrt" and len(d.args) == 1:
                N = d.args[0]
        if N is None:
            rep.violation("E1", m, con, "the coefficient is %s; %s need 1/%s with N the number of padded operators"
                          % (unparse(ce), "POVM elements" if kind == "povm" else "Kraus operators", "N" if kind == "povm" else "sqrt(N)"), node=call) \
                if isinstance(ce, (ast.Constant, ast.BinOp)) else rep.undecided("E1", m, con, "coefficient %s not recognised" % unparse(ce))
            continue
        # how many operators are padded: one per iteration of the loop nest around the call
        def len_of(e):
            return unparse(e.args[0]) if isinstance(e, ast.Call) and dotted(e.func) == "len" and len(e.args) == 1 else None
        if len(loops) == 1 and isinstance(loops[0].iter, ast.Name):
            L = loops[0].iter.id
            ok = len_of(N) in (L, unparse(deep_inline(m, loops[0].iter)))
            rep.check(ok, "E1", m, con, "1/%s over the %s padded operators" % ("N" if kind == "povm" else "sqrt(N)", "len(%s)" % L),
                      "the coefficient counts %s, but %s operators are padded (len(%s)): the padded level does not stay normalised"
                      % (unparse(N), "all the", L), node=call)
        elif len(loops) == 2 and isinstance(loops[0].iter, ast.Name) and isinstance(loops[0].target, ast.Name) \
                and isinstance(loops[1].iter, ast.Name) and loops[1].iter.id == loops[0].target.id:
            O = loops[0].iter.id
            if len_of(N) in (O, unparse(deep_inline(m, loops[0].iter))):
                rep.violation("E1", m, con, "the coefficient is 1/sqrt(len(%s)), the number of OUTCOMES; every Kraus operator of every outcome is padded, so the "
                                            "padded level sums to (number of Kraus operators / number of outcomes) x I and the embedded process is not trace "
                                            "preserving as soon as an outcome has more than one Kraus operator" % O, node=call)
                continue
            # an accumulator: acc += len(x) for every x appended to O (or for every x in O)
            ok = False
            if isinstance(N, ast.Name):
                for a in own_nodes(m.node):
                    if isinstance(a, ast.AugAssign) and isinstance(a.op, ast.Add) and isinstance(a.target, ast.Name) and a.target.id == N.id:
                        x = len_of(a.value)
                        lp = next((p for p in parents(a) if isinstance(p, ast.For)), None)
                        if x and lp is not None:
                            appended = any(isinstance(q, ast.Call) and isinstance(q.func, ast.Attribute) and q.func.attr == "append"
                                           and unparse(q.func.value) == O and q.args and unparse(q.args[0]) == x for q in ast.walk(lp))
                            iterated = isinstance(lp.iter, ast.Name) and lp.iter.id == O and unparse(lp.target) == x
                            ok = ok or appended or iterated
            elif isinstance(N, ast.Call) and dotted(N.func) == "sum" and N.args and isinstance(N.args[0], (ast.GeneratorExp, ast.ListComp)):
                g = N.args[0]
                ok = len(g.generators) == 1 and unparse(g.generators[0].iter) == O and len_of(g.elt) == unparse(g.generators[0].target)
            if ok:
                rep.holds("E1", m, con, "1/sqrt(total number of Kraus operators over all outcomes)", node=call)
            else:
                rep.undecided("E1", m, con, "count %s is not recognised as the total number of padded Kraus operators" % unparse(N))
        else:
            rep.undecided("E1", m, con, "loop nest around the padding call not recognised")


# ------------------------------------------------------------------------------ K2
def _resub(text: str, amap) -> str:
    """replace parameter names by argument texts in a small index expression"""
    e = ast.parse(text, mode="eval").body

    class R(ast.NodeTransformer):
        def visit_Name(self, n):
            return ast.parse(amap[n.id], mode="eval").body if n.id in amap else n
    return unparse(R().visit(e))


def _k2(ctx, rep):
    f = ctx.ix.func("quara.utils.matrix_util.calc_permutation_matrix")
    # working copies: t = copy.copy(p) / list(p) / p[:] / p.copy() of a parameter
    copies = {}
    for n in own_nodes(f.node):
        if isinstance(n, ast.Assign) and len(n.targets) == 1 and isinstance(n.targets[0], ast.Name):
            v = n.value
            src = None
            if isinstance(v, ast.Call) and (dotted(v.func) or "") in ("copy.copy", "copy.deepcopy", "list") and len(v.args) == 1 and isinstance(v.args[0], ast.Name):
                src = v.args[0].id
            elif isinstance(v, ast.Subscript) and isinstance(v.value, ast.Name) and isinstance(v.slice, ast.Slice) and v.slice.lower is None and v.slice.upper is None:
                src = v.value.id
            elif isinstance(v, ast.Call) and isinstance(v.func, ast.Attribute) and v.func.attr == "copy" and isinstance(v.func.value, ast.Name):
                src = v.func.value.id
            if src in f.params:
                copies[n.targets[0].id] = src
    loops = [n for n in own_nodes(f.node) if isinstance(n, (ast.While, ast.For))]
    if len(loops) != 1 or not copies:
        rep.undecided("K2", f, "swap loop", "expected one loop over working copies of the parameters (found %d loops, copies %s)" % (len(loops), copies))
        return
    loop = loops[0]
    body_nodes = [x for st in loop.body for x in ast.walk(st)]
    # swaps: t[i - 1], t[i] = t[i], t[i - 1]
    swaps = {}
    for st in loop.body:
        if isinstance(st, ast.Assign) and len(st.targets) == 1 and isinstance(st.targets[0], ast.Tuple) and isinstance(st.value, ast.Tuple) \
                and len(st.targets[0].elts) == 2 and len(st.value.elts) == 2:
            tl = [unparse(x) for x in st.targets[0].elts]
            vl = [unparse(x) for x in st.value.elts]
            base = {unparse(x.value) for x in st.targets[0].elts + st.value.elts if isinstance(x, ast.Subscript)}
            if len(base) == 1 and tl == vl[::-1] and tl[0] != tl[1]:
                b = next(iter(base))
                idx = tuple(sorted(unparse(x.slice) for x in st.targets[0].elts))
                swaps[b] = (idx, st)
    # swaps performed through a small local helper `def swap(values, position): values[position-1], values[position] = ...`
    def _swap_of(st, names):
        if isinstance(st, ast.Assign) and len(st.targets) == 1 and isinstance(st.targets[0], ast.Tuple) and isinstance(st.value, ast.Tuple) \
                and len(st.targets[0].elts) == 2 and len(st.value.elts) == 2:
            tl = [unparse(x) for x in st.targets[0].elts]
            vl = [unparse(x) for x in st.value.elts]
            base = {unparse(x.value) for x in st.targets[0].elts + st.value.elts if isinstance(x, ast.Subscript)}
            if len(base) == 1 and tl == vl[::-1] and tl[0] != tl[1] and next(iter(base)) in names:
                return next(iter(base)), tuple(sorted(unparse(x.slice) for x in st.targets[0].elts))
        return None
    for st in loop.body:
        c_ = st.value if isinstance(st, ast.Expr) and isinstance(st.value, ast.Call) else None
        if c_ is None or not isinstance(c_.func, ast.Name) or c_.func.id not in f.nested:
            continue
        hfn = f.nested[c_.func.id]
        hb = [x for x in hfn.node.body if not (isinstance(x, ast.Expr) and isinstance(x.value, ast.Constant))]
        if len(hb) != 1 or len(c_.args) != len(hfn.params) or c_.keywords:
            continue
        sw = _swap_of(hb[0], set(hfn.params))
        if sw is None:
            continue
        amap = {p_: unparse(a_) for p_, a_ in zip(hfn.params, c_.args)}
        lst = amap.get(sw[0])
        idx = tuple(sorted(_resub(i_, amap) for i_ in sw[1]))
        if lst is not None:
            swaps[lst] = (idx, st)
    for t, p in sorted(copies.items()):
        mutated = t in swaps
        stale = [x for x in body_nodes if isinstance(x, ast.Name) and x.id == p and isinstance(x.ctx, ast.Load)]
        if not mutated:
            continue
        if stale:
            rep.violation("K2", f, "working copy %s of %s" % (t, p), "`%s` is read inside the loop (line %d) although the loop swaps its working copy `%s`: "
                          "after the first transposition the parameter no longer describes the current arrangement, so every further "
                          "elementary permutation is built for the wrong sizes" % (p, stale[0].lineno, t), node=stale[0])
        else:
            rep.holds("K2", f, "working copy %s of %s" % (t, p), "only the working copy is read inside the loop", node=swaps[t][1])
    if len(swaps) >= 2:
        idxs = {v[0] for v in swaps.values()}
        rep.check(len(idxs) == 1, "K2", f, "lockstep swaps of %s" % sorted(swaps), "same positions %s" % (sorted(idxs)[0],),
                  "the working lists are swapped at different positions %s: order and sizes drift apart" % sorted(idxs), node=loop)
    else:
        unswapped = [t for t in copies if t not in swaps and any(isinstance(x, ast.Name) and x.id == t for x in body_nodes)]
        if swaps and unswapped:
            rep.violation("K2", f, "lockstep swaps of %s" % sorted(copies), "the loop swaps %s but not %s, which it reads on every pass: after the first "
                          "transposition the sizes no longer belong to the systems at those positions" % (sorted(swaps), unswapped), node=loop)
        else:
            rep.undecided("K2", f, "lockstep swaps", "expected the order list and the size list to be swapped in the loop, found %s" % sorted(swaps))
