"""C14 - sampling reproducibility: every draw is threaded from the seed; no global draws;
to_stream's three branches; seeds converted once, streams passed on."""
from __future__ import annotations

import ast

from ..astutil import const, kwarg, returns, unparse
from ..index import AnalysisError, Func, dotted, own_nodes
from ..seeds import SAMPLERS, Seeds, is_seedish

SCOPE = ("quara.objects", "quara.qcircuit", "quara.protocol", "quara.utils", "quara.math", "quara.loss_function",
         "quara.minimization_algorithm", "quara.simulation", "quara.data_analysis")


def draw_sites(ctx, sd: Seeds, f: Func):
    """(node, kind, stream expr or None) for every sampling call in f."""
    streams, lists = sd.stream_vars(f)
    out = []
    for n in own_nodes(f.node):
        if not isinstance(n, ast.Call) or not isinstance(n.func, ast.Attribute):
            continue
        dn = dotted(n.func) or ""
        attr = n.func.attr
        if attr == "rvs":
            out.append((n, "rvs", kwarg(n, "random_state")))
        elif attr in SAMPLERS:
            recv = n.func.value
            rd = dotted(recv) or ""
            if rd in ("np.random", "numpy.random", "random"):
                out.append((n, "global", None))
            elif isinstance(recv, ast.Name) and (recv.id in streams or (recv.id in f.params and is_seedish(recv.id))):
                out.append((n, "method", recv))
            elif isinstance(recv, ast.Attribute) and recv.attr in ("random_state", "_random_state"):
                out.append((n, "method", recv))
            elif isinstance(recv, ast.Subscript) and isinstance(recv.value, ast.Name) and recv.value.id in lists:
                out.append((n, "method", recv))
            elif isinstance(recv, ast.Call) and sd.is_stream_call(f, recv):
                out.append((n, "method", recv))
        elif dn in ("np.random.seed", "numpy.random.seed", "random.seed"):
            out.append((n, "seed", None))
    return out, streams, lists


def stream_ok(f: Func, e, streams, lists, sd=None) -> bool:
    if e is None:
        return False
    if isinstance(e, ast.Call) and sd is not None and sd.is_stream_call(f, e):
        # converted in place: to_stream(<seed parameter or stream>)
        return not e.args or stream_ok(f, e.args[0], streams, lists, sd) or isinstance(e.args[0], ast.Call)
    if isinstance(e, ast.Name):
        return e.id in streams or (e.id in f.params and is_seedish(e.id))
    if isinstance(e, ast.Attribute):
        return e.attr in ("random_state", "_random_state")
    if isinstance(e, ast.Subscript) and isinstance(e.value, ast.Name):
        return e.value.id in lists
    return False


def run(ctx, rep):
    ix = ctx.ix
    sd = Seeds(ctx)
    rep.stats["call_sites_resolved"] = len(sd.sites)
    rep.stats["seed_sink_parameters"] = len(sd.sinks)
    rep.rule("G1", "every random draw takes its stream (receiver or random_state=) from a value derived from to_stream(seed parameter), "
                   "a Generator, or the sampling object's own random_state", floor=6)
    rep.rule("G2", "no module-level numpy.random draw and no global re-seeding outside Experiment.reset_seed_data", floor=1)
    rep.rule("G3", "to_stream: None -> np.random, int -> Generator(MT19937(seed)), anything else -> the argument itself", floor=1)
    rep.rule("G4", "a seed-or-generator parameter is converted once, outside every loop, and the stream (not the raw seed) is what "
                   "is handed to callees inside loops", floor=10)
    rep.rule("G5", "a function that receives a seed-or-generator hands a value derived from it (the parameter, its stream, a spawned "
                   "stream, an object's random_state) to every callee parameter that reaches a draw; leaving the callee's seed parameter "
                   "at its default makes that callee draw from numpy's global state", floor=10)
    rep.rule("G6", "the documented global re-seeding (Experiment.reset_seed_data, run by the Experiment constructor when it is given "
                   "seed_data) is requested only where a user hands in a seed: a constructor or API function passing its own seed parameter; "
                   "internal copies of an experiment are built without seed_data, so copying never re-seeds numpy's global generator", floor=4)
    n_draw = 0
    globals_found = 0
    for f in sd.funcs:
        if not f.module.name.startswith(SCOPE):
            continue
        sites, streams, lists = draw_sites(ctx, sd, f)
        for node, kind, s in sites:
            if kind in ("rvs", "method"):
                n_draw += 1
                if stream_ok(f, s, streams, lists, sd):
                    rep.holds("G1", f, node, "stream <- %s" % unparse(s), node=node)
                elif kind == "rvs" and s is None:
                    hint = ""
                    for a in ast.walk(f.node):
                        if isinstance(a, ast.Attribute) and a.attr in ("random_state", "mode_sampling"):
                            hint = " (the operand carries its own random_state built from its seed)"
                            break
                    rep.violation("G1", f, node, "draw without random_state=: it uses numpy's global state, so the result depends on the "
                                                 "global seed and on earlier draws%s" % hint, node=node)
                else:
                    rep.violation("G1", f, node, "stream %s is not derived from a seed parameter / to_stream" % (unparse(s) if s is not None else None), node=node)
            elif kind == "global":
                globals_found += 1
                rep.violation("G2", f, node, "module-level numpy.random draw: not reproducible from a seed argument", node=node)
            elif kind == "seed":
                globals_found += 1
                if f.qualname == "quara.qcircuit.experiment.Experiment.reset_seed_data":
                    rep.holds("G2", f, node, "documented global re-seeding", node=node)
                else:
                    rep.violation("G2", f, node, "re-seeds the global generator", node=node)
    rep.stats["draw_sites"] = n_draw
    if globals_found == 0:
        rep.undecided("G2", "quara", "global draws", "expected at least the documented np.random.seed in Experiment.reset_seed_data")

    # ---- G3
    ts = sd.to_stream
    if ts is None:
        raise AnalysisError("quara.utils.number_util.to_stream not found")
    _g3(rep, ts)

    _g5(ctx, rep, sd)
    _g6(ctx, rep)

    # ---- G4
    for f in sd.funcs:
        if not f.module.name.startswith(("quara.qcircuit", "quara.protocol", "quara.objects")):
            continue
        sp = [p for p in f.params if (f.qualname, p) in sd.sinks]
        if not sp:
            continue
        streams, lists = sd.stream_vars(f)
        for p in sp:
            bad = []
            conv = []
            for n in own_nodes(f.node):
                if isinstance(n, ast.Name) and n.id == p and isinstance(n.ctx, ast.Load):
                    par = getattr(n, "_parent", None)
                    call = par if isinstance(par, ast.Call) else (getattr(par, "_parent", None) if isinstance(par, ast.keyword) else None)
                    loops = sd.enclosing_loops(n)
                    if isinstance(call, ast.Call) and ts in ctx.res.resolve_call(f, call, by_name=False):
                        conv.append(call)
                        if loops:
                            bad.append((n, "to_stream(%s) is evaluated inside a loop: an integer seed re-creates the same generator on every iteration" % p))
                    elif isinstance(call, ast.Call) and loops and not any(p in sd.loop_variant_names(l) for l in loops):
                        ts2, argcall, delayed = sd._targets(f, call)
                        if any((t.qualname, q) in sd.sinks for t in ts2 for q in t.params):
                            bad.append((n, "the raw seed '%s' is handed to %s inside a loop: an integer seed makes every iteration draw "
                                           "the same numbers" % (p, unparse(call.func))))
            con = "seed parameter %s of %s" % (p, f.name)
            if bad:
                for n, why in bad:
                    rep.violation("G4", f, con, why, node=n)
            else:
                rep.holds("G4", f, con, "%d conversion(s), none inside a loop; no raw hand-off inside a loop" % len(conv), node=f.node)


def _g5(ctx, rep, sd: Seeds):
    for s in sd.sites:
        f = s.func
        if not f.module.name.startswith(SCOPE):
            continue
        sp = [p for p in f.params if (f.qualname, p) in sd.sinks]
        if not sp:
            continue
        streams, lists = sd.stream_vars(f)
        # a call resolved over several candidates (by method name) is judged for omission only when every
        # candidate has a seed parameter: execute_simulation_sample_unit selects, by reflection on the
        # signature, the branch whose generate() has none
        every_candidate = all(any((t.qualname, q) in sd.sinks for q in t.params) for t in s.targets)
        for t, b in sd.bindings(s):
            if t is sd.to_stream:
                continue
            for q in t.params:
                if (t.qualname, q) not in sd.sinks:
                    continue
                con = "%s(... %s=)" % (unparse(s.node.func)[:60], q)
                e = b.get(q)
                if e is None:
                    if not every_candidate:
                        continue
                    if any(k.arg is None for k in s.args.keywords) or any(isinstance(a, ast.Starred) for a in s.args.args):
                        continue            # **kwargs / *args forwarding: not decidable here, not counted
                    rep.violation("G5", f, con, "%s receives the seed parameter %s but calls %s without passing anything for its seed parameter "
                                                "'%s': the callee falls back to its default and draws from numpy's global state, so the result no "
                                                "longer depends on the seed" % (f.name, sp, t.qualname, q), node=s.node)
                    continue
                ok = stream_ok(f, e, streams, lists) or (isinstance(e, ast.Name) and e.id in sp)
                if not ok and isinstance(e, ast.Name):
                    # a local derived from the seed parameter by plain assignment / arithmetic (seed + i)
                    for n in own_nodes(f.node):
                        if isinstance(n, ast.Assign) and any(isinstance(x, ast.Name) and x.id == e.id for x in n.targets) \
                                and any(isinstance(x, ast.Name) and (x.id in sp or x.id in streams or x.id in lists) for x in ast.walk(n.value)):
                            ok = True
                if not ok and any(isinstance(x, ast.Name) and (x.id in sp or x.id in streams or x.id in lists) for x in ast.walk(e)):
                    ok = True
                if ok:
                    rep.holds("G5", f, con, "%s <- %s" % (q, unparse(e)), node=s.node)
                else:
                    rep.violation("G5", f, con, "the value handed to the seed parameter '%s' of %s is %s, which is not derived from %s's own seed "
                                                "parameter %s" % (q, t.qualname, unparse(e), f.name, sp), node=s.node)


def _g6(ctx, rep):
    from ..resolve import bind_call
    ix = ctx.ix
    exp = ix.classes.get("quara.qcircuit.experiment.Experiment")
    if exp is None:
        raise AnalysisError("quara.qcircuit.experiment.Experiment not found")
    init = exp.lookup("__init__")
    for f in ix.funcs.values():
        if not f.module.name.startswith("quara."):
            continue
        for n in own_nodes(f.node):
            if not isinstance(n, ast.Call):
                continue
            t = ix.resolve_expr(f.module, n.func, f) if not isinstance(n.func, ast.Call) else None
            is_ctor = t is exp or (isinstance(n.func, ast.Attribute) and unparse(n.func) in ("self.__class__", "type(self)") and f.cls is exp)
            if is_ctor and init is not None:
                b, _ = bind_call(n, init, True)
                e = b.get("seed_data")
                con = "%s: Experiment(... seed_data=%s)" % (f.qualname.split("quara.")[-1], unparse(e) if e is not None else "<default>")
                if e is None or (isinstance(e, ast.Constant) and e.value is None):
                    rep.holds("G6", f, con, "built without seed_data: no re-seeding", node=n)
                elif isinstance(e, ast.Name) and e.id in f.params and f.name in ("__init__",) or (isinstance(e, ast.Name) and e.id in f.params and f.cls is None):
                    rep.holds("G6", f, con, "the caller's own seed parameter, at construction / API level", node=n)
                else:
                    rep.violation("G6", f, con, "%s builds an Experiment with seed_data=%s: the constructor calls reset_seed_data, which re-seeds numpy's global "
                                  "generator - here on a path that is not the user handing in a seed (every tomography-level data generation copies its "
                                  "experiment first, so repeated draws from the global state would repeat)" % (f.name, unparse(e)), node=n)
            elif isinstance(n.func, ast.Attribute) and n.func.attr == "reset_seed_data":
                con = "%s: %s" % (f.qualname.split("quara.")[-1], unparse(n))
                in_ctor = f.cls is exp and f.name == "__init__"
                public_reset = f.name in ("reset_seed",)
                if in_ctor or public_reset:
                    rep.holds("G6", f, con, "documented re-seeding entry", node=n)
                else:
                    rep.violation("G6", f, con, "%s re-seeds the global generator outside the constructor / reset_seed entry points" % f.name, node=n)


def _g3(rep, ts: Func):
    """to_stream: None -> np.random, int -> fresh MT19937 generator, anything else -> the argument (whatever the control-flow spelling)"""
    from .. import symsum
    p = ts.params[0]
    cs = symsum.cases(ts)
    if cs is None:
        rep.undecided("G3", ts, "branches of to_stream", "too many paths")
        return
    none_atom = "%s is None" % p
    int_atoms = ("type(%s) == int" % p, "isinstance(%s, int)" % p, "type(%s) is int" % p)
    want_int = ("np.random.Generator(np.random.MT19937(%s))" % p, "np.random.default_rng(%s)" % p)
    seen = {}
    problems = []
    for c in symsum.returning(cs):
        v = unparse(c.value) if c.value is not None else None
        atoms = {(t, pol) for t, pol, _ in c.guards}
        if (none_atom, True) in atoms:
            kind = "none"
            ok = v == "np.random"
        elif any((a, True) in atoms for a in int_atoms):
            kind = "int"
            ok = v in want_int
        elif (none_atom, False) in atoms and any((a, False) in atoms for a in int_atoms):
            kind = "else"
            ok = v == p
        else:
            kind = "?" + " and ".join(("" if pol else "not ") + t for t, pol in sorted(atoms))
            ok = False
        seen[kind] = v
        if not ok:
            problems.append("%s -> %s" % (kind, v))
    missing = [k for k in ("none", "int", "else") if k not in seen]
    ok = not problems and not missing
    rep.check(ok, "G3", ts, "branches of to_stream", "None -> np.random; int -> fresh MT19937 generator; else -> argument",
              "branches are %s%s" % (seen, ("; missing: %s" % missing) if missing else ""), node=ts.node)
