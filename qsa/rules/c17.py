"""C17 - catalogues: every catalogued name has a generator (name-template dispatch resolved by
constant folding), dispatchers are guarded by catalogue membership and fall through to a raise."""
from __future__ import annotations

import ast

from ..astutil import const, inline, kwarg, returns, single_defs, unparse
from ..cfg import definite_assignment
from ..fold import Folder, NotFoldable
from ..index import AnalysisError, Func, dotted, own_nodes, parents
from ..resolve import bind_call

MODS = ["quara.objects.state_typical", "quara.objects.povm_typical", "quara.objects.gate_typical", "quara.objects.mprocess_typical",
        "quara.objects.state_ensemble_typical", "quara.objects.effective_lindbladian_typical", "quara.objects.tester_typical",
        "quara.objects.qoperation_typical"]
MAX_ENUM_QUICK = 400


def guard_values(ctx, fo: Folder, f: Func, node: ast.AST, var: str):
    """Values `var` can take at `node` according to the enclosing if/elif conditions
    (`var in <folded list>`, `var == 'lit'`, `or` of those; else-branches subtract) and to
    dominating `if var not in <list>: raise` guards.  None if nothing restricts it."""
    pos = None
    neg = set()
    child = node
    for p in parents(node):
        if isinstance(p, (ast.FunctionDef, ast.AsyncFunctionDef)):
            for prev in p.body:
                if prev is child:
                    break
                if isinstance(prev, ast.If) and not prev.orelse and prev.body and isinstance(prev.body[-1], (ast.Return, ast.Raise)):
                    v = _test_values(ctx, fo, f, prev.test, var)
                    if v is not None:
                        neg |= set(v)
            break
        if isinstance(p, ast.If):
            if any(child is s for s in p.body):
                for t in (p.test.values if isinstance(p.test, ast.BoolOp) and isinstance(p.test.op, ast.And) else [p.test]):
                    v = _test_values(ctx, fo, f, t, var)
                    if v is not None:
                        pos = v if pos is None else [x for x in pos if x in v]
            elif any(child is s for s in p.orelse):
                v = _test_values(ctx, fo, f, p.test, var)
                if v is not None:
                    neg |= set(v)
        # guard clauses before `child` in the same block: `if var == 'x': ...; return` means var != 'x' from here on
        for field in ("body", "orelse", "finalbody"):
            blk = getattr(p, field, None)
            if isinstance(blk, list) and any(child is s for s in blk):
                for prev in blk:
                    if prev is child:
                        break
                    if isinstance(prev, ast.If) and not prev.orelse and prev.body and isinstance(prev.body[-1], (ast.Return, ast.Raise, ast.Continue, ast.Break)):
                        v = _test_values(ctx, fo, f, prev.test, var)
                        if v is not None:
                            neg |= set(v)
        child = p
    cfg = ctx.cfg(f)
    nn = cfg.node_of(node)
    for n in cfg.nodes:
        if n.kind == "test" and isinstance(n.ast, ast.If) and nn is not None and n is not nn and cfg.dominates(n, nn) and n.ast.body \
                and isinstance(n.ast.body[-1], ast.Raise) and not any(node is x for b in n.ast.body for x in ast.walk(b)):
            t = n.ast.test
            v = None
            if isinstance(t, ast.Compare) and len(t.ops) == 1 and isinstance(t.ops[0], ast.NotIn) and unparse(t.left) == var:
                v = _fold_list(ctx, fo, f, t.comparators[0])
            elif isinstance(t, ast.UnaryOp) and isinstance(t.op, ast.Not):
                v = _test_values(ctx, fo, f, t.operand, var)
            if v is not None:
                pos = v if pos is None else [x for x in pos if x in v]
    if pos is None:
        return None
    return [x for x in pos if x not in neg]


def _fold_list(ctx, fo, f, e):
    if isinstance(e, ast.Name):
        d = single_defs(f).get(e.id)
        if d is not None:
            e = d
    try:
        v = fo.ev(e, {}, f)
    except NotFoldable:
        return None
    if isinstance(v, (list, tuple)) and all(isinstance(x, str) for x in v):
        return list(v)
    return None


def _test_values(ctx, fo, f, t, var):
    if isinstance(t, ast.BoolOp) and isinstance(t.op, ast.Or):
        acc = []
        for x in t.values:
            v = _test_values(ctx, fo, f, x, var)
            if v is None:
                return None
            acc += [y for y in v if y not in acc]
        return acc
    if isinstance(t, ast.Compare) and len(t.ops) == 1 and unparse(t.left) == var:
        if isinstance(t.ops[0], ast.In):
            return _fold_list(ctx, fo, f, t.comparators[0])
        if isinstance(t.ops[0], ast.Eq) and isinstance(const(t.comparators[0]), str):
            return [const(t.comparators[0])]
    return None


def run(ctx, rep):
    ix = ctx.ix
    fo = Folder(ix)
    rep.rule("Y1", "every function name a dispatch template can produce for a catalogued name is defined in the module, and the call "
                   "made through it binds to that function's signature", floor=24)
    rep.rule("Y2", "every eval-dispatch is dominated by a catalogue membership test on the dispatched name; every *_from_name "
                   "dispatcher ends its if/elif chain in a raise and definitely assigns what it returns", floor=30)
    rep.rule("Y3", "catalogues fold to non-empty lists of distinct names; composite catalogues are the concatenation of their parts", floor=20)
    thorough = ctx.tier == "thorough"
    n_names = 0
    # ---- Y3: catalogues
    cats = {}
    for m in MODS:
        mod = ix.modules.get(m)
        if mod is None:
            raise AnalysisError("module %s not found" % m)
        for f in mod.funcs.values():
            if f.name.startswith("get_") and "names" in f.name and not f.params:
                try:
                    v = fo.fold_names(f.qualname)
                except NotFoldable as e:
                    rep.undecided("Y3", f, "catalogue", "does not fold: %s" % e)
                    continue
                cats[f.qualname] = v
                dup = sorted({x for x in v if v.count(x) > 1})[:5] if len(v) < 5000 else ([] if len(set(v)) == len(v) else ["<duplicates>"])
                if not v:
                    rep.violation("Y3", f, "catalogue %s" % f.name, "catalogue is empty", node=f.node)
                elif dup:
                    rep.violation("Y3", f, "catalogue %s" % f.name, "duplicate names %s" % dup, node=f.node)
                else:
                    rep.holds("Y3", f, "catalogue %s" % f.name, "%d distinct names" % len(v), node=f.node)
    rep.stats["catalogues_folded"] = len(cats)
    rep.stats["catalogue_names_total"] = sum(len(v) for v in cats.values())

    # ---- Y1 / Y2: eval sites
    n_sites = 0
    for m in MODS:
        mod = ix.modules[m]
        for f in mod.funcs.values():
            evals = [n for n in own_nodes(f.node) if isinstance(n, ast.Call) and dotted(n.func) == "eval" and n.args]
            for ev in evals:
                n_sites += 1
                _check_eval(ctx, rep, fo, f, ev, thorough)
            if f.name.startswith("generate_") and "from" in f.name and "name" in f.name:
                _check_dispatcher(ctx, rep, fo, f)
    rep.stats["eval_sites"] = n_sites
    rep.rule("Y7", "composite names (a_b_c) are tensored left to right in every description: the accumulated product is the left "
                   "Kronecker factor and the first argument of the outcome enumeration", floor=5)
    _y7(ctx, rep)
    # ---- Y4-Y6: constant tables
    from . import c17_tables
    c17_tables.run(ctx, rep)
    c17_tables.run_states(ctx, rep)
    c17_tables.run_measurements(ctx, rep)


def _check_eval(ctx, rep, fo: Folder, f: Func, ev: ast.Call, thorough: bool):
    ix = ctx.ix
    defs = single_defs(f)
    # template: inline the argument through the branch-local assignment
    tmpl = ev.args[0]
    if isinstance(tmpl, ast.Name):
        # nearest preceding assignment in the same block
        blk = getattr(_stmt(ev), "_parent", None)
        cand = None
        for body in (getattr(blk, "body", []), getattr(blk, "orelse", [])):
            if _stmt(ev) in body:
                for s in body[: body.index(_stmt(ev))]:
                    if isinstance(s, ast.Assign) and unparse(s.targets[0]) == tmpl.id:
                        cand = s.value
        tmpl = cand if cand is not None else defs.get(tmpl.id, tmpl)
    free = sorted({n.id for n in ast.walk(tmpl) if isinstance(n, ast.Name)} & set(f.params))
    con = "eval(%s)" % unparse(tmpl)[:80]
    locs = sorted(({n.id for n in ast.walk(tmpl) if isinstance(n, ast.Name)} & ctx.res.locals_of(f)) - set(f.params))
    if locs and not free:
        # template over a local: decidable when every definition of the local is a string constant
        if len(locs) == 1:
            binds = [n.value for n in own_nodes(f.node) if isinstance(n, ast.Assign) and unparse(n.targets[0]) == locs[0]]
            cs = [const(b) for b in binds]
            if binds and all(isinstance(c, str) for c in cs):
                missing = []
                for c in cs:
                    name = fo.ev(tmpl, {locs[0]: c}, f)
                    if not isinstance(ix.scope_lookup(f.module, f, name), Func):
                        missing.append(name)
                rep.check(not missing, "Y1", f, con, "%s in %s: all defined" % (locs[0], cs), "%s not defined" % missing, node=ev)
                return
        rep.info("Y1", f, con, "dispatch over the local %s (derived, not a catalogued-name parameter): outside the folded fragment" % locs, node=ev)
        return
    if len(free) != 1:
        if not free:
            try:
                name = fo.ev(tmpl, {}, f)
                t = ix.scope_lookup(f.module, f, name)
                rep.check(isinstance(t, Func), "Y1", f, con, "constant dispatch to %s" % name, "%s is not defined" % name, node=ev)
            except NotFoldable as e:
                rep.undecided("Y1", f, con, "template does not fold: %s" % e)
        else:
            rep.info("Y1", f, con, "template depends on %s" % free)
        return
    var = free[0]
    vals = guard_values(ctx, fo, f, ev, var)
    if vals is None and f.name.startswith("_") and not f.name.startswith("__") and f.cls is None:
        # a private module-level helper: the guard may sit at its call sites (every one of them must have it)
        sites = []
        for g in f.module.funcs.values():
            for g2 in [g] + list(g.nested.values()):
                for n in own_nodes(g2.node):
                    if isinstance(n, ast.Call) and isinstance(n.func, ast.Name) and n.func.id == f.name:
                        sites.append((g2, n))
        union, all_guarded = [], bool(sites)
        n_derived = 0
        for g2, n in sites:
            try:
                b, errs = bind_call(n, f, False)
            except Exception:
                b, errs = {}, ["bind"]
            a = b.get(var)
            if isinstance(a, ast.Name) and not errs and a.id not in g2.params and a.id not in {p_.arg for p_ in g2.all_params}:
                # the caller dispatches over a local it derives itself (a part of a composite name): outside the folded
                # fragment, exactly as an eval over such a local written out in the caller would be
                rep.info("Y1", g2, "%s(%s)" % (f.name, a.id), "dispatch over the derived local %s: outside the folded fragment" % a.id, node=n)
                n_derived += 1
                continue
            v = guard_values(ctx, fo, g2, n, a.id) if isinstance(a, ast.Name) and not errs else None
            if v is None:
                all_guarded = False
                break
            union += [x for x in v if x not in union]
        if all_guarded and len(sites) > n_derived:
            vals = union
    if vals is None:
        rep.violation("Y2", f, con, "this eval is not dominated by any catalogue membership test on '%s': an uncatalogued name is looked up "
                                    "as a function name (and whatever exists is called) instead of raising" % var, node=ev)
        return
    rep.holds("Y2", f, con, "guarded: %s ranges over %d catalogued name(s)" % (var, len(vals)), node=ev)
    # the call(s) made through the looked-up function
    stmt = _stmt(ev)
    mvar = unparse(stmt.targets[0]) if isinstance(stmt, ast.Assign) else None
    use_calls = []
    if mvar:
        blk = getattr(stmt, "_parent", None)
        for n in ast.walk(blk) if blk is not None else []:
            if isinstance(n, ast.Call) and isinstance(n.func, ast.Name) and n.func.id == mvar:
                use_calls.append(n)
    sample = vals if (thorough or len(vals) <= MAX_ENUM_QUICK) else vals[:: max(1, len(vals) // MAX_ENUM_QUICK)]
    missing, unbound, seen_funcs = [], [], {}
    for v in sample:
        try:
            name = fo.ev(tmpl, {var: v}, f)
        except NotFoldable as e:
            rep.undecided("Y1", f, con, "template does not fold for %r: %s" % (v, e))
            return
        t = seen_funcs.get(name)
        if t is None:
            t = ix.scope_lookup(f.module, f, name)
            seen_funcs[name] = t
        if not isinstance(t, Func):
            missing.append((v, name))
            continue
        for uc in use_calls:
            # only the call in the (sub)branch this value reaches
            sub = guard_values(ctx, fo, f, uc, var)
            if sub is not None and v not in sub:
                continue
            _, errs = bind_call(uc, t, False)
            if errs:
                unbound.append((v, name, errs))
    if missing:
        rep.violation("Y1", f, con, "%d catalogued name(s) have no generator: %s (e.g. %r -> %s is not defined in %s)"
                      % (len(missing), [m[0] for m in missing][:8], missing[0][0], missing[0][1], f.module.name.split(".")[-1]), node=ev)
    elif unbound:
        rep.violation("Y1", f, con, "the call made through the dispatch does not bind for %d name(s), e.g. %r -> %s: %s"
                      % (len(unbound), unbound[0][0], unbound[0][1], "; ".join(unbound[0][2])), node=ev)
    else:
        rep.holds("Y1", f, con, "%d name(s) -> %d defined function(s), %d call(s) bind%s" % (
            len(sample), len(seen_funcs), len(use_calls), "" if len(sample) == len(vals) else " (sampled of %d)" % len(vals)), node=ev)


def _stmt(n):
    cur = n
    while cur is not None and not isinstance(cur, ast.stmt):
        cur = getattr(cur, "_parent", None)
    return cur


def _check_dispatcher(ctx, rep, fo: Folder, f: Func):
    """if/elif chain on the name parameter: last else raises; returned variable definitely assigned."""
    name_params = [p for p in f.params if p.endswith("_name") or p == "name"]
    if not name_params:
        return
    chains = []
    for n in own_nodes(f.node):
        if isinstance(n, ast.If) and getattr(n, "_parent", None) is f.node:
            names = {x.id for x in ast.walk(n.test) if isinstance(x, ast.Name)}
            if names & set(name_params):
                chains.append(n)
    if not chains:
        return
    top = chains[0]
    node = top
    while len(node.orelse) == 1 and isinstance(node.orelse[0], ast.If):
        node = node.orelse[0]
    # a leading `if name not in catalogue: raise` counts as the guard
    guard_first = isinstance(top.test, ast.Compare) and isinstance(top.test.ops[0], ast.NotIn) and top.body and isinstance(top.body[-1], ast.Raise)
    ends_in_raise = bool(node.orelse) and isinstance(node.orelse[-1], ast.Raise)
    con = "dispatch chain of %s" % f.name
    if guard_first or ends_in_raise:
        rep.holds("Y2", f, con, "a name outside the catalogue reaches a raise", node=top)
    else:
        # chain whose last branch is an unguarded else: handled by the eval rule when it contains an eval
        has_else = bool(node.orelse)
        if has_else and any(isinstance(x, ast.Call) and dotted(x.func) == "eval" for s in node.orelse for x in ast.walk(s)):
            return
        if not has_else:
            # falls through: the returned variable must not be possibly-unbound
            cfg = ctx.cfg(f)
            da = definite_assignment(cfg, [p.arg for p in f.all_params])
            bad = []
            for r in returns(f):
                rn = cfg.node_of(r)
                if rn is None or r.value is None:
                    continue
                have = da.get(rn.id, set())
                for nm in ast.walk(r.value):
                    if isinstance(nm, ast.Name) and nm.id in ctx.res.locals_of(f) and nm.id not in have:
                        bad.append(nm.id)
            if bad:
                rep.violation("Y2", f, con, "a name that matches no branch falls through to `return %s` with %s unassigned "
                                            "(UnboundLocalError instead of a catalogue error)" % (bad[0], bad), node=top)
            else:
                rep.holds("Y2", f, con, "no fall-through", node=top)
        else:
            rep.holds("Y2", f, con, "final else handles the remaining names", node=top)


# ------------------------------------------------------------------------------ Y7
def _y7(ctx, rep):
    """composite names a_b_c: the parts are tensored left to right - the accumulated product is the LEFT Kronecker factor and the
    slow (first) index of the outcome enumeration."""
    n_sites = 0
    for m in MODS:
        mod = ctx.ix.modules[m]
        for f in mod.funcs.values():
            for n in own_nodes(f.node):
                if not (isinstance(n, ast.Assign) and len(n.targets) == 1 and isinstance(n.targets[0], ast.Name)):
                    continue
                acc = n.targets[0].id
                v = n.value
                # (a) acc = [np.kron(x, y) for x, y in product(A, B)]
                if isinstance(v, ast.ListComp) and len(v.generators) == 1 and isinstance(v.elt, ast.Call) and (dotted(v.elt.func) or "").endswith("kron") \
                        and len(v.elt.args) == 2:
                    g = v.generators[0]
                    if isinstance(g.iter, ast.Call) and (dotted(g.iter.func) or "").split(".")[-1] == "product" and len(g.iter.args) == 2 \
                            and isinstance(g.target, ast.Tuple) and len(g.target.elts) == 2 and all(isinstance(x, ast.Name) for x in g.target.elts):
                        srcs = [unparse(a) for a in g.iter.args]
                        if acc not in srcs:
                            continue
                        n_sites += 1
                        pos = srcs.index(acc)
                        var = g.target.elts[pos].id
                        kargs = [unparse(a) for a in v.elt.args]
                        con = "%s: %s" % (f.name, unparse(v)[:90])
                        if var not in kargs:
                            rep.undecided("Y7", f, con, "kron operands %s are not the comprehension variables" % kargs)
                        elif kargs.index(var) != 0:
                            rep.violation("Y7", f, con, "the accumulated product `%s` enters as the RIGHT Kronecker factor: the name a_b is generated as b (x) a "
                                          "(its pure-state-vector / Kraus siblings and the legacy constructors tensor left to right)" % acc, node=n)
                        elif pos != 0:
                            rep.violation("Y7", f, con, "the accumulated list is the second argument of product(): the later part becomes the slow outcome index",
                                          node=n)
                        else:
                            rep.holds("Y7", f, con, "accumulated product on the left, slow index first", node=n)
                # (b) acc = np.kron(acc, v) in a loop
                elif isinstance(v, ast.Call) and (dotted(v.func) or "").endswith("kron") and len(v.args) == 2 and acc in [unparse(a) for a in v.args] \
                        and any(isinstance(p, (ast.For, ast.While)) for p in parents(n)):
                    n_sites += 1
                    con = "%s: %s" % (f.name, unparse(n))
                    rep.check(unparse(v.args[0]) == acc, "Y7", f, con, "accumulated product on the left",
                              "the accumulated product `%s` is the RIGHT Kronecker factor: the name a_b is generated as b (x) a" % acc, node=n)
    rep.stats["Y7_sites"] = n_sites
