"""C08 - forward model assembly: row order, key agreement, positions, operand roles, offsets."""
from __future__ import annotations

import ast
from fractions import Fraction

from ..astutil import const, inline, is_num, kwarg, returns, single_defs, unparse
from ..index import AnalysisError, Class, Func, dotted, own_nodes
from ..poly import Poly
from ..symint import Undecided
from .c03 import _size_poly, D2
from .c20 import TOMO

T = "quara.protocol.qtomography.standard."


def run(ctx, rep):
    ix = ctx.ix
    rep.rule("M1", "calc_matA and calc_vecB stack the values of their dictionaries in the same sorted (schedule, outcome) key order; "
                   "calc_prob_dists applies A x + b to the variables of the parametrisation in force and reshapes per schedule", floor=3)
    rep.rule("M2", "every store of a coefficient row coeffs_1st[k] is paired with a store of the offset coeffs_0th[k] under the same key, "
                   "in every branch", floor=6)
    rep.rule("M3", "each tomography class reads states / POVMs / its unknown from the schedule positions its own validator pins to that kind", floor=8)
    rep.rule("M4", "operand roles: process tomography rows are outer(povm, state) flattened row-major; POVM tomography puts the state "
                   "vector in block m_index of an m-block row; state tomography rows are the POVM vectors", floor=3)
    rep.rule("M5", "offsets and skipped coordinates are the ones the parametrisation implies: state d^-1/2 * povm[0] with coordinates 1..; "
                   "POVM d^1/2 * state[0] on the implied last block; process coefficient 0 of the outer product with coordinates d^2..", floor=5)
    # ---- M1
    sq = ix.cls(T + "standard_qtomography.StandardQTomography")
    check_model_accessors(ctx, rep, "M1")
    cp = sq.methods["calc_prob_dists"]
    _check_prob_dists(ctx, rep, cp)
    # ---- M2
    for q in (T + "standard_qst.StandardQst._set_coeffs", T + "standard_povmt.StandardPovmt._set_coeffs", T + "standard_qpt.calc_c_qpt",
              T + "standard_qmpt.StandardQmpt._set_coeffs"):
        f = ix.func(q)
        n1 = 0
        for n in own_nodes(f.node):
            if isinstance(n, ast.Assign) and isinstance(n.targets[0], ast.Subscript) and unparse(n.targets[0].value).endswith("coeffs_1st"):
                n1 += 1
                key = unparse(n.targets[0].slice)
                blk = getattr(n, "_parent", None)
                sibs = []
                for fld in ("body", "orelse"):
                    b = getattr(blk, fld, [])
                    if n in b:
                        sibs = [s for s in b if isinstance(s, ast.Assign) and isinstance(s.targets[0], ast.Subscript)
                                and unparse(s.targets[0].value).endswith("coeffs_0th")]
                ok = any(unparse(s.targets[0].slice) == key for s in sibs)
                rep.check(ok, "M2", f, n, "offset stored under the same key (%s)" % key,
                          "row stored under key (%s) but the offset in this branch is stored under %s" % (key, [unparse(s.targets[0].slice) for s in sibs] or "no key"), node=n)
        if n1 == 0:
            rep.undecided("M2", f, "stores", "no coefficient stores found")
    # key's second component enumerates outcomes in circuit order
    f = ix.func(T + "standard_qst.StandardQst._set_coeffs")
    # the second key component counts the outcomes of the schedule's POVM in the POVM's own order: some loop
    # `for <k>, <v> in enumerate(<povm>.vecs)` encloses the coefficient stores, whose keys end in <k>
    from ..index import parents as _parents
    stores = [n for n in own_nodes(f.node) if isinstance(n, ast.Assign) and isinstance(n.targets[0], ast.Subscript) and unparse(n.targets[0].value).endswith("coeffs_1st")]
    ok, seen_loop = bool(stores), False
    for st_ in stores:
        lp_ = next((p_ for p_ in _parents(st_) if isinstance(p_, ast.For) and isinstance(p_.iter, ast.Call) and dotted(p_.iter.func) == "enumerate"
                    and p_.iter.args and unparse(p_.iter.args[0]).endswith(".vecs") and isinstance(p_.target, ast.Tuple) and len(p_.target.elts) == 2
                    and isinstance(p_.target.elts[0], ast.Name)), None)
        if lp_ is None:
            ok = False
            continue
        seen_loop = True
        from ..astutil import deep_inline
        key = deep_inline(f, st_.targets[0].slice)
        k_ = lp_.target.elts[0].id
        if not (isinstance(key, ast.Tuple) and len(key.elts) == 2 and unparse(key.elts[1]) == k_):
            ok = False
    if stores and not seen_loop:
        rep.undecided("M2", f, "outcome enumeration (Qst)", "no loop `for k, vec in enumerate(<povm>.vecs)` around the coefficient stores")
    else:
        rep.check(ok, "M2", f, "outcome enumeration (Qst)", "outcomes in the POVM's own order",
                  "the second key component of a coefficient store is not the counter of enumerate(<povm>.vecs)", node=f.node)
    # ---- M3
    check_schedule_reads(ctx, rep)
    # ---- M4 / M5
    _m45(ctx, rep)
    # the dimension handed to the coefficient builders is the dimension of the whole (composite) system
    for cq_ in TOMO:
        c_ = ix.cls(cq_)
        init_ = c_.methods.get("__init__")
        if init_ is None:
            continue
        for n_ in own_nodes(init_.node):
            if isinstance(n_, ast.Call) and unparse(n_.func) == "self._set_coeffs":
                tgt_ = c_.methods.get("_set_coeffs")
                if tgt_ is None or "dim" not in tgt_.params:
                    continue
                from ..resolve import bind_call as _bind
                b_, _e = _bind(n_, tgt_, True)
                d_ = b_.get("dim")
                if d_ is None:
                    continue
                from ..astutil import deep_inline as _dinl
                dd = _dinl(init_, d_)
                con_ = "%s: dimension handed to _set_coeffs" % c_.name
                if isinstance(dd, ast.Attribute) and dd.attr in ("dim", "_dim"):
                    rep.holds("M5", init_, con_, "%s" % unparse(d_), node=n_)
                elif isinstance(dd, ast.Call) and "dim_e_sys" in unparse(dd.func):
                    rep.violation("M5", init_, con_, "`%s` is the dimension of ONE elemental system; the implied coefficient d^-1/2 needs the dimension of the "
                                                    "whole composite system (they agree for a single system only)" % unparse(d_), node=n_)
                else:
                    rep.undecided("M5", init_, con_, "dimension argument %s not recognised" % unparse(dd)[:60])
    rep.rule("M6", "measurement-process tomography: the model is the process model repeated on the block diagonal, once per explicitly "
                   "parametrised outcome (m - 1 copies with the constraint built in, m otherwise)", floor=2)
    _m6(ctx, rep)


def check_schedule_reads(ctx, rep):
    """M3 (also relayed by C20): every object list is indexed by the index the schedule names for that kind"""
    ix = ctx.ix
    for cq, (shape, tpos) in TOMO.items():
        c = ix.cls(cq)
        short = c.name
        funcs = [c.methods.get("_set_coeffs"), c.methods.get("num_outcomes"), c.methods.get("_get_target_index")]
        if short in ("StandardQpt", "StandardQmpt"):
            funcs.append(ix.func(T + "standard_qpt.calc_c_qpt"))
        from ..astutil import deep_inline

        def schedule_read(f, e):
            """(position, text) when e is <schedule>[POS][1] - the index component of the item at a fixed position of a schedule -
            with POS a literal or a named constant; None otherwise"""
            e = deep_inline(f, e)
            if not (isinstance(e, ast.Subscript) and is_num(e.slice, 1) and isinstance(e.value, ast.Subscript)):
                return None
            inner = e.value
            base = unparse(inner.value)
            if not (base == "schedule" or "schedules[" in base or base.endswith("schedule")):
                return None
            pos = const(inner.slice)
            if isinstance(pos, int) and not isinstance(pos, bool):
                return pos, unparse(e)
            return None
        n_reads = 0
        for f in [x for x in funcs if x is not None]:
            loop_counters = set()
            for lp in own_nodes(f.node):
                if isinstance(lp, ast.For) and isinstance(lp.iter, ast.Call) and dotted(lp.iter.func) == "enumerate" and isinstance(lp.target, ast.Tuple) \
                        and "schedules" in unparse(lp.iter) and isinstance(lp.target.elts[0], ast.Name):
                    loop_counters.add(lp.target.elts[0].id)
                if isinstance(lp, ast.For) and isinstance(lp.target, ast.Name) and "range(" in unparse(lp.iter) and "schedules" in unparse(lp.iter):
                    loop_counters.add(lp.target.id)
            # the function's own result, when it is a schedule read (the _get_target_index accessor)
            if f.name == "_get_target_index":
                for r in returns(f):
                    sr = schedule_read(f, r.value) if r.value is not None else None
                    con = "%s: %s returns %s" % (short, f.name, unparse(r.value) if r.value is not None else None)
                    if sr is None:
                        rep.undecided("M3", f, con, "the target index is not read from a fixed position of the schedule")
                        continue
                    n_reads += 1
                    p_ = sr[0] if sr[0] >= 0 else len(shape) + sr[0]
                    if 0 <= p_ < len(shape) and p_ == (tpos if tpos >= 0 else len(shape) + tpos):
                        rep.holds("M3", f, con, "position %d is pinned to '%s' (the unknown) by the class's validator" % (p_, shape[p_]), node=r)
                    else:
                        rep.violation("M3", f, con, "reads the unknown's index from position %s; %s's schedules have the unknown ('%s') at position %s"
                                      % (sr[0], short, shape[tpos], tpos), node=r)
            for n in own_nodes(f.node):
                if not (isinstance(n, ast.Subscript) and isinstance(n.ctx, ast.Load)):
                    continue
                base = unparse(n.value)
                kind = next((k for k in ("state", "povm", "gate", "mprocess") if base == k + "s" or base.endswith("." + k + "s") or base.endswith("._" + k + "s")), None)
                if kind is None or base.endswith("schedules"):
                    continue
                con = "%s: %s" % (short, unparse(n))
                if isinstance(n.slice, ast.Constant) and n.slice.value == 0 and "_set_qoperations" in base:
                    continue            # the template object of the unknown
                sr = schedule_read(f, n.slice)
                if sr is not None:
                    n_reads += 1
                    p_ = sr[0] if sr[0] >= 0 else len(shape) + sr[0]
                    if not (0 <= p_ < len(shape)):
                        rep.undecided("M3", f, con, "position %s is outside the schedule shape %s" % (sr[0], shape))
                    elif shape[p_] == kind:
                        rep.holds("M3", f, con, "%s list indexed by the index of the schedule item at position %d, which the validator pins to '%s'"
                                  % (kind, p_, kind), node=n)
                    else:
                        rep.violation("M3", f, con, "the %s list is indexed by the index of the schedule item at position %s, which %s's schedules pin to '%s'"
                                      % (kind, sr[0], short, shape[p_]), node=n)
                    continue
                idx = deep_inline(f, n.slice)
                if isinstance(idx, ast.Call) and isinstance(idx.func, ast.Attribute) and idx.func.attr == "_get_target_index":
                    n_reads += 1
                    rep.check(kind == shape[tpos], "M3", f, con, "%s list indexed by the target index" % kind,
                              "the %s list is indexed by the target index, but the unknown of %s is the %s" % (kind, short, shape[tpos]), node=n)
                elif isinstance(n.slice, ast.Name) and n.slice.id in loop_counters or (isinstance(idx, ast.Name) and idx.id in loop_counters):
                    rep.violation("M3", f, con, "the %s list is indexed by `%s`, which is not an index read from the schedule (the position of the "
                                                "schedule in the list is not the number of the %s it uses: any permuted, partial or repeating schedule "
                                                "list picks the wrong tester)" % (kind, unparse(n.slice), kind), node=n)
                else:
                    rep.info("M3", f, con, "list indexed by %s (not a schedule read)" % unparse(idx)[:60])
        if not n_reads:
            rep.undecided("M3", cq, "positions", "no schedule position reads found")


def _m6(ctx, rep):
    """cqpt_to_cqmpt: the measurement-process model repeats the process model once per (explicitly parametrised) outcome on the block
    diagonal - block_diag(c, c, ...) = kron(I_k, c); kron(c, I_k) interleaves the rows and columns of different outcomes"""
    from ..symsum import cases, returning
    from .c12 import _ipoly
    from ..poly import Poly
    f = ctx.ix.funcs.get(T + "standard_qmpt.cqpt_to_cqmpt")
    if f is None:
        rep.undecided("M6", T + "standard_qmpt", "cqpt_to_cqmpt", "function not found")
        return
    cs = cases(f)
    if not cs:
        rep.undecided("M6", f, "block structure", "too many paths")
        return
    mpar = next((p for p in f.params if p.startswith("m")), None)
    seen = 0
    for c in returning(cs):
        v = c.value
        a = v.elts[0] if isinstance(v, ast.Tuple) and v.elts else v
        flag = [pol for t, pol, _ in c.guards if t == "on_para_eq_constraint"]
        if a is None or len(flag) != 1:
            continue
        want = Poly.sym(mpar) - 1 if flag[0] else Poly.sym(mpar)
        con = "block structure (on_para_eq_constraint=%s)" % flag[0]
        found = False
        for n in ast.walk(a):
            if not isinstance(n, ast.Call):
                continue
            nm = (dotted(n.func) or "").split(".")[-1]
            k = None
            if nm == "block_diag" and len(n.args) == 1 and isinstance(n.args[0], ast.Starred):
                e = n.args[0].value
                if isinstance(e, ast.BinOp) and isinstance(e.op, ast.Mult):
                    lst, cnt = (e.left, e.right) if isinstance(e.left, ast.List) else (e.right, e.left)
                    if isinstance(lst, ast.List) and len(lst.elts) == 1:
                        k = cnt
            elif nm == "kron" and len(n.args) == 2:
                def eye(x):
                    return x.args[0] if isinstance(x, ast.Call) and (dotted(x.func) or "").split(".")[-1] in ("eye", "identity") and x.args else None
                if eye(n.args[0]) is not None and eye(n.args[1]) is None:
                    k = eye(n.args[0])
                elif eye(n.args[1]) is not None and eye(n.args[0]) is None:
                    found = True
                    seen += 1
                    rep.violation("M6", f, con, "%s puts the identity on the RIGHT: rows and columns of different outcomes are interleaved; the model of "
                                  "outcome x must be the x-th diagonal block (block_diag(c, ..., c) = kron(I, c))" % unparse(n)[:80], node=c.ret_node)
                    continue
            if k is None:
                continue
            found = True
            seen += 1
            try:
                kp = _ipoly(k, {})
                rep.check(kp == want, "M6", f, con, "%r diagonal copies of the process model" % kp,
                          "%r diagonal copies of the process model, expected %r" % (kp, want), node=c.ret_node)
            except ValueError as ex:
                rep.undecided("M6", f, con, str(ex))
        if not found:
            rep.undecided("M6", f, con, "no block_diag(*[c] * k) / kron(eye(k), c) in the returned matrix")
    if not seen:
        rep.undecided("M6", f, "block structure", "no path recognised")


def check_model_accessors(ctx, rep, rule: str):
    """calc_matA / calc_vecB: the values of the coefficient dictionaries stacked in sorted key order, built afresh on every call."""
    from .. import symsum
    from ..astutil import deep_inline
    sq = ctx.ix.cls(T + "standard_qtomography.StandardQTomography")
    for nm, fld in (("calc_matA", "_coeffs_1st"), ("calc_vecB", "_coeffs_0th")):
        m = sq.methods[nm]
        cs = symsum.cases(m)
        rc = symsum.returning(cs) if cs else []
        con = "%s: stacked dictionary values" % nm
        if len(rc) != 1 or rc[0].guards:
            # more than one path: e.g. a cached copy handed out on later calls
            cached = [c for c in rc if isinstance(c.value, ast.Attribute) and unparse(c.value.value) == m.self_name]
            if cached or any(isinstance(n, ast.Assign) and isinstance(n.targets[0], ast.Attribute) and unparse(n.targets[0].value) == m.self_name
                             for n in own_nodes(m.node)):
                rep.violation(rule, m, con, "%s stores / hands out a cached array (%s): every caller that updates its result in place now changes the "
                              "model of all later calls; the accessor must build the array from self.%s on every call"
                              % (nm, ", ".join(sorted({unparse(c.value) for c in cached})) or "self.<field>", fld), node=m.node)
            else:
                rep.undecided(rule, m, con, "expected one unconditional return")
            continue
        e = rc[0].value
        # peel flatten / reshape(-1)
        while isinstance(e, ast.Call) and isinstance(e.func, ast.Attribute) and e.func.attr in ("flatten", "ravel", "reshape", "astype", "copy"):
            e = e.func.value
        ok = False
        why = "%s is %s, expected np.vstack of the values of sorted(self.%s.items())" % (nm, unparse(rc[0].value), fld)
        if isinstance(e, ast.Attribute) and unparse(e.value) == m.self_name:
            rep.violation(rule, m, con, "%s hands out the stored array self.%s itself" % (nm, e.attr), node=m.node)
            continue
        if isinstance(e, ast.Call) and (dotted(e.func) or "").split(".")[-1] in ("vstack", "array", "concatenate", "stack") and e.args:
            comp = e.args[0]
            if isinstance(comp, (ast.ListComp, ast.GeneratorExp)) and len(comp.generators) == 1 and not comp.generators[0].ifs:
                g = comp.generators[0]
                it_ok = unparse(g.iter).replace(" ", "") == "sorted(self.%s.items())" % fld
                if isinstance(g.target, ast.Name):
                    el_ok = isinstance(comp.elt, ast.Subscript) and unparse(comp.elt.value) == g.target.id and is_num(comp.elt.slice, 1)
                elif isinstance(g.target, ast.Tuple) and len(g.target.elts) == 2 and isinstance(g.target.elts[1], ast.Name):
                    el_ok = unparse(comp.elt) == g.target.elts[1].id
                else:
                    el_ok = False
                if el_ok and not it_ok:
                    rep.violation(rule, m, con, "the values are enumerated over `%s`; rows and offsets line up only in sorted (schedule, outcome) key order"
                                  % unparse(g.iter), node=m.node)
                    continue
                ok = it_ok and el_ok
        if ok:
            rep.holds(rule, m, con, "values stacked in sorted key order, built on every call", node=m.node)
        else:
            rep.undecided(rule, m, con, why)


def _check_prob_dists(ctx, rep, cp: Func):
    """calc_prob_dists: A @ x + b with x = to_var() under the parametrised flag and to_stacked_vector() otherwise, reshaped per schedule"""
    from ..astutil import deep_inline, conjuncts
    from ..matexpr import product
    con = "A x + b"
    rets = returns(cp)
    if len(rets) != 1:
        rep.undecided("M1", cp, con, "expected one return")
        return
    e = deep_inline(cp, rets[0].value)
    # peel reshape((self.num_schedules, -1)) / list(...)
    resh = [n for n in own_nodes(cp.node) if isinstance(n, ast.Call) and isinstance(n.func, ast.Attribute) and n.func.attr == "reshape"]
    resh_ok = any(unparse(r).replace(" ", "").endswith(("reshape((self.num_schedules,-1))", "reshape(self.num_schedules,-1)")) for r in resh)
    # the affine expressions A @ x + b anywhere in the function (inlined)
    forms = []
    flag = "self._on_para_eq_constraint"

    def affine(x, polarity):
        if isinstance(x, ast.IfExp):
            c = conjuncts(x.test, True)
            if c and len(c) == 1 and c[0][0] in (flag, "self.on_para_eq_constraint"):
                affine(x.body, c[0][1])
                affine(x.orelse, not c[0][1])
            return
        if isinstance(x, ast.BinOp) and isinstance(x.op, ast.Add):
            for a, b in ((x.left, x.right), (x.right, x.left)):
                if unparse(b) == "self.calc_vecB()" and isinstance(a, ast.BinOp) and isinstance(a.op, ast.MatMult) and unparse(a.left) == "self.calc_matA()":
                    v = a.right
                    if isinstance(v, ast.IfExp):
                        c = conjuncts(v.test, True)
                        if c and len(c) == 1 and c[0][0] in (flag, "self.on_para_eq_constraint"):
                            forms.append((c[0][1], unparse(v.body)))
                            forms.append((not c[0][1], unparse(v.orelse)))
                            return
                    forms.append((polarity, unparse(v)))
                    return
    # candidates: every expression statement value in the function, with its guard
    from ..astutil import guards_of
    for n in own_nodes(cp.node):
        if isinstance(n, ast.Assign) and len(n.targets) == 1:
            g = {t: pol for t, pol, _ in guards_of(n)}
            pol = g.get(flag, g.get("self.on_para_eq_constraint"))
            before = len(forms)
            affine(inline(cp, n.value, defs={k: v for k, v in single_defs(cp).items()}), pol)
    # path-sensitive reading: per control-flow path, the returned value with every local replaced by what it holds on that path
    from ..symsum import cases, returning
    cs = cases(cp)
    if cs:
        pforms = []
        for c in returning(cs):
            pol = None
            for t, p_, _ in c.guards:
                if t in (flag, "self.on_para_eq_constraint"):
                    pol = p_
            if c.value is None:
                continue
            keep, forms = forms, []
            for x in ast.walk(c.value):
                if isinstance(x, (ast.BinOp, ast.IfExp)):
                    affine(x, pol)
            pforms.extend(forms)
            forms = keep
        if {pol for pol, _ in pforms} >= {True, False}:
            forms = pforms
    got = {}
    for pol, v in forms:
        got.setdefault(pol, set()).add(v)
    ok = got.get(True) == {"qope.to_var()"} and got.get(False) == {"qope.to_stacked_vector()"} and None not in got
    if not forms:
        rep.undecided("M1", cp, con, "no expression self.calc_matA() @ x + self.calc_vecB() found")
    elif not ok:
        rep.violation("M1", cp, con, "the model is applied to %s; it was assembled for to_var() when the constraint is built into the parametrisation and "
                      "for to_stacked_vector() otherwise" % {str(k): sorted(v) for k, v in got.items()}, node=cp.node)
    elif not resh_ok:
        rep.violation("M1", cp, con, "the result is not split into one row block per schedule (reshape((self.num_schedules, -1)))", node=rets[0])
    else:
        rep.holds("M1", cp, con, "to_var() under the parametrised flag, stacked vector otherwise; one row block per schedule", node=rets[0])


def _coeff_stores(f: Func):
    """stores into the two coefficient dictionaries: [(kind '1st'|'0th', flag True/False/None, value inlined, stmt)]"""
    from ..astutil import deep_inline, guards_of
    out = []
    for n in own_nodes(f.node):
        if isinstance(n, ast.Assign) and len(n.targets) == 1 and isinstance(n.targets[0], ast.Subscript):
            base = unparse(n.targets[0].value)
            kind = "1st" if base.endswith("coeffs_1st") else "0th" if base.endswith("coeffs_0th") else None
            if kind is None:
                continue
            g = {t: pol for t, pol, _ in guards_of(n)}
            fl = g.get("on_para_eq_constraint")
            if fl is None and isinstance(n.value, ast.Name):
                # the stored local is bound once per value of the flag: `a = X` / `a, b = (X, Y)` under the guard
                alts = []
                for d in own_nodes(f.node):
                    if not (isinstance(d, ast.Assign) and len(d.targets) == 1):
                        continue
                    t, v = d.targets[0], d.value
                    val = None
                    if isinstance(t, ast.Name) and t.id == n.value.id:
                        val = v
                    elif isinstance(t, ast.Tuple) and isinstance(v, ast.Tuple) and len(t.elts) == len(v.elts):
                        for x, y in zip(t.elts, v.elts):
                            if isinstance(x, ast.Name) and x.id == n.value.id:
                                val = y
                    if val is not None:
                        gd = {t_: pol for t_, pol, _ in guards_of(d)}
                        alts.append((gd.get("on_para_eq_constraint"), val))
                if len(alts) == 2 and {a for a, _ in alts} == {True, False}:
                    for a, val in alts:
                        out.append((kind, a, val, n))
                    continue
            out.append((kind, fl, n.value, n))
    return out


def _m45(ctx, rep):
    from ..astutil import deep_inline
    from ..tables import flat_order
    from .c12 import _ipoly
    ix = ctx.ix
    VEC_SIZE_IS_D2 = {"vec_size": D2}

    def spoly(e, f):
        """size polynomial with dim = sqrt(vec_size), vec_size = <vec>.shape[0] = d^2"""
        e = deep_inline(f, e)

        class R(ast.NodeTransformer):
            def visit_Subscript(self, n):
                if isinstance(n.value, ast.Attribute) and n.value.attr == "shape" and unparse(n.value.value).endswith(("vec", "_vec")) and is_num(n.slice, 0):
                    return ast.copy_location(ast.BinOp(left=ast.Name(id="dim", ctx=ast.Load()), op=ast.Pow(), right=ast.Constant(value=2)), n)
                return self.generic_visit(n)
        e = ast.fix_missing_locations(R().visit(e))
        return _size_poly(e, None, {})
    # ------------------------------------------------ process tomography
    f = ix.func(T + "standard_qpt.calc_c_qpt")
    st = _coeff_stores(f)
    from ..astutil import element_defs
    el = element_defs(f)
    rows = {fl: deep_inline(f, v, extra=el) for k, fl, v, n in st if k == "1st"}
    offs = {fl: deep_inline(f, v, extra=el) for k, fl, v, n in st if k == "0th"}
    con = "process: rows"
    full = rows.get(False)
    if full is None or rows.get(True) is None:
        rep.undecided("M4", f, con, "expected one row store per value of on_para_eq_constraint")
    else:
        order, base = flat_order(ctx, full)
        okrow = order == "C" and isinstance(base, ast.Call) and (dotted(base.func) or "").endswith("outer") and len(base.args) == 2
        if not okrow:
            rep.undecided("M4", f, con, "row `%s` is not a row-major flattened outer product" % unparse(full))
        else:
            a0, a1 = unparse(base.args[0]), unparse(base.args[1])
            loopvars = {l.target.elts[1].id if isinstance(l.target, ast.Tuple) else unparse(l.target): unparse(l.iter)
                        for l in own_nodes(f.node) if isinstance(l, (ast.For, ast.comprehension)) and "povm" in unparse(l.iter)}
            is_povm = a0 in loopvars and "vecs" in loopvars[a0]
            is_state = a1.endswith(".vec") and "state" in a1
            rep.check(is_povm and is_state, "M4", f, con, "outer(povm element, state).flatten(): index r*d^2 + c multiplies HS[r, c]",
                      "the row is outer(%s, %s) flattened; p = sum povm[r] HS[r,c] state[c] needs outer(povm element, state vector) flattened row-major"
                      % (a0, a1), node=base)
        red = rows[True]
        con5 = "process: skipped coordinates"
        if isinstance(red, ast.Subscript) and isinstance(red.slice, ast.Slice) and red.slice.upper is None and red.slice.lower is not None \
                and unparse(red.value) == unparse(full):
            try:
                lo = spoly(red.slice.lower, f)
                rep.check(lo == D2, "M5", f, con5, "variables are row[d^2:]", "skipped coordinates start at %r; the implied first HS row occupies "
                          "coordinates 0..d^2-1" % lo, node=f.node)
            except Undecided as ex:
                rep.undecided("M5", f, con5, str(ex))
        else:
            rep.undecided("M5", f, con5, "parametrised row `%s` is not a tail slice of the full row" % unparse(red))
        o_t, o_f = offs.get(True), offs.get(False)
        ok0 = o_t is not None and isinstance(o_t, ast.Subscript) and unparse(o_t.value) == unparse(full) and is_num(o_t.slice, 0) and o_f is not None and is_num(o_f, 0)
        rep.check(ok0, "M5", f, "process: offset", "offset = row[0] (implied HS[0,0] = 1), 0 otherwise",
                  "offsets are %s / %s; the implied row e0 contributes row[0]" % (unparse(o_t) if o_t is not None else None, unparse(o_f) if o_f is not None else None), node=f.node)
    # ------------------------------------------------ state tomography
    f = ix.func(T + "standard_qst.StandardQst._set_coeffs")
    st = _coeff_stores(f)
    rows = {fl: deep_inline(f, v) for k, fl, v, n in st if k == "1st"}
    offs = {fl: deep_inline(f, v) for k, fl, v, n in st if k == "0th"}
    pv = {unparse(l.target.elts[1]) if isinstance(l.target, ast.Tuple) else unparse(l.target) for l in own_nodes(f.node)
          if isinstance(l, ast.For) and "vecs" in unparse(l.iter)}
    r_t, r_f = rows.get(True), rows.get(False)
    if r_t is None or r_f is None:
        rep.undecided("M4", f, "state: rows", "expected one row store per value of on_para_eq_constraint")
    else:
        ok = unparse(r_f) in pv and isinstance(r_t, ast.Subscript) and unparse(r_t.value) == unparse(r_f) and unparse(r_t.slice).replace(" ", "") == "1:"
        rep.check(ok, "M4", f, "state: rows", "row = POVM vector (coordinates 1.. when parametrised)",
                  "rows are %s / %s" % (unparse(r_t), unparse(r_f)), node=f.node)
    off = offs.get(True)
    try:
        if off is None or offs.get(False) is None:
            raise Undecided("expected one offset store per value of on_para_eq_constraint")
        good = isinstance(off, ast.BinOp) and isinstance(off.op, ast.Div) and isinstance(off.left, ast.Subscript) and unparse(off.left.value) in pv \
            and is_num(off.left.slice, 0) and _size_poly(off.right, f) == Poly.sym("d") ** Fraction(1, 2) and offs.get(False) is not None and is_num(offs.get(False), 0)
        rep.check(good, "M5", f, "state: offset", "offset = povm[0] * d^-1/2", "offset is %s, the implied coefficient is d^-1/2" % (unparse(off) if off is not None else None),
                  node=f.node)
    except Undecided as ex:
        rep.undecided("M5", f, "state: offset", str(ex))
    # ------------------------------------------------ POVM tomography
    f = ix.func(T + "standard_povmt.StandardPovmt._set_coeffs")
    st = _coeff_stores(f)
    rows = {fl: v for k, fl, v, n in st if k == "1st"}
    offs = {fl: v for k, fl, v, n in st if k == "0th"}
    defs = single_defs(f)
    # the element loop `for k in range(M)`
    eloops = [l for l in own_nodes(f.node) if isinstance(l, ast.For) and isinstance(l.target, ast.Name) and unparse(l.iter).startswith("range(")
              and any(x is n for k_, fl_, v_, n in st for x in ast.walk(l))]
    con = "povm: block placement"
    if len(eloops) != 1 or rows.get(False) is None:
        rep.undecided("M4", f, con, "expected one loop over the outcome index around the coefficient stores")
    else:
        lp = eloops[0]
        k = lp.target.id
        M = deep_inline(f, lp.iter.args[0])
        full = rows[False]
        hs = inline(f, full, defs={k_: v_ for k_, v_ in defs.items() if not isinstance(v_, (ast.List, ast.ListComp))})
        # c = np.hstack(L) with L filled by appends in order
        ok_h = isinstance(hs, ast.Call) and (dotted(hs.func) or "").endswith("hstack") and hs.args and isinstance(hs.args[0], ast.Name)
        if not ok_h:
            rep.undecided("M4", f, con, "full row `%s` is not np.hstack(<list>)" % unparse(hs))
        else:
            lst = hs.args[0].id
            apps = sorted((x for x in ast.walk(lp) if isinstance(x, ast.Call) and unparse(x.func) == lst + ".append" and x.args), key=lambda x: (x.lineno, x.col_offset))
            parts = [deep_inline(f, a.args[0]) for a in apps]

            def zeros_len(e):
                o, b = flat_order(ctx, e)
                b = b if o else e
                if isinstance(b, ast.Call) and (dotted(b.func) or "").endswith("zeros") and b.args:
                    a = b.args[0]
                    if isinstance(a, ast.Tuple) and len(a.elts) == 2 and is_num(a.elts[0], 1):
                        a = a.elts[1]
                    return a
                return None
            try:
                good = len(parts) == 3 and zeros_len(parts[0]) is not None and zeros_len(parts[2]) is not None and unparse(parts[1]).endswith(".vec")
                if good:
                    Vn = "vec_size"
                    pre = _ipoly(zeros_len(parts[0]), {})
                    post = _ipoly(zeros_len(parts[2]), {})
                    Mp = _ipoly(M, {})
                    V = pre.div_mono(Poly.sym(k)) if not pre.is_zero() else None
                    good = V is not None and len(V.t) == 1 and pre == Poly.sym(k) * V and post == (Mp - 1 - Poly.sym(k)) * V
                rep.check(good, "M4", f, con, "state vector in block k of M blocks (k zeros-blocks before, M-1-k after)",
                          "the row is hstack(%s): the state vector must sit in block `%s` of %s blocks" % ([unparse(x) for x in parts], k, unparse(M)), node=f.node)
            except ValueError as ex:
                rep.undecided("M4", f, con, str(ex))
        # implied last element
        con5 = "povm: implied last element"
        a = rows.get(True)
        a = inline(f, a, defs={k_: v_ for k_, v_ in defs.items()}) if a is not None else None
        spl = [n for n in own_nodes(f.node) if isinstance(n, ast.Call) and (dotted(n.func) or "").endswith("split")]
        tup = [n for n in own_nodes(f.node) if isinstance(n, ast.Assign) and isinstance(n.targets[0], ast.Tuple) and len(n.targets[0].elts) == 2 and n.value in spl]
        if a is None or len(spl) != 1 or len(tup) != 1:
            rep.undecided("M5", f, con5, "expected (head, last) = np.split(row, [position]) and a parametrised row store")
        else:
            head, last = [x.id for x in tup[0].targets[0].elts]
            try:
                pos = spl[0].args[1]
                pos = pos.elts[0] if isinstance(pos, (ast.List, ast.Tuple)) and len(pos.elts) == 1 else pos
                pp = _ipoly(deep_inline(f, pos), {})
                Mp = _ipoly(M, {})
                form = isinstance(a, ast.BinOp) and isinstance(a.op, ast.Sub) and unparse(a.left) == head and isinstance(a.right, ast.Call) \
                    and (dotted(a.right.func) or "").endswith("tile") and unparse(a.right.args[0]) == last \
                    and _ipoly(deep_inline(f, a.right.args[1]), {}) == Mp - 1
                Vsyms = [sym for sym in pp.symbols() if sym not in Mp.symbols()]
                split_ok = len(Vsyms) == 1 and pp == Poly.sym(Vsyms[0]) * (Mp - 1)
                rep.check(form and split_ok, "M5", f, con5, "a = head - tile(last, M-1) with the split at (M-1) blocks",
                          "the implied last POVM element is not substituted as sqrt(d) e0 - sum of the others (row %s, split at %s)" % (unparse(a), unparse(pos)), node=f.node)
            except ValueError as ex:
                rep.undecided("M5", f, con5, str(ex))
            b = offs.get(True)
            b = deep_inline(f, b) if b is not None else None
            good = False
            if isinstance(b, ast.BinOp) and isinstance(b.op, ast.Mult):
                for coef, other in ((b.left, b.right), (b.right, b.left)):
                    if isinstance(other, ast.Subscript) and unparse(other.value) == last and is_num(other.slice, 0):
                        try:
                            good = spoly(coef, f) == Poly.sym("d") ** Fraction(1, 2)
                        except Undecided:
                            good = False
            rep.check(good, "M5", f, "povm: offset", "offset = d^1/2 * state[0] on the last block", "offset is %s; the implied total is d^1/2 e0" % (unparse(b) if b is not None else None),
                      node=f.node)
