"""C08 - forward model assembly: row order, key agreement, positions, operand roles, offsets."""
from __future__ import annotations

import ast
from fractions import Fraction

from ..astutil import const, inline, is_num, kwarg, returns, single_defs, unparse
from ..index import AnalysisError, Class, Func, dotted, own_nodes
from ..poly import Poly
from ..symint import Undecided
from .c03 import _size_poly, D2
from .c20 import TOMO

T = "quara.protocol.qtomography.standard."


def run(ctx, rep):
    ix = ctx.ix
    rep.rule("M1", "calc_matA and calc_vecB stack the values of their dictionaries in the same sorted (schedule, outcome) key order; "
                   "calc_prob_dists applies A x + b to the variables of the parametrisation in force and reshapes per schedule", floor=3)
    rep.rule("M2", "every store of a coefficient row coeffs_1st[k] is paired with a store of the offset coeffs_0th[k] under the same key, "
                   "in every branch", floor=6)
    rep.rule("M3", "each tomography class reads states / POVMs / its unknown from the schedule positions its own validator pins to that kind", floor=8)
    rep.rule("M4", "operand roles: process tomography rows are outer(povm, state) flattened row-major; POVM tomography puts the state "
                   "vector in block m_index of an m-block row; state tomography rows are the POVM vectors", floor=3)
    rep.rule("M5", "offsets and skipped coordinates are the ones the parametrisation implies: state d^-1/2 * povm[0] with coordinates 1..; "
                   "POVM d^1/2 * state[0] on the implied last block; process coefficient 0 of the outer product with coordinates d^2..", floor=5)
    # ---- M1
    sq = ix.cls(T + "standard_qtomography.StandardQTomography")
    forms = {}
    for nm, fld in (("calc_matA", "_coeffs_1st"), ("calc_vecB", "_coeffs_0th")):
        m = sq.methods[nm]
        d = single_defs(m)
        r = returns(m)
        e = inline(m, r[0].value) if r else None
        txt = unparse(e) if e is not None else ""
        want_core = "np.vstack([k[1] for k in sorted(self.%s.items())])" % fld
        ok = txt in (want_core, want_core + ".flatten()")
        forms[nm] = txt.replace(fld, "F")
        rep.check(ok, "M1", m, r[0] if r else nm, "values stacked in sorted key order", "%s is %s, expected %s" % (nm, txt, want_core), node=r[0] if r else m.node)
    cp = sq.methods["calc_prob_dists"]
    txt = unparse(cp.node)
    ok = "self.calc_matA() @ qope.to_var() + self.calc_vecB()" in txt and "self.calc_matA() @ qope.to_stacked_vector() + self.calc_vecB()" in txt \
        and "reshape((self.num_schedules, -1))" in txt
    ifs = [n for n in own_nodes(cp.node) if isinstance(n, ast.If) and unparse(n.test) == "self._on_para_eq_constraint"]
    ok = ok and len(ifs) == 1 and "to_var()" in unparse(ifs[0].body[0]) and "to_stacked_vector()" in unparse(ifs[0].orelse[0])
    rep.check(ok, "M1", cp, "A x + b", "to_var() under the parametrised flag, stacked vector otherwise; one row block per schedule",
              "calc_prob_dists does not apply A x + b to the right variables / reshape per schedule", node=cp.node)
    # ---- M2
    for q in (T + "standard_qst.StandardQst._set_coeffs", T + "standard_povmt.StandardPovmt._set_coeffs", T + "standard_qpt.calc_c_qpt",
              T + "standard_qmpt.StandardQmpt._set_coeffs"):
        f = ix.func(q)
        n1 = 0
        for n in own_nodes(f.node):
            if isinstance(n, ast.Assign) and isinstance(n.targets[0], ast.Subscript) and unparse(n.targets[0].value).endswith("coeffs_1st"):
                n1 += 1
                key = unparse(n.targets[0].slice)
                blk = getattr(n, "_parent", None)
                sibs = []
                for fld in ("body", "orelse"):
                    b = getattr(blk, fld, [])
                    if n in b:
                        sibs = [s for s in b if isinstance(s, ast.Assign) and isinstance(s.targets[0], ast.Subscript)
                                and unparse(s.targets[0].value).endswith("coeffs_0th")]
                ok = any(unparse(s.targets[0].slice) == key for s in sibs)
                rep.check(ok, "M2", f, n, "offset stored under the same key (%s)" % key,
                          "row stored under key (%s) but the offset in this branch is stored under %s" % (key, [unparse(s.targets[0].slice) for s in sibs] or "no key"), node=n)
        if n1 == 0:
            rep.undecided("M2", f, "stores", "no coefficient stores found")
    # key's second component enumerates outcomes in circuit order
    f = ix.func(T + "standard_qst.StandardQst._set_coeffs")
    ok = any(isinstance(n, ast.For) and unparse(n.iter) == "enumerate(povm.vecs)" and unparse(n.target) == "(element_index, vec)" for n in own_nodes(f.node))
    rep.check(ok, "M2", f, "outcome enumeration (Qst)", "outcomes in the POVM's own order", "rows are not enumerated over enumerate(povm.vecs)", node=f.node)
    # ---- M3
    for cq, (shape, tpos) in TOMO.items():
        c = ix.cls(cq)
        short = c.name
        funcs = [c.methods.get("_set_coeffs"), c.methods.get("num_outcomes"), c.methods.get("_get_target_index")]
        if short in ("StandardQpt", "StandardQmpt"):
            funcs.append(ix.func(T + "standard_qpt.calc_c_qpt"))
        reads = []
        for f in [x for x in funcs if x is not None]:
            defs = {unparse(s.targets[0]): s.value for s in own_nodes(f.node) if isinstance(s, ast.Assign) and isinstance(s.targets[0], ast.Name)}
            for n in own_nodes(f.node):
                if isinstance(n, ast.Assign) and isinstance(n.targets[0], ast.Name) and isinstance(n.value, ast.Subscript) and is_num(n.value.slice, 1) \
                        and isinstance(n.value.value, ast.Subscript):
                    inner = n.value.value
                    base = unparse(inner.value)
                    if not (base == "schedule" or base.endswith("schedules[schedule_index]")):
                        continue
                    pos = const(inner.slice)
                    if not isinstance(pos, int) and isinstance(inner.slice, ast.Name) and inner.slice.id in defs:
                        pos = const(defs[inner.slice.id])
                    role = None
                    nm = n.targets[0].id
                    for k in ("state", "povm", "gate", "mprocess"):
                        if nm.startswith(k):
                            role = k
                    if nm == "target_index":
                        role = shape[tpos]
                    reads.append((f, n, pos, role))
        # the object lists are indexed by the index read for their own kind
        role_of = {}
        for f, n, pos, role in reads:
            if role is not None:
                role_of.setdefault(f.qualname, {})[n.targets[0].id] = role
        for f in [x for x in funcs if x is not None]:
            for n in own_nodes(f.node):
                if isinstance(n, ast.Subscript) and isinstance(n.ctx, ast.Load):
                    base = unparse(n.value)
                    kind = next((k for k in ("state", "povm", "gate", "mprocess") if base == k + "s" or base.endswith("." + k + "s") or base.endswith("._" + k + "s")), None)
                    if kind is None or base.endswith("schedules"):
                        continue
                    con = "%s: %s" % (short, unparse(n))
                    if isinstance(n.slice, ast.Constant) and n.slice.value == 0 and "_set_qoperations" in base:
                        continue            # the template object of the unknown
                    if not isinstance(n.slice, ast.Name):
                        rep.info("M3", f, con, "list indexed by a non-name expression")
                        continue
                    r = role_of.get(f.qualname, {}).get(n.slice.id)
                    if r == kind:
                        rep.holds("M3", f, con, "%s list indexed by the %s index the schedule names" % (kind, kind), node=n)
                    elif r is not None:
                        rep.violation("M3", f, con, "the %s list is indexed by `%s`, which is the schedule's %s index" % (kind, n.slice.id, r), node=n)
                    else:
                        rep.violation("M3", f, con, "the %s list is indexed by `%s`, which is not an index read from the schedule (the position of the "
                                                    "schedule in the list is not the number of the %s it uses: any permuted, partial or repeating schedule "
                                                    "list picks the wrong tester)" % (kind, n.slice.id, kind), node=n)
        if not reads:
            rep.undecided("M3", cq, "positions", "no schedule position reads found")
        for f, n, pos, role in reads:
            p = pos if pos is None or pos >= 0 else len(shape) + pos
            con = "%s: %s" % (short, unparse(n))
            if p is None or role is None or p >= len(shape):
                rep.undecided("M3", f, con, "position %s / role %s not resolved" % (pos, role))
            elif shape[p] == role:
                rep.holds("M3", f, con, "position %d is pinned to '%s' by the class's validator" % (p, role), node=n)
            else:
                rep.violation("M3", f, con, "reads the %s from position %s, which %s's schedules pin to '%s'" % (role, pos, short, shape[p]), node=n)
    # ---- M4 / M5
    f = ix.func(T + "standard_qpt.calc_c_qpt")
    outs = [n for n in own_nodes(f.node) if isinstance(n, ast.Call) and (dotted(n.func) or "").endswith("outer")]
    ok = len(outs) == 1 and [unparse(a) for a in outs[0].args] == ["povm_vec", "state.vec"] and isinstance(getattr(outs[0], "_parent", None), ast.Attribute) \
        and getattr(outs[0], "_parent").attr == "flatten"
    rep.check(ok, "M4", f, outs[0] if outs else "outer", "outer(povm, state).flatten(): index r*d^2 + c multiplies HS[r, c]",
              "the row is %s; p = sum povm[r] HS[r,c] state[c] needs outer(povm_vec, state.vec) flattened row-major" % (unparse(outs[0]) if outs else None), node=outs[0] if outs else f.node)
    defs = {unparse(s.targets[0]): s.value for s in own_nodes(f.node) if isinstance(s, ast.Assign) and isinstance(s.targets[0], ast.Name)}
    a = defs.get("a")
    ok5 = False
    why = "no slice of the row found"
    if isinstance(a, ast.Subscript) and isinstance(a.slice, ast.Slice) and a.slice.upper is None and unparse(a.value) == "c":
        try:
            d_ = {k: v for k, v in defs.items() if k in ("dim", "vec_size")}
            lo = _size_poly(a.slice.lower, f, {"dim": ast.parse("np.sqrt(vec_size)", mode="eval").body})
            lo = lo.subst({"vec_size": D2}) if "vec_size" in [s for s in lo.symbols()] else lo
        except Undecided as ex:
            lo = None
            why = str(ex)
        txt = unparse(a.slice.lower)
        ok5 = txt.replace(" ", "") in ("int(dim*dim)", "dim**2", "int(dim**2)", "vec_size") and unparse(defs.get("dim")) == "np.sqrt(vec_size)" \
            and unparse(defs.get("vec_size")) == "state.vec.shape[0]"
        why = "skipped coordinates start at %s; the implied first HS row occupies coordinates 0..d^2-1" % txt
    rep.check(ok5, "M5", f, "process: skipped coordinates", "variables are c[d^2:]", why, node=f.node)
    st0 = [n for n in own_nodes(f.node) if isinstance(n, ast.Assign) and unparse(n.targets[0]).startswith("coeffs_0th[") and not is_num(n.value, 0)]
    rep.check(len(st0) == 1 and unparse(st0[0].value) == "c[0]", "M5", f, "process: offset", "offset = c[0] (implied HS[0,0] = 1)",
              "offset is %s, the implied row e0 contributes c[0]" % [unparse(s.value) for s in st0], node=st0[0] if st0 else f.node)
    # Qst
    f = ix.func(T + "standard_qst.StandardQst._set_coeffs")
    pairs = {}
    for n in own_nodes(f.node):
        if isinstance(n, ast.Assign) and isinstance(n.targets[0], ast.Subscript) and "_coeffs_" in unparse(n.targets[0].value):
            from .c03 import _branch_flag
            pairs[(unparse(n.targets[0].value), _branch_flag(n, "on_para_eq_constraint"))] = n.value
    ok = unparse(pairs.get(("self._coeffs_1st", True))) == "vec[1:]" and unparse(pairs.get(("self._coeffs_1st", False))) == "vec" \
        and is_num(pairs.get(("self._coeffs_0th", False)), 0)
    rep.check(ok, "M4", f, "state: rows", "row = POVM vector (coordinates 1.. when parametrised)", "rows are %s" % {k: unparse(v) for k, v in pairs.items()}, node=f.node)
    off = pairs.get(("self._coeffs_0th", True))
    try:
        good = isinstance(off, ast.BinOp) and isinstance(off.op, ast.Div) and unparse(off.left) == "vec[0]" and _size_poly(off.right, f) == Poly.sym("d") ** Fraction(1, 2)
    except Undecided:
        good = False
    rep.check(good, "M5", f, "state: offset", "offset = povm[0] * d^-1/2", "offset is %s, the implied coefficient is d^-1/2" % (unparse(off) if off is not None else None), node=f.node)
    # Povmt
    f = ix.func(T + "standard_povmt.StandardPovmt._set_coeffs")
    defs = {unparse(s.targets[0]): s.value for s in own_nodes(f.node) if isinstance(s, ast.Assign) and isinstance(s.targets[0], ast.Name)}
    ok = unparse(defs.get("pre_zeros")) == "np.zeros((1, m_index * vec_size)).flatten()" and \
        unparse(defs.get("post_zeros")) == "np.zeros((1, (m - 1 - m_index) * vec_size)).flatten()" and unparse(defs.get("c")) == "np.hstack(stack_list)"
    order = [unparse(n.args[0]) for n in sorted((x for x in own_nodes(f.node) if isinstance(x, ast.Call) and unparse(x.func) == "stack_list.append"),
                                                 key=lambda x: (x.lineno, x.col_offset))]
    ok = ok and order == ["pre_zeros", "state.vec", "post_zeros"]
    rep.check(ok, "M4", f, "povm: block placement", "state vector in block m_index of m blocks", "the state vector is not placed in block m_index (%s)" % order, node=f.node)
    ok = unparse(defs.get("a")) == "a_prime - np.tile(c_prime, m - 1)" and unparse(defs.get("dim")) == "np.sqrt(vec_size)"
    spl = [n for n in own_nodes(f.node) if isinstance(n, ast.Call) and (dotted(n.func) or "").endswith("split")]
    ok = ok and len(spl) == 1 and unparse(spl[0].args[1]) == "[vec_size * (m - 1)]"
    rep.check(ok, "M5", f, "povm: implied last element", "a = a' - tile(c', m-1) with the split at (m-1) d^2",
              "the implied last POVM element is not substituted as sqrt(d) e0 - sum of the others", node=f.node)
    b = defs.get("b")
    good = False
    if isinstance(b, ast.BinOp) and isinstance(b.op, ast.Mult):
        for coef, other in ((b.left, b.right), (b.right, b.left)):
            if unparse(other) == "c_prime[0]":
                try:
                    # dim = sqrt(vec_size), vec_size = d^2  ->  sqrt(dim) = d^1/2
                    cexp = _size_poly(coef, f, {"dim": ast.parse("np.sqrt(vec_size)", mode="eval").body, "vec_size": ast.parse("d2", mode="eval").body})
                except Undecided:
                    cexp = None
                good = unparse(coef) == "np.sqrt(dim)"
    rep.check(good, "M5", f, "povm: offset", "offset = d^1/2 * state[0] on the last block", "offset is %s; the implied total is d^1/2 e0" % (unparse(b) if b is not None else None), node=f.node)
