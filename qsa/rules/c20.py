"""C20 - schedule validation: raise/catch exhaustiveness, validate-before-store, kind tables,
None placeholders, and the accept language extracted from the validators' guards."""
from __future__ import annotations

import ast
import itertools

from ..astutil import body_wo_doc, const, const_in, inline, is_num, kwarg, returns, single_defs, unparse, NOCONST
from ..cfg import CFG, definite_assignment, loaded_names
from ..index import AnalysisError, Class, Func, dotted, own_nodes

X = "quara.qcircuit.experiment.Experiment."
KINDS = ["state", "povm", "gate", "mprocess"]
TOMO = {
    "quara.protocol.qtomography.standard.standard_qst.StandardQst": (["state", "povm"], 0),
    "quara.protocol.qtomography.standard.standard_povmt.StandardPovmt": (["state", "povm"], 1),
    "quara.protocol.qtomography.standard.standard_qpt.StandardQpt": (["state", "gate", "povm"], 1),
    "quara.protocol.qtomography.standard.standard_qmpt.StandardQmpt": (["state", "mprocess", "povm"], 1),
}


def run(ctx, rep):
    ix = ctx.ix
    rep.rule("V1", "every exception class the item / order validators raise is caught by the handler that converts it to the schedule "
                   "error, and every name a handler reads is definitely assigned on every way into it", floor=4)
    rep.rule("V2", "constructor and setters validate the new value before they store it, and store the validated value", floor=6)
    rep.rule("V3", "the four kinds are the same set in every table (item validator, setters' objdict, key_map, SetQOperations)", floor=8)
    rep.rule("V4", "calc_prob_dist rejects None placeholders before composing, and pushes items in reverse (time) order", floor=2)
    rep.rule("V5", "accept language of the experiment validators, extracted from their guards and enumerated over all kind sequences "
                   "up to length 5 and all malformed item shapes, equals the stated grammar", floor=3)
    rep.rule("V6", "each tomography class accepts exactly the schedules of its own shape (guards of its validator combined with the "
                   "experiment's, enumerated up to length 5) and pins the target's index to 0 at the position it later reads", floor=8)
    rep.rule("V7", "a schedule that the validators accept is executed with the objects it names: every object list is indexed by the index "
                   "read from the schedule item of that kind, never by the position of the schedule in the list (rule M3 of C08)", floor=8)
    from ..report import Relay
    from .c08 import check_schedule_reads
    check_schedule_reads(ctx, Relay(rep, {"M3": "V7"}))
    vs = ix.func(X + "_validate_schedules")
    vi = ix.func(X + "_validate_schedule_item")
    vo = ix.func(X + "_validate_schedule_order")
    _v1(ctx, rep, vs, vi, vo)
    _v2(ctx, rep)
    _v3(ctx, rep, vi)
    _v4(ctx, rep)
    order_guards = _v5(ctx, rep, vi, vo)
    _v6(ctx, rep, order_guards)


# ------------------------------------------------------------------------------ V1
def _raised(ctx, f: Func, depth=0, seen=None):
    """exception class names raised explicitly in f and in the repo functions it calls via self."""
    seen = seen if seen is not None else set()
    if f.qualname in seen or depth > 4:
        return set()
    seen.add(f.qualname)
    out = set()
    for n in own_nodes(f.node):
        if isinstance(n, ast.Raise) and n.exc is not None:
            e = n.exc.func if isinstance(n.exc, ast.Call) else n.exc
            out.add(dotted(e) or "?")
        elif isinstance(n, ast.Call) and isinstance(n.func, ast.Attribute) and isinstance(n.func.value, ast.Name) and n.func.value.id == f.self_name \
                and f.cls is not None:
            m = f.cls.lookup(n.func.attr)
            if m is not None:
                out |= _raised(ctx, m, depth + 1, seen)
    return out


def _handler_classes(h: ast.ExceptHandler):
    if h.type is None:
        return {"BaseException"}
    elts = h.type.elts if isinstance(h.type, ast.Tuple) else [h.type]
    return {dotted(e) or "?" for e in elts}


BUILTIN_PARENTS = {"IndexError": "LookupError", "KeyError": "LookupError", "LookupError": "Exception", "ValueError": "Exception",
                   "TypeError": "Exception", "Exception": "BaseException", "UnicodeError": "ValueError"}


def _caught(cls_name, handler_set):
    c = cls_name
    while c is not None:
        if c in handler_set:
            return True
        c = BUILTIN_PARENTS.get(c)
    return False


def _v1(ctx, rep, vs: Func, vi: Func, vo: Func):
    cfg: CFG = ctx.cfg(vs)
    tries = [n for n in own_nodes(vs.node) if isinstance(n, ast.Try)]
    plan = {"_validate_schedule_item": ("QuaraScheduleItemError", vi), "_validate_schedule_order": ("QuaraScheduleOrderError", vo)}
    found = 0
    for t in tries:
        called = [c.func.attr for c in ast.walk(ast.Module(body=t.body, type_ignores=[])) if isinstance(c, ast.Call)
                  and isinstance(c.func, ast.Attribute) and c.func.attr in plan]
        if len(called) != 1:
            continue
        found += 1
        err, callee = plan[called[0]]
        raised = _raised(ctx, callee)
        hs = set()
        for h in t.handlers:
            hs |= _handler_classes(h)
        missing = sorted(r for r in raised if not _caught(r, hs))
        conv = all(any(isinstance(s, ast.Raise) and s.exc is not None and err in unparse(s.exc) for s in h.body) for h in t.handlers)
        con = "try around %s" % called[0]
        if missing:
            rep.violation("V1", vs, con, "%s raises %s, which the handler (%s) does not catch: the caller gets a raw %s instead of %s"
                          % (called[0], missing, sorted(hs), missing[0], err), node=t)
        elif not conv:
            rep.violation("V1", vs, con, "the handler does not re-raise as %s" % err, node=t)
        else:
            rep.holds("V1", vs, con, "raises %s, all caught by %s and converted to %s" % (sorted(raised), sorted(hs), err), node=t)
        # names read by the handler are definitely assigned on every edge into it
        da = definite_assignment(cfg, [p.arg for p in vs.all_params])
        for h in t.handlers:
            hn = cfg.by_ast.get(id(h))
            if hn is None:
                continue
            have = da.get(hn.id, set()) | ({h.name} if h.name else set())
            need = set()
            own = set()
            for s in h.body:
                # reads of this statement happen before its own stores
                for nm in ast.walk(s):
                    if isinstance(nm, ast.Name) and isinstance(nm.ctx, ast.Load) and nm.id not in own:
                        need.add(nm.id)
                for nm in ast.walk(s):
                    if isinstance(nm, ast.Name) and isinstance(nm.ctx, ast.Store):
                        own.add(nm.id)
            local = ctx.res.locals_of(vs)
            unbound = sorted(n for n in need if n in local and n not in have)
            con2 = "handler of %s reads %s" % (called[0], sorted(n for n in need if n in local))
            if unbound:
                rep.violation("V1", vs, con2, "the handler reads %s, which are not assigned when the exception comes from iterating the schedule "
                                              "itself (e.g. a schedule that is not iterable): UnboundLocalError instead of %s" % (unbound, err), node=h)
            else:
                rep.holds("V1", vs, con2, "all assigned on every exceptional edge", node=h)
    if found < 2:
        rep.undecided("V1", vs, "try blocks", "expected a try around each of the two validators")


# ------------------------------------------------------------------------------ V2
def _v2(ctx, rep):
    ix = ctx.ix
    c = ix.cls("quara.qcircuit.experiment.Experiment")
    fields = {"_states": ("states", "state", "State"), "_povms": ("povms", "povm", "Povm"), "_gates": ("gates", "gate", "Gate"),
              "_mprocesses": ("mprocesses", "mprocess", "MProcess"), "_schedules": ("schedules", None, None)}
    init = c.methods["__init__"]
    todo = [(init, fld, None) for fld in fields]
    for fld, (prop, kind, tname) in fields.items():
        s = c.setters.get(prop)
        if s is None:
            rep.violation("V2", c.qualname, "setter %s" % prop, "no setter found")
            continue
        todo.append((s, fld, "setter"))
    for f, fld, mode in todo:
        if mode is None and fld != "_schedules":
            # constructor: type validation before store
            prop, kind, tname = fields[fld]
            cfg = ctx.cfg(f)
            stores = [n for n in own_nodes(f.node) if isinstance(n, (ast.Assign, ast.AnnAssign)) and unparse(n.targets[0] if isinstance(n, ast.Assign) else n.target) == "self.%s" % fld]
            vals = [n for n in own_nodes(f.node) if isinstance(n, ast.Call) and unparse(n.func) == "self._validate_type" and n.args
                    and unparse(n.args[0]) == prop and len(n.args) > 1 and unparse(n.args[1]) == tname]
            ok = len(stores) == 1 and vals and any(cfg.dominates(cfg.node_of(v), cfg.node_of(stores[0])) for v in vals) \
                and unparse(stores[0].value) == prop
            rep.check(ok, "V2", f, "__init__ stores %s" % fld, "type-validated before the store", "self.%s is stored without a dominating "
                      "_validate_type(%s, %s), or a different value is stored" % (fld, prop, tname), node=stores[0] if stores else f.node)
            continue
        cfg = ctx.cfg(f)
        stores = [n for n in own_nodes(f.node) if isinstance(n, (ast.Assign, ast.AnnAssign)) and unparse(n.targets[0] if isinstance(n, ast.Assign) else n.target) == "self.%s" % fld]
        if len(stores) != 1:
            rep.violation("V2", f, "store of %s" % fld, "expected exactly one store of self.%s, found %d" % (fld, len(stores)), node=f.node)
            continue
        st = stores[0]
        newval = unparse(st.value)
        sn = cfg.node_of(st)
        vcalls = [n for n in own_nodes(f.node) if isinstance(n, ast.Call) and unparse(n.func) == "self._validate_schedules"]
        good = False
        why = "no _validate_schedules call dominates the store"
        defs = single_defs(f)
        for v in vcalls:
            vn = cfg.node_of(v)
            if vn is None or not cfg.dominates(vn, sn):
                continue
            if fld == "_schedules":
                if v.args and unparse(v.args[0]) == newval:
                    good = True
                else:
                    why = "the validated schedules are %s but %s is stored" % (unparse(v.args[0]) if v.args else None, newval)
            else:
                prop, kind, tname = fields[fld]
                od = kwarg(v, "objdict")
                od_name = od.id if isinstance(od, ast.Name) else None
                if isinstance(od, ast.Name):
                    # the dictionary's own binding (entries replaced afterwards are applied below)
                    bs = [n for n in own_nodes(f.node) if isinstance(n, ast.Assign) and len(n.targets) == 1 and isinstance(n.targets[0], ast.Name)
                          and n.targets[0].id == od.id]
                    od = bs[0].value if len(bs) == 1 else None
                if isinstance(od, ast.Dict) and all(isinstance(k, ast.Constant) for k in od.keys):
                    od = ast.Call(func=ast.Name(id="dict", ctx=ast.Load()), args=[],
                                  keywords=[ast.keyword(arg=k.value, value=x) for k, x in zip(od.keys, od.values)])
                if isinstance(od, ast.Call) and dotted(od.func) == "dict":
                    kv = {k.arg: unparse(k.value) for k in od.keywords}
                    # entries replaced before the call: objdict["state"] = value
                    for n in own_nodes(f.node):
                        if od_name and isinstance(n, ast.Assign) and len(n.targets) == 1 and isinstance(n.targets[0], ast.Subscript) \
                                and unparse(n.targets[0].value) == od_name and isinstance(n.targets[0].slice, ast.Constant):
                            nn = cfg.node_of(n)
                            if nn is not None and cfg.dominates(nn, vn):
                                kv[n.targets[0].slice.value] = unparse(n.value)
                            else:
                                kv[n.targets[0].slice.value] = "?"
                    if kv.get(kind) == newval and v.args and unparse(v.args[0]) in ("self._schedules", "self.schedules"):
                        good = True
                    else:
                        why = "the schedules are validated against %s but '%s' is stored as %s" % (kv, newval, kind)
                else:
                    why = "schedules are re-validated without the new list (objdict)"
        # the store must not be reachable when validation raised: store in try-else or after the call
        rep.check(good, "V2", f, "%s stores %s" % (f.name, fld), "validated value stored after validation", why, node=st)


# ------------------------------------------------------------------------------ V3
def _v3(ctx, rep, vi: Func):
    ix = ctx.ix
    tables = []
    for n in own_nodes(vi.node):
        if isinstance(n, ast.Compare) and unparse(n.left) == "item_name" and isinstance(n.ops[0], (ast.In, ast.NotIn)) and isinstance(n.comparators[0], (ast.List, ast.Tuple)):
            tables.append((vi, n, [const(x) for x in n.comparators[0].elts]))
    c = ix.cls("quara.qcircuit.experiment.Experiment")
    for f in list(c.methods.values()) + list(c.setters.values()):
        for n in own_nodes(f.node):
            if isinstance(n, ast.Call) and dotted(n.func) == "dict" and n.keywords and {k.arg for k in n.keywords} & set(KINDS):
                tables.append((f, n, [k.arg for k in n.keywords]))
    sq = ix.cls("quara.objects.qoperations.SetQOperations")
    for nm in ("qoperations", "num_qoperations"):
        m = sq.methods.get(nm)
        if m is not None:
            from ..astutil import compared_constants
            ks = compared_constants(m, "mode")
            if ks is None:
                rep.undecided("V3", m, "kinds table in %s" % m.name, "`mode` is compared with values that do not resolve to a literal table")
                continue
            tables.append((m, m.node, ks))
    for f, node, ks in tables:
        rep.check(sorted(ks) == sorted(KINDS), "V3", f, "kinds table in %s" % f.name if node is f.node else node, "state, povm, gate, mprocess",
                  "table lists %s, the four kinds are %s" % (ks, KINDS), node=node)
        if isinstance(node, ast.Call):
            # each kind maps to its own list
            bad = [(k.arg, unparse(k.value)) for k in node.keywords if k.arg in KINDS and not (
                unparse(k.value) in ("value", "self._%ss" % k.arg, "self._%ses" % k.arg, "self.%ss" % k.arg, "self.%ses" % k.arg))]
            if bad:
                rep.violation("V3", f, "kind -> list mapping " + unparse(node)[:60], "kind mapped to the wrong list: %s" % bad, node=node)


# ------------------------------------------------------------------------------ V4
def _v4(ctx, rep):
    f = ctx.ix.func(X + "calc_prob_dist")
    loops = [n for n in own_nodes(f.node) if isinstance(n, ast.For)]
    ok, why = False, "no loop over the schedule items"
    for lp in loops:
        cfg = ctx.cfg(f)
        pushes = [n for n in ast.walk(lp) if isinstance(n, ast.Call) and isinstance(n.func, ast.Attribute) and n.func.attr in ("appendleft", "append", "insert")]
        guards = [n for n in lp.body if isinstance(n, ast.If) and any(isinstance(s, ast.Raise) for s in n.body)]
        if len(pushes) == 1 and guards:
            g = guards[0]
            t = g.test
            tested = None
            if isinstance(t, ast.UnaryOp) and isinstance(t.op, ast.Not):
                tested = unparse(t.operand)
            elif isinstance(t, ast.Compare) and const(t.comparators[0]) is None and isinstance(t.ops[0], (ast.Is, ast.Eq)):
                tested = unparse(t.left)
            pushed = unparse(pushes[0].args[-1]) if pushes[0].args else None
            if tested is None or tested != pushed:
                why = "the None test is on %s but %s is pushed" % (tested, pushed)
            elif not cfg.dominates(cfg.node_of(g), cfg.node_of(pushes[0])):
                why = "the None test does not precede the push"
            else:
                ok = True
            rep.check(ok, "V4", f, "None placeholder guard", "`if not target: raise` dominates the push", why, node=g)
            # every reversal between the schedule and the argument list flips the order once: the schedule's first item must end up last
            def peel(e):
                k = 0
                while True:
                    if isinstance(e, ast.Call) and dotted(e.func) == "reversed" and len(e.args) == 1:
                        e, k = e.args[0], k + 1
                    elif isinstance(e, ast.Call) and dotted(e.func) in ("list", "tuple") and len(e.args) == 1:
                        e = e.args[0]
                    elif isinstance(e, ast.Subscript) and unparse(e.slice) == "::-1":
                        e, k = e.value, k + 1
                    else:
                        return e, k
            lst = unparse(pushes[0].func.value)
            flips = 1 if (pushes[0].func.attr == "appendleft" or (pushes[0].func.attr == "insert" and is_num(pushes[0].args[0], 0))) else 0
            _, k_it = peel(lp.iter)
            flips += k_it
            flips += sum(1 for n in own_nodes(f.node) if isinstance(n, ast.Call) and isinstance(n.func, ast.Attribute) and n.func.attr == "reverse"
                         and unparse(n.func.value) == lst and not n.args)
            comp = [n for n in own_nodes(f.node) if isinstance(n, ast.Call) and (dotted(n.func) or "").endswith("compose_qoperations")]
            star = [a for c in comp for a in c.args if isinstance(a, ast.Starred)]
            rebinds = [n for n in own_nodes(f.node) if isinstance(n, ast.Assign) and any(unparse(t) == lst for t in n.targets)
                       and not isinstance(n.value, (ast.List, ast.Call)) ]
            if len(comp) != 1 or len(star) != 1 or len(comp[0].args) != 1:
                rep.undecided("V4", f, "time order", "expected one compose_qoperations(*<items>) call")
                return
            base, k_arg = peel(star[0].value)
            # the starred name may be a re-bound copy of the list: x = list(reversed(targets))
            hops = 0
            while isinstance(base, ast.Name) and base.id != lst and hops < 4:
                d = single_defs(f).get(base.id)
                if d is None:
                    break
                base, k2 = peel(d)
                k_arg += k2
                hops += 1
            if unparse(base) != lst or rebinds:
                rep.undecided("V4", f, "time order", "the composed arguments %s are not the pushed list %s" % (unparse(star[0].value), lst))
                return
            flips += k_arg
            rep.check(flips % 2 == 1, "V4", f, "time order", "the first schedule item becomes the last argument (compose_qoperations applies its last argument first)",
                      "items are pushed with %s and composed as %s: compose_qoperations applies its last argument first, so the schedule "
                      "must be reversed exactly once (found %d reversal(s))" % (pushes[0].func.attr, unparse(comp[0])[:80], flips), node=pushes[0])
            return
        if len(pushes) == 1 and not guards:
            rep.violation("V4", f, "None placeholder guard", "items are pushed and composed without rejecting None placeholders "
                                                             "(tomography classes put None where the unknown goes)", node=pushes[0])
            return
    rep.undecided("V4", f, "loop", why)


# ------------------------------------------------------------------------------ V5
class G:
    """abstract guard: predicate over a kind sequence (reject when true)"""

    def __init__(self, text, fn):
        self.text, self.fn = text, fn


def _cmp(op, a, b):
    return {ast.Lt: a < b, ast.LtE: a <= b, ast.Gt: a > b, ast.GtE: a >= b, ast.Eq: a == b, ast.NotEq: a != b}[type(op)]


def _abstract_order_guard(t: ast.AST, consts, counter_defs, vo=None):
    """schedule-order guard -> G or None"""
    from ..astutil import const_in, literal_seq
    txt = unparse(t)

    def kind_at(e):
        # schedule[i][TYPE_INDEX]
        if isinstance(e, ast.Subscript) and isinstance(e.value, ast.Subscript) and unparse(e.value.value) == "schedule":
            i = const(e.value.slice)
            j = consts.get(unparse(e.slice), const_in(vo, e.slice) if vo is not None else const(e.slice))
            if isinstance(i, int) and j == 0:
                return i
        return None

    if isinstance(t, ast.Compare) and len(t.ops) == 1:
        l, r, op = t.left, t.comparators[0], t.ops[0]
        if unparse(l) == "len(schedule)" and isinstance(const(r), int):
            k = const(r)
            return G(txt, lambda s, k=k, op=op: _cmp(op, len(s), k))
        ka = kind_at(l)
        if ka is not None and isinstance(op, (ast.NotEq, ast.Eq)) and isinstance(const(r), str):
            v = const(r)
            return G(txt, lambda s, ka=ka, v=v, op=op: _safe(lambda: _cmp(op, s[ka], v)))
        if ka is not None and isinstance(op, (ast.NotIn, ast.In)) and vo is not None and literal_seq(vo, r) is not None:
            vs = [const(x) for x in literal_seq(vo, r).elts]
            neg = isinstance(op, ast.NotIn)
            return G(txt, lambda s, ka=ka, vs=vs, neg=neg: _safe(lambda: (s[ka] not in vs) if neg else (s[ka] in vs)))
        # counter['kind'] >= 2
        if isinstance(l, ast.Subscript) and isinstance(l.value, ast.Name) and l.value.id in counter_defs and isinstance(const(l.slice), str) \
                and isinstance(const(r), int):
            kind, k = const(l.slice), const(r)
            return G(txt, lambda s, kind=kind, k=k, op=op: _cmp(op, sum(1 for x in s if x == kind), k))
    return None


def _safe(fn):
    try:
        return fn()
    except IndexError:
        return True   # the guard itself raises -> schedule rejected


def _guards_of(f: Func, abstract):
    """sequence of `if <guard>: raise` at the top level of f -> list of G (None where not abstractable)"""
    out = []
    for st in body_wo_doc(f.node):
        if isinstance(st, ast.If) and st.body and isinstance(st.body[-1], ast.Raise) and not st.orelse:
            out.append((st, abstract(st.test)))
    return out


def _v5(ctx, rep, vi: Func, vo: Func):
    consts = {}
    counter_defs = set()
    for st in body_wo_doc(vo.node):
        if isinstance(st, ast.Assign) and isinstance(st.targets[0], ast.Name):
            c = const(st.value)
            if isinstance(c, int):
                consts[st.targets[0].id] = c
            if isinstance(st.value, ast.Call) and (dotted(st.value.func) or "").endswith("Counter"):
                a = st.value.args[0] if st.value.args else None
                if isinstance(a, ast.ListComp) and unparse(a.generators[0].iter) == "schedule":
                    el = a.elt
                    if isinstance(el, ast.Subscript) and consts.get(unparse(el.slice), const_in(vo, el.slice)) == 0:
                        counter_defs.add(st.targets[0].id)
    guards = _guards_of(vo, lambda t: _abstract_order_guard(t, consts, counter_defs, vo))
    other = [s for s in body_wo_doc(vo.node) if not (isinstance(s, ast.If) and s.body and isinstance(s.body[-1], ast.Raise))
             and not isinstance(s, (ast.Assign, ast.Expr))]
    if other or any(g is None for _, g in guards) or not guards:
        rep.undecided("V5", vo, "order guards", "the validator left the guard-and-raise fragment: %s" % [unparse(s)[:60] for s, g in guards if g is None])
        return None
    gl = [g for _, g in guards]

    def accepted(seq):
        return not any(g.fn(seq) for g in gl)

    def grammar(seq):
        return len(seq) >= 2 and seq[0] == "state" and seq[-1] in ("povm", "mprocess") and seq.count("state") <= 1 and seq.count("povm") <= 1

    n, diffs = 0, []
    for L in range(0, 6):
        for seq in itertools.product(KINDS, repeat=L):
            n += 1
            if accepted(seq) != grammar(seq):
                diffs.append((list(seq), "accepted" if accepted(seq) else "rejected"))
    rep.stats["V5_sequences_enumerated"] = n
    if diffs:
        rep.violation("V5", vo, "order accept language", "%d of %d kind sequences are judged differently from the stated rules, e.g. %s is %s"
                      % (len(diffs), n, diffs[0][0], diffs[0][1]), node=vo.node)
    else:
        rep.holds("V5", vo, "order accept language", "%d kind sequences up to length 5: accepted exactly when len>=2, first=state, "
                                                     "last in {povm, mprocess}, one state, at most one povm" % n, node=vo.node)
    # ---- item validator: abstract item domain
    igs = []
    for st in body_wo_doc(vi.node):
        if isinstance(st, ast.If) and st.body and isinstance(st.body[-1], ast.Raise) and not st.orelse:
            igs.append(st)
    texts = [unparse(g.test).replace(" ", "") for g in igs]
    # `if A or B: raise` rejects what `if A: raise` and `if B: raise` reject: the disjuncts count as guards of their own (same position)
    split = []
    for gi, g in enumerate(igs):
        ds = g.test.values if isinstance(g.test, ast.BoolOp) and isinstance(g.test.op, ast.Or) else [g.test]
        for d_ in ds:
            split.append((gi, unparse(d_).replace(" ", "")))
    stexts = [t for _, t in split]
    if "item_index<0" in stexts and "item_index>=len(objdict[item_name])" in stexts:
        gi = max(i_ for i_, t in split if t in ("item_index<0", "item_index>=len(objdict[item_name])"))
        split.append((gi, "item_index<0oritem_index>=len(objdict[item_name])"))
    spos = {}
    for gi, t in split:
        spos.setdefault(t, gi)
    texts_all = list(dict.fromkeys(texts + [t for _, t in split]))
    need = {
        "item is a tuple": ["type(item)!=tuple", "notisinstance(item,tuple)"],
        "item has two components": ["len(item)!=2"],
        "name is str": ["type(item_name)!=str", "notisinstance(item_name,str)"],
        "index is int": ["type(item_index)!=int", "notisinstance(item_index,int)"],
        "name is one of the four kinds": ["item_namenotin['state','povm','gate','mprocess']"],
        "index in range": ["not0<=item_index<len(objdict[item_name])", "item_index<0oritem_index>=len(objdict[item_name])"],
    }
    missing = [k for k, alts in need.items() if not any(a in texts_all for a in alts)]
    # order: type of item before len/unpack; kinds before lookup
    pos = {k: min((spos[a] for a in alts if a in spos), default=None) for k, alts in need.items()}
    ordered = all(pos[a] is not None and pos[b] is not None and pos[a] < pos[b] for a, b in
                  (("item is a tuple", "item has two components"), ("item has two components", "name is str"),
                   ("item has two components", "index is int"), ("name is one of the four kinds", "index in range"))) if not missing else False
    if missing:
        rep.violation("V5", vi, "item guards", "missing rule(s): %s (guards found: %s)" % (missing, texts), node=vi.node)
    elif not ordered:
        rep.violation("V5", vi, "item guards", "guards are evaluated in an order that lets a malformed item raise something else first", node=vi.node)
    else:
        rep.holds("V5", vi, "item guards", "tuple, arity 2, str name, int index, known kind, 0 <= index < len(list)", node=vi.node)
    # emptiness guards for povm / mprocess use the lists in force (objdict or self)
    emp = [t for t in texts if t.startswith("item_name=='povm'and") or t.startswith("item_name=='mprocess'and")]
    rep.check(len(emp) == 2, "V5", vi, "empty measurement lists", "a povm/mprocess item with an empty list is rejected",
              "expected two emptiness guards, found %s" % emp, node=vi.node)
    return gl


# ------------------------------------------------------------------------------ V6
def _v6(ctx, rep, order_guards):
    from ..astutil import const_in
    ix = ctx.ix
    if order_guards is None:
        rep.undecided("V6", "quara.qcircuit.experiment.Experiment._validate_schedule_order", "order guards",
                      "the experiment's order rules could not be read (see V5): the accept languages of the tomographies are not enumerated")
        return
    for cq, (shape, target_pos) in TOMO.items():
        c = ix.cls(cq)
        v = c.methods.get("_validate_schedules")
        init = c.methods.get("__init__")
        if v is None or init is None:
            rep.violation("V6", cq, "_validate_schedules", "validator missing")
            continue
        loops = [n for n in own_nodes(v.node) if isinstance(n, ast.For)]
        if len(loops) != 1:
            rep.undecided("V6", v, "loop", "expected one loop over the schedules")
            continue
        pins, idx_pins, unknown, len_guards = {}, {}, [], []
        for st in loops[0].body:
            if isinstance(st, ast.If) and st.body and isinstance(st.body[-1], ast.Raise):
                tests = st.test.values if isinstance(st.test, ast.BoolOp) and isinstance(st.test.op, ast.Or) else [st.test]
                for t in tests:
                    ok = False
                    if isinstance(t, ast.Compare) and len(t.ops) == 1 and isinstance(t.ops[0], ast.NotEq):
                        l = t.left
                        if isinstance(l, ast.Subscript) and isinstance(l.value, ast.Subscript) and unparse(l.value.value) == "schedule":
                            i, j, val = const_in(v, l.value.slice), const_in(v, l.slice), const_in(v, t.comparators[0])
                            if isinstance(i, int) and j == 0 and isinstance(val, str):
                                pins[i] = val
                                ok = True
                            elif isinstance(i, int) and j == 1 and isinstance(val, int):
                                idx_pins[i] = val
                                ok = True
                    if not ok and isinstance(t, ast.Compare) and len(t.ops) == 1 and unparse(t.left) == "len(schedule)" \
                            and isinstance(const(t.comparators[0]), int) and isinstance(t.ops[0], (ast.NotEq, ast.Eq, ast.Lt, ast.LtE, ast.Gt, ast.GtE)):
                        k, op = const(t.comparators[0]), t.ops[0]
                        len_guards.append(lambda n, k=k, op=op: _cmp(op, n, k))   # reject when true
                        ok = True
                    if not ok:
                        unknown.append(unparse(t))
        if unknown:
            rep.undecided("V6", v, "guards", "guards outside the fragment: %s" % unknown)
            continue
        # which kinds have objects in this tomography's Experiment
        ecall = [n for n in own_nodes(init.node) if isinstance(n, ast.Call) and unparse(n.func) == "Experiment"]
        avail = set()
        if len(ecall) == 1:
            for k in ecall[0].keywords:
                if k.arg in ("states", "povms", "gates", "mprocesses"):
                    kind = {"states": "state", "povms": "povm", "gates": "gate", "mprocesses": "mprocess"}[k.arg]
                    if not (isinstance(k.value, (ast.List, ast.Tuple)) and not k.value.elts):
                        avail.add(kind)
        else:
            rep.undecided("V6", init, "Experiment(...)", "expected one Experiment construction")
            continue

        def accepted(seq):
            if any(k not in avail for k in seq):
                return False          # item validator: empty list / index out of range
            if any(g.fn(seq) for g in order_guards):
                return False
            if any(g(len(seq)) for g in len_guards):
                return False
            for i, k in pins.items():
                if i >= len(seq) or seq[i] != k:
                    return False
            for i in idx_pins:
                if i >= len(seq):
                    return False
            return True

        n, wrong = 0, []
        for L in range(0, 6):
            for seq in itertools.product(KINDS, repeat=L):
                n += 1
                if accepted(seq) != (list(seq) == shape):
                    wrong.append(list(seq))
        con = "%s accept language" % c.name
        if wrong:
            rep.violation("V6", v, con, "%s accepts %d kind sequence(s) that are not of its shape %s (or rejects its own shape), e.g. %s: its "
                                        "validator pins positions %s only and the experiment's rules admit the rest"
                          % (c.name, len(wrong), shape, wrong[0], sorted(pins)), node=v.node)
        else:
            rep.holds("V6", v, con, "of %d sequences up to length 5 exactly %s is accepted" % (n, shape), node=v.node)
        # the target's index is pinned to 0 at the position the class reads
        gt = c.methods.get("_get_target_index")
        read_pos = None
        if gt is not None:
            r = returns(gt)
            if r:
                e = inline(gt, r[0].value)
                if isinstance(e, ast.Subscript) and isinstance(e.value, ast.Subscript) and is_num(e.slice, 1):
                    read_pos = const_in(gt, inline(gt, e.value.slice))
        ok = idx_pins == {target_pos: 0} and read_pos == target_pos and pins.get(target_pos) == shape[target_pos]
        rep.check(ok, "V6", v, "%s target position" % c.name, "index of %s at position %d pinned to 0 and read there" % (shape[target_pos], target_pos),
                  "index pins %s, _get_target_index reads position %s, expected position %d (%s)" % (idx_pins, read_pos, target_pos, shape[target_pos]), node=v.node)
