"""C09 - linear estimation: normal-equation schema, rank guard, counts unused, no state carried
between datasets, result accessors."""
from __future__ import annotations

import ast

from ..astutil import clone, const, inline, is_num, kwarg, returns, single_defs, unparse
from ..index import AnalysisError, Func, dotted, own_nodes
from ..linform import Lin, NotLinear, eval_lin
from ..loops import carried_reads
from ..matexpr import product_nodes

E = "quara.protocol.qtomography.standard."


def run(ctx, rep):
    ix = ctx.ix
    rep.rule("L1", "estimate = inv(A^T A) A^T (f - b) (or pinv(A)(f - b)) with A = calc_matA(), b = calc_vecB(), "
                   "f = the stacked distributions of the current dataset", floor=1)
    rep.rule("L2", "the full-rank guard dominates the matrix inversion", floor=1)
    rep.rule("L3", "only component [1] (the distribution) of each dataset element is read; the sample count never is", floor=1)
    rep.rule("L4", "no value is carried from one dataset to the next (only appends to the result lists cross iterations)", floor=2)
    rep.rule("L5", "the result turns each estimate into an object through the template's generate_from_var; single accessors use element 0", floor=3)
    rep.rule("L6", "the single-dataset entry point is the sequence routine on a one-element sequence: every argument is handed on as "
                   "received (no renormalisation, filtering or re-binding of the data on the way)", floor=1)
    check_single_is_sequence_of_one(ctx, rep, "L6", E + "linear_estimator.LinearEstimator")
    rep.rule("L7", "the A and b the estimator inverts are the freshly stacked coefficient dictionaries of the tomography (calc_matA / "
                   "calc_vecB build their result on every call, in sorted key order; no cached array that another method could update)", floor=2)
    from .c08 import check_model_accessors
    check_model_accessors(ctx, rep, "L7")
    rep.rule("L8", "the A and b the estimator inverts hold the circuit's coefficients: rows, offsets and implied constants of the four "
                   "tomography classes (rules M4 / M5 of C08)", floor=6)
    from ..report import Relay
    from .c08 import _m45
    _m45(ctx, Relay(rep, {"M4": "L8", "M5": "L8"}))
    f = ix.func(E + "linear_estimator.LinearEstimator.calc_estimate_sequence")
    loops = [n for n in own_nodes(f.node) if isinstance(n, ast.For) and unparse(n.iter) == "empi_dists_sequence"]
    if len(loops) != 1:
        rep.undecided("L1", f, "dataset loop", "expected one loop over empi_dists_sequence")
        return
    loop = loops[0]
    lv = loop.target.id if isinstance(loop.target, ast.Name) else None
    # definitions: function-level single defs + loop-body assignments
    defs = dict(single_defs(f))
    body_defs = {}
    from ..astutil import mutated_names
    grown = mutated_names(f.node)
    for st in loop.body:
        if isinstance(st, ast.Assign) and len(st.targets) == 1 and isinstance(st.targets[0], ast.Name) and st.targets[0].id not in grown:
            body_defs[st.targets[0].id] = st.value
    defs.update(body_defs)
    # the sequence of estimates by role: the first argument of the result object, whatever it is called
    res0 = [n for n in own_nodes(f.node) if isinstance(n, ast.Call) and unparse(n.func) == "LinearEstimationResult"]
    seq_name = unparse(res0[0].args[0]) if len(res0) == 1 and res0[0].args and isinstance(res0[0].args[0], ast.Name) else "estimate_sequence"
    appended = [n for n in ast.walk(loop) if isinstance(n, ast.Call) and isinstance(n.func, ast.Attribute) and n.func.attr == "append"
                and unparse(n.func.value) == seq_name]
    if len(appended) != 1:
        rep.undecided("L1", f, "append", "expected one estimate_sequence.append(...)")
        return
    v = inline(f, appended[0].args[0], depth=10, defs=defs)
    _check_normal_equations(rep, f, appended[0], v, lv)

    # ---- L2
    cfg = ctx.cfg(f)
    inv = [n for n in own_nodes(f.node) if isinstance(n, ast.Call) and (dotted(n.func) or "").split(".")[-1] in ("inv", "pinv", "solve")]
    guards = []
    for n in cfg.nodes:
        if n.kind == "test" and isinstance(n.ast, ast.If) and "is_fullrank_matA" in unparse(n.ast.test):
            t = n.ast.test
            neg = isinstance(t, ast.UnaryOp) and isinstance(t.op, ast.Not)
            eqf = isinstance(t, ast.Compare) and const(t.comparators[0]) is False
            if neg or eqf:
                tsucc = [s for s, lab in n.succ if lab == "T"]
                reach = set()
                for s in tsucc:
                    reach |= cfg.reachable(s)
                if cfg.exit.id not in reach:
                    guards.append(n)
    if not inv:
        rep.undecided("L2", f, "inversion", "no inv/pinv/solve call found")
    from ..astutil import guards_of
    for c in inv:
        cn = cfg.node_of(c)
        ok = any(cfg.dominates(g, cn) for g in guards) if cn is not None else False
        # the same fact read off the conditions under which the statement is reached (if-body, else-branch or after a guard clause)
        if not ok:
            ok = any(t.endswith("is_fullrank_matA()") and pol for t, pol, _ in guards_of(c))
        rep.check(ok, "L2", f, c, "`if not qtomography.is_fullrank_matA(): raise` dominates the inversion",
                  "the inversion is reachable without passing the full-rank guard", node=c)

    # ---- L3
    elems = []
    for n in ast.walk(loop):
        if isinstance(n, ast.comprehension) and unparse(n.iter) == lv and isinstance(n.target, ast.Name):
            elems.append((n.target.id, getattr(n, "_parent", None)))
        elif isinstance(n, ast.For) and n is not loop and unparse(n.iter) == lv and isinstance(n.target, ast.Name):
            elems.append((n.target.id, n))
    bad = []
    uses = 0
    for name, scope in elems:
        for n in ast.walk(scope):
            if isinstance(n, ast.Name) and n.id == name and isinstance(n.ctx, ast.Load):
                p = getattr(n, "_parent", None)
                uses += 1
                if not (isinstance(p, ast.Subscript) and p.value is n and is_num(p.slice, 1)):
                    bad.append(unparse(p))
    other = [unparse(getattr(n, "_parent", n)) for n in ast.walk(loop) if isinstance(n, ast.Name) and n.id == lv and isinstance(n.ctx, ast.Load)
             and not isinstance(getattr(n, "_parent", None), (ast.comprehension, ast.For))]
    rep.check(uses > 0 and not bad and not other, "L3", f, "uses of dataset elements", "every element is read only as element[1] (%d use(s))" % uses,
              "dataset elements are also read as %s" % (bad + other), node=loop)

    # ---- L4
    for qn in (E + "linear_estimator.LinearEstimator.calc_estimate_sequence",
               E + "projected_linear_estimator.ProjectedLinearEstimator.calc_estimate_sequence"):
        g = ix.func(qn)
        for lp in [n for n in own_nodes(g.node) if isinstance(n, ast.For)]:
            carried = carried_reads(lp)
            if carried:
                for name, node in carried:
                    rep.violation("L4", g, "%s carried into the next dataset" % name,
                                  "'%s' is read before it is written in an iteration: its value comes from the previous dataset" % name, node=node)
            else:
                rep.holds("L4", g, "loop over %s" % unparse(lp.iter), "every name written in the body is written before it is read in the same iteration", node=lp)

    # ---- L5
    c = ix.cls(E + "standard_qtomography_estimator.StandardQTomographyEstimationResult")
    m = c.methods.get("estimated_qoperation_sequence")
    r = returns(m) if m else []
    ok = False
    if r:
        e = inline(m, r[0].value)
        if isinstance(e, ast.ListComp) and len(e.generators) == 1:
            g = e.generators[0]
            el = e.elt
            ok = unparse(g.iter) == "self._estimated_var_sequence" and isinstance(el, ast.Call) and isinstance(el.func, ast.Attribute) \
                and el.func.attr == "generate_from_var" and unparse(el.func.value) == "self._template_qoperation" \
                and len(el.args) == 1 and unparse(el.args[0]) == unparse(g.target) and not g.ifs
    rep.check(ok, "L5", m or c.qualname, r[0] if r else "return", "[template.generate_from_var(v) for v in estimated_var_sequence]",
              "the sequence accessor does not map generate_from_var over the stored estimates", node=r[0] if r else None)
    m = c.methods.get("estimated_qoperation")
    r = returns(m) if m else []
    ok = False
    if r:
        e = inline(m, r[0].value)
        ok = isinstance(e, ast.Call) and isinstance(e.func, ast.Attribute) and e.func.attr == "generate_from_var" \
            and unparse(e.func.value) == "self._template_qoperation" and len(e.args) == 1 and unparse(e.args[0]) == "self._estimated_var_sequence[0]"
    rep.check(ok, "L5", m or c.qualname, r[0] if r else "return", "template.generate_from_var(estimated_var_sequence[0])",
              "single accessor does not use element 0 of the stored sequence", node=r[0] if r else None)
    m = c.methods.get("estimated_var")
    r = returns(m) if m else []
    rep.check(bool(r) and unparse(r[0].value) == "self._estimated_var_sequence[0]", "L5", m or c.qualname, r[0] if r else "return",
              "estimated_var = element 0", "estimated_var is not element 0 of the stored sequence", node=r[0] if r else None)
    # the estimator hands its own sequence and the tomography's template to the result
    res_calls = [n for n in own_nodes(f.node) if isinstance(n, ast.Call) and unparse(n.func) == "LinearEstimationResult"]
    ok = len(res_calls) == 1 and len(res_calls[0].args) >= 3 and unparse(res_calls[0].args[0]) == seq_name \
        and unparse(res_calls[0].args[2]) == "qtomography._template_qoperation"
    rep.check(ok, "L5", f, res_calls[0] if res_calls else "result", "result(estimate_sequence, times, qtomography._template_qoperation)",
              "the result is not built from the estimates and the tomography's template", node=res_calls[0] if res_calls else f.node)


def _is_call(e, suffix):
    return isinstance(e, ast.Call) and (dotted(e.func) or "").endswith(suffix)


def _check_normal_equations(rep, f, site, v, lv):
    from ..astutil import mutated_names
    grown = mutated_names(f.node)
    A_TXT = "qtomography.calc_matA()"
    B_TXT = "qtomography.calc_vecB()"
    facs = product_nodes(v)

    def is_A(fac, transposed):
        n, c, t = fac
        return unparse(n) == A_TXT and not c and t == transposed

    def residual_ok(n):
        env = {}

        def app(call, rec):
            return Lin.sym(unparse(call))
        try:
            lf = eval_lin(n, env, app)
        except NotLinear as ex:
            return False, str(ex)
        terms = {k: v for k, v in lf.t.items()}
        keys = sorted(terms.items(), key=lambda kv: kv[1])
        if len(terms) != 2 or sorted(terms.values()) != [-1, 1]:
            return False, "residual is %r, expected f - b" % lf
        neg = [k for k, c in terms.items() if c == -1][0]
        pos = [k for k, c in terms.items() if c == 1][0]
        if neg != B_TXT:
            return False, "the offset subtracted is %s, expected calc_vecB()" % neg
        # the data vector: the distributions (element [1] of every pair of the current dataset) stacked in order, flattened row-major
        try:
            pe = ast.parse(pos, mode="eval").body
        except SyntaxError:
            return False, "data vector is %s, expected the stacked distributions of the current dataset" % pos
        order, base = _flat(pe)
        stack = base if order == "C" else pe
        ok_stack = isinstance(stack, ast.Call) and (dotted(stack.func) or "").split(".")[-1] in ("vstack", "hstack", "concatenate", "array") and stack.args \
            and isinstance(stack.args[0], (ast.ListComp, ast.GeneratorExp)) and len(stack.args[0].generators) == 1
        if ok_stack and (dotted(stack.func) or "").split(".")[-1] in ("vstack", "array") and order != "C":
            ok_stack = False
        if isinstance(stack, ast.Call) and stack.args and isinstance(stack.args[0], ast.Name) and stack.args[0].id in grown:
            return False, "data vector %s stacks a list that is filled step by step" % pos      # -> undecided
        if not ok_stack:
            return False, "data vector is %s, expected the stacked distributions of the current dataset" % pos
        comp = stack.args[0]
        g = comp.generators[0]
        elt_ok = isinstance(comp.elt, ast.Subscript) and isinstance(g.target, ast.Name) and unparse(comp.elt.value) == g.target.id and is_num(comp.elt.slice, 1)
        if not elt_ok or unparse(g.iter) != lv or g.ifs:
            return False, "data vector is %s, expected the stacked distributions of the current dataset" % pos
        return True, ""

    ok, why = False, ""
    if len(facs) == 3 and _is_call(facs[0][0], "linalg.inv") and not facs[0][1] and not facs[0][2]:
        inner = product_nodes(facs[0][0].args[0])
        if len(inner) == 2 and is_A(inner[0], True) and is_A(inner[1], False) and is_A(facs[1], True):
            ok, why = residual_ok(facs[2][0])
        else:
            why = "pseudo-inverse is not inv(A^T A) A^T with A = calc_matA()"
    elif len(facs) == 2 and _is_call(facs[0][0], "linalg.pinv") and unparse(facs[0][0].args[0]) == A_TXT:
        ok, why = residual_ok(facs[1][0])
    else:
        why = "estimate %s is not inv(A^T A) A^T (f - b)" % unparse(v)[:200]
    if ok:
        rep.holds("L1", f, site, "inv(A^T A) A^T (f - b)", node=site)
    elif "expected" in why or "is not inv" in why or "pseudo-inverse" in why:
        rep.violation("L1", f, site, why, node=site)
    else:
        rep.undecided("L1", f, site, why)


def _flat(e):
    """('C'|'F'|None, base) for x.flatten() / x.ravel() / x.reshape(-1)"""
    if isinstance(e, ast.Call) and isinstance(e.func, ast.Attribute):
        a = e.func.attr
        if a in ("flatten", "ravel") and not e.args and not e.keywords:
            return "C", e.func.value
        if a in ("flatten", "ravel") and len(e.args) == 1 and isinstance(e.args[0], ast.Constant) and e.args[0].value in ("C", "F"):
            return e.args[0].value, e.func.value
        if a == "reshape" and len(e.args) == 1 and not e.keywords and is_num(e.args[0], -1):
            return "C", e.func.value
    return None, e


# ------------------------------------------------------------------------------ single = sequence of one
def check_single_is_sequence_of_one(ctx, rep, rule: str, cls_qualname: str):
    """calc_estimate(q, data, ...) must be calc_estimate_sequence(q, [data], ...) with every argument handed on as received."""
    from ..resolve import bind_call
    c = ctx.ix.cls(cls_qualname)
    f = c.methods.get("calc_estimate")
    seq = c.lookup("calc_estimate_sequence")
    if f is None or seq is None:
        rep.undecided(rule, cls_qualname, "calc_estimate", "calc_estimate / calc_estimate_sequence not defined on the class")
        return
    con = "%s.calc_estimate -> calc_estimate_sequence" % c.name
    calls = [n for n in own_nodes(f.node) if isinstance(n, ast.Call) and isinstance(n.func, ast.Attribute) and n.func.attr == "calc_estimate_sequence"
             and unparse(n.func.value) == "self"]
    rets = returns(f)
    if len(calls) != 1 or len(rets) != 1:
        rep.undecided(rule, f, con, "expected one delegation and one return")
        return
    call = calls[0]
    # parameters must reach the call as received: no re-binding, no in-place update
    params = [p for p in f.params if p != "self"]
    touched = []
    for n in own_nodes(f.node):
        tg = []
        if isinstance(n, ast.Assign):
            tg = n.targets
        elif isinstance(n, (ast.AugAssign, ast.AnnAssign)):
            tg = [n.target]
        elif isinstance(n, (ast.For, ast.comprehension)):
            tg = [n.target]
        for t in tg:
            for x in ast.walk(t):
                if isinstance(x, ast.Name) and x.id in params:
                    touched.append((x.id, n))
    b, _ = bind_call(call, seq, True)
    problems = []
    for name, n in touched:
        problems.append("parameter `%s` is re-bound or updated (line %d) before the delegation: the single-dataset path then estimates from "
                        "different data / settings than the same dataset inside a sequence" % (name, n.lineno))
    seqp = [p for p in seq.params if p != "self"]
    for p in params:
        # the like-named parameter of the sequence routine (empi_dists -> empi_dists_sequence)
        tgt = p if p in seqp else next((q for q in seqp if q.startswith(p)), None)
        if tgt is None:
            continue
        e = b.get(tgt)
        want = "[%s]" % p if tgt != p else p
        if e is None:
            problems.append("`%s` is not handed on (the sequence routine uses its default for `%s`)" % (p, tgt))
        elif unparse(e) != want:
            problems.append("`%s` receives `%s`, expected `%s`" % (tgt, unparse(e), want))
    rv = rets[0].value
    defs = single_defs(f)
    if isinstance(rv, ast.Name) and rv.id in defs:
        rv = defs[rv.id]
    if rv is not call:
        problems.append("the value returned is `%s`, not the delegation's result" % unparse(rets[0].value))
    if problems:
        rep.violation(rule, f, con, "; ".join(problems), node=call)
    else:
        rep.holds(rule, f, con, "all %d arguments handed on as received, data wrapped as a one-element sequence" % len(params), node=call)
