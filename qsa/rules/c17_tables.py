"""C17 Y4-Y6 - agreement between the constant tables of the gate catalogue and of the effective-Lindbladian
catalogue, decided by constant propagation over their syntax trees (qsa.consteval).

For every catalogued qubit gate the repository writes down up to five descriptions by hand: the unitary,
the Hilbert-Schmidt matrix, the Hamiltonian as a coefficient vector and as a matrix, and the effective
Lindbladian.  They are siblings of one definition, so they must agree:

  Y4  U is unitary; HS = [tr(B_a^dagger U B_b U^dagger)] in the catalogue's own normalised Pauli basis;
      H is Hermitian and exp(-iH) = U; sum_a vec_a B_a = H; L = HS of rho -> -i[H, rho]; exp(L) = HS.
  Y5  gates that take qubit ids: the description for a permuted id list is the description for the ascending
      list conjugated by the qubit permutation that puts role k on qubit ids[k] (the documented meaning
      of ids: "ids[0] control, ids[1] target", "ids[0], ids[1] control, ids[2] target").
  Y6  the Pauli basis the catalogues index is the textbook one in the textbook order (I, X, Y, Z; tensor
      products in lexicographic order), normalised by 2^(-n/2).

Nothing of quara is imported or executed; a generator outside the constant fragment is reported as not
covered (information), and the floors make sure the covered set cannot silently shrink.
"""
from __future__ import annotations

import itertools

import numpy as np

from ..consteval import ConstEval, NotConst, close, expm
from ..index import AnalysisError

G = "quara.objects.gate_typical."
L = "quara.objects.effective_lindbladian_typical."
MB = "quara.objects.matrix_basis."

PAULI = [np.array([[1, 0], [0, 1]], dtype=complex), np.array([[0, 1], [1, 0]], dtype=complex),
         np.array([[0, -1j], [1j, 0]], dtype=complex), np.array([[1, 0], [0, -1]], dtype=complex)]


def _textbook_basis(n):
    out = []
    for idx in itertools.product(range(4), repeat=n):
        m = np.array([[1]], dtype=complex)
        for i in idx:
            m = np.kron(m, PAULI[i])
        out.append(m / np.sqrt(2) ** n)
    return out


def _hs_of_unitary(u, basis):
    ud = u.conj().T
    return np.array([[np.trace(a.conj().T @ u @ b @ ud) for b in basis] for a in basis])


def _hs_of_commutator(h, basis):
    return np.array([[np.trace(a.conj().T @ ((-1j) * (h @ b - b @ h))) for b in basis] for a in basis])


def _perm_operator(ids):
    """unitary on n qubits that moves tensor factor k (role k) to the position given by the rank of ids[k]."""
    n = len(ids)
    rank = {v: i for i, v in enumerate(sorted(ids))}
    pos = [rank[v] for v in ids]            # role k -> position pos[k]
    dim = 2 ** n
    p = np.zeros((dim, dim))
    for bits in itertools.product((0, 1), repeat=n):     # bits[k] = value of role k
        src = int("".join(map(str, bits)), 2)
        out_bits = [0] * n
        for k in range(n):
            out_bits[pos[k]] = bits[k]
        dst = int("".join(map(str, out_bits)), 2)
        p[dst, src] = 1
    return p


def run(ctx, rep):
    ix = ctx.ix
    ce = ConstEval(ctx)
    rep.rule("Y4", "sibling tables of one gate agree (constant propagation): U unitary; HS = tr(B_a^† U B_b U^†); H Hermitian, "
                   "exp(-iH) = U; sum_a vec_a B_a = H; Lindbladian = HS of -i[H, .]; exp(Lindbladian) = HS", floor=80)
    rep.rule("Y5", "a gate generated for a permuted list of qubit ids is the ascending-order gate with role k moved to qubit ids[k] "
                   "(every description: unitary, Hamiltonian vector / matrix, Lindbladian)", floor=14)
    rep.rule("Y6", "the Pauli bases the catalogues index are the textbook ones, lexicographic tensor order, normalised by 2^(-n/2)", floor=4)

    def fn(q):
        f = ix.funcs.get(q)
        return f

    def ev(q, *args):
        f = fn(q)
        if f is None:
            return None
        return np.asarray(ce.call(f, list(args)))

    # ---- Y6
    bases = {}
    for n in (1, 2, 3):
        for nm, norm in (("get_pauli_basis", False), ("get_normalized_pauli_basis", True)):
            f = fn(MB + nm)
            if f is None:
                raise AnalysisError("%s%s not found" % (MB, nm))
            con = "%s(n_qubit=%d)" % (nm, n)
            try:
                b = ce.call(f, [n])
                items = [np.asarray(x) for x in b.items]
            except NotConst as ex:
                rep.undecided("Y6", f, con, "not constant: %s" % ex)
                continue
            want = _textbook_basis(n)
            if not norm:
                want = [w * np.sqrt(2) ** n for w in want]
            ok = len(items) == len(want) and all(close(x, w) for x, w in zip(items, want))
            bad = next((i for i, (x, w) in enumerate(zip(items, want)) if not close(x, w)), None)
            rep.check(ok, "Y6", f, con, "%d elements, textbook order" % len(items),
                      "element %s differs from the textbook Pauli product (or the count %d is not 4^n)" % (bad, len(items)), node=f.node)
            bases[(n, norm)] = items
    if (1, True) not in bases or (2, True) not in bases:
        return

    # ---- catalogue names
    def names(q):
        f = fn(q)
        if f is None:
            raise AnalysisError("%s not found" % q)
        return list(ce.call(f, []))
    one = [g for g in names(G + "get_gate_names_1qubit") if g != "identity"]
    two = names(G + "get_gate_names_2qubit")
    two_asym = set(names(G + "get_gate_names_2qubit_asymmetric"))
    three = names(G + "get_gate_names_3qubit")
    rep.stats["Y4_gates"] = dict(one_qubit=len(one), two_qubit=len(two), three_qubit=len(three))

    def describe(g, n, ids):
        """dict of the constant descriptions available for gate g (None where the generator is not constant)"""
        out, why = {}, {}
        for key, q in (("U", G + "generate_gate_%s_unitary_mat" % g), ("HS", G + "generate_gate_%s_mat" % g),
                       ("Hv", L + "generate_gate_%s_hamiltonian_vec" % g), ("H", L + "generate_gate_%s_hamiltonian_mat" % g),
                       ("H3", G + "generate_gate_%s_hamiltonian_mat" % g),
                       ("EL", L + "generate_gate_%s_effective_lindbladian_mat" % g)):
            f = fn(q)
            if f is None:
                continue
            try:
                args = [list(ids)] if "ids" in f.params else []
                out[key] = (np.asarray(ce.call(f, args)), f)
            except NotConst as ex:
                why[key] = (str(ex), f)
        return out, why

    def relations(g, n, ids, d, why):
        B = bases[(n, True)]
        tag = "%s%s" % (g, "" if ids is None else " ids=%s" % list(ids))
        for key, (msg, f) in why.items():
            rep.info("Y4", f, "%s %s" % (tag, key), "generator is outside the constant fragment (%s); not compared" % msg[:80])
        U = d.get("U")
        H = d.get("H") or d.get("H3")
        if U is not None:
            u, f = U
            rep.check(close(u.conj().T @ u, np.eye(u.shape[0])), "Y4", f, "%s: U^† U = 1" % tag, "unitary",
                      "the literal matrix of %s is not unitary" % f.name, node=f.node)
            if "HS" in d:
                hs, fh = d["HS"]
                want = _hs_of_unitary(u, B)
                rep.check(close(hs, want), "Y4", fh, "%s: HS vs U" % tag, "HS_ab = tr(B_a^† U B_b U^†)",
                          "the Hilbert-Schmidt table of %s differs from the one its unitary table %s implies (largest deviation %.3g)"
                          % (fh.name, f.name, float(np.max(np.abs(hs - want)))), node=fh.node)
        if H is not None:
            h, fh = H
            rep.check(close(h, h.conj().T), "Y4", fh, "%s: H Hermitian" % tag, "H = H^†", "the Hamiltonian table of %s is not Hermitian" % fh.name,
                      node=fh.node)
            if U is not None:
                u, fu = U
                got = expm(-1j * h)
                rep.check(close(got, u, 1e-9), "Y4", fu, "%s: exp(-iH) vs U" % tag, "exp(-iH) = U",
                          "exp(-i H) of the Hamiltonian table %s is not the unitary table %s (largest deviation %.3g)"
                          % (fh.name, fu.name, float(np.max(np.abs(got - u)))), node=fu.node)
            if "Hv" in d:
                v, fv = d["Hv"]
                got = sum(c * b for c, b in zip(v, B)) if len(v) == len(B) else None
                rep.check(got is not None and close(got, h), "Y4", fv, "%s: Hamiltonian vector vs matrix" % tag, "sum_a vec_a B_a = H",
                          "the coefficient vector of %s does not expand to the Hamiltonian matrix of %s" % (fv.name, fh.name), node=fv.node)
            if "EL" in d:
                el, fe = d["EL"]
                want = _hs_of_commutator(h, B)
                rep.check(close(el, want), "Y4", fe, "%s: Lindbladian vs H" % tag, "L = HS of -i[H, .]",
                          "the Lindbladian table of %s is not the commutator map of the Hamiltonian table %s (largest deviation %.3g)"
                          % (fe.name, fh.name, float(np.max(np.abs(el - want)))), node=fe.node)
        if "EL" in d and "HS" in d:
            el, fe = d["EL"]
            hs, fh = d["HS"]
            got = expm(el)
            rep.check(close(got, hs, 1e-9), "Y4", fe, "%s: exp(L) vs HS" % tag, "exp(L) = HS",
                      "exp of the Lindbladian table %s is not the Hilbert-Schmidt table %s" % (fe.name, fh.name), node=fe.node)
        elif "EL" in d and U is not None:
            el, fe = d["EL"]
            u, fu = U
            got = expm(el)
            want = _hs_of_unitary(u, B)
            rep.check(close(got, want, 1e-9), "Y4", fe, "%s: exp(L) vs U" % tag, "exp(L) = HS(U)",
                      "exp of the Lindbladian table %s is not the channel of the unitary table %s" % (fe.name, fu.name), node=fe.node)

    for g in one:
        d, why = describe(g, 1, None)
        relations(g, 1, None, d, why)
    for g in two:
        for ids in ([0, 1], [1, 0]) if g in two_asym else (None,):
            d, why = describe(g, 2, ids if ids is not None else [0, 1])
            relations(g, 2, ids, d, why)

    # ---- Y5: permutations of the ids
    def conj_checks(g, n, perms):
        base, _ = describe(g, n, list(range(n)))
        B = bases[(n, True)]
        for ids in perms:
            if list(ids) == list(range(n)):
                continue
            d, _ = describe(g, n, list(ids))
            P = _perm_operator(list(ids))
            for key in ("U", "H", "H3"):
                if key in base and key in d:
                    m0, f = base[key]
                    m1, _ = d[key]
                    want = P @ m0 @ P.T
                    rep.check(close(m1, want), "Y5", f, "%s %s ids=%s" % (g, key, list(ids)), "= P m([0..]) P^T",
                              "%s(ids=%s) is not the ascending-order table with role k moved to qubit ids[k]: e.g. the documented "
                              "target / control assignment is not the one this table implements" % (f.name, list(ids)), node=f.node)
            if "Hv" in base and "Hv" in d:
                v0, f = base["Hv"]
                v1, _ = d["Hv"]
                h0 = sum(c * b for c, b in zip(v0, B))
                h1 = sum(c * b for c, b in zip(v1, B))
                rep.check(close(h1, P @ h0 @ P.T), "Y5", f, "%s Hv ids=%s" % (g, list(ids)), "= P H([0..]) P^T",
                          "%s(ids=%s) does not describe the ascending-order Hamiltonian with role k moved to qubit ids[k]" % (f.name, list(ids)),
                          node=f.node)
            if "EL" in base and "EL" in d:
                l0, f = base["EL"]
                l1, _ = d["EL"]
                # superoperator of the permutation in the Pauli basis
                S = np.array([[np.trace(a.conj().T @ P @ b @ P.T) for b in B] for a in B])
                rep.check(close(l1, S @ l0 @ S.conj().T), "Y5", f, "%s EL ids=%s" % (g, list(ids)), "= S L([0..]) S^†",
                          "%s(ids=%s) is not the ascending-order Lindbladian with role k moved to qubit ids[k]" % (f.name, list(ids)), node=f.node)

    for g in two:
        if g in two_asym:
            conj_checks(g, 2, [[1, 0]])
    if (3, True) in bases:
        for g in three:
            conj_checks(g, 3, list(itertools.permutations(range(3))))
    rep.stats["consteval_functions"] = len(ce.funcs_entered)
    rep.stats["consteval_steps"] = ce.steps
