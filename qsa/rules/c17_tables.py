"""C17 Y4-Y6 - agreement between the constant tables of the gate catalogue and of the effective-Lindbladian
catalogue, decided by constant propagation over their syntax trees (qsa.consteval).

For every catalogued qubit gate the repository writes down up to five descriptions by hand: the unitary,
the Hilbert-Schmidt matrix, the Hamiltonian as a coefficient vector and as a matrix, and the effective
Lindbladian.  They are siblings of one definition, so they must agree:

  Y4  U is unitary; HS = [tr(B_a^dagger U B_b U^dagger)] in the catalogue's own normalised Pauli basis;
      H is Hermitian and exp(-iH) = U; sum_a vec_a B_a = H; L = HS of rho -> -i[H, rho]; exp(L) = HS.
  Y5  gates that take qubit ids: the description for a permuted id list is the description for the ascending
      list conjugated by the qubit permutation that puts role k on qubit ids[k] (the documented meaning
      of ids: "ids[0] control, ids[1] target", "ids[0], ids[1] control, ids[2] target").
  Y6  the Pauli basis the catalogues index is the textbook one in the textbook order (I, X, Y, Z; tensor
      products in lexicographic order), normalised by 2^(-n/2).

Nothing of quara is imported or executed; a generator outside the constant fragment is reported as not
covered (information), and the floors make sure the covered set cannot silently shrink.
"""
from __future__ import annotations

import itertools

import numpy as np

from ..consteval import ConstEval, NotConst, close, expm
from ..index import AnalysisError

G = "quara.objects.gate_typical."
L = "quara.objects.effective_lindbladian_typical."
MB = "quara.objects.matrix_basis."

PAULI = [np.array([[1, 0], [0, 1]], dtype=complex), np.array([[0, 1], [1, 0]], dtype=complex),
         np.array([[0, -1j], [1j, 0]], dtype=complex), np.array([[1, 0], [0, -1]], dtype=complex)]


def _textbook_basis(n):
    out = []
    for idx in itertools.product(range(4), repeat=n):
        m = np.array([[1]], dtype=complex)
        for i in idx:
            m = np.kron(m, PAULI[i])
        out.append(m / np.sqrt(2) ** n)
    return out


def _hs_of_unitary(u, basis):
    ud = u.conj().T
    return np.array([[np.trace(a.conj().T @ u @ b @ ud) for b in basis] for a in basis])


def _hs_of_commutator(h, basis):
    return np.array([[np.trace(a.conj().T @ ((-1j) * (h @ b - b @ h))) for b in basis] for a in basis])


def _perm_operator(ids):
    """unitary on n qubits that moves tensor factor k (role k) to the position given by the rank of ids[k]."""
    n = len(ids)
    rank = {v: i for i, v in enumerate(sorted(ids))}
    pos = [rank[v] for v in ids]            # role k -> position pos[k]
    dim = 2 ** n
    p = np.zeros((dim, dim))
    for bits in itertools.product((0, 1), repeat=n):     # bits[k] = value of role k
        src = int("".join(map(str, bits)), 2)
        out_bits = [0] * n
        for k in range(n):
            out_bits[pos[k]] = bits[k]
        dst = int("".join(map(str, out_bits)), 2)
        p[dst, src] = 1
    return p


def run(ctx, rep):
    ix = ctx.ix
    ce = ConstEval(ctx)
    rep.rule("Y4", "sibling tables of one gate agree (constant propagation): U unitary; HS = tr(B_a^† U B_b U^†); H Hermitian, "
                   "exp(-iH) = U; sum_a vec_a B_a = H; Lindbladian = HS of -i[H, .]; exp(Lindbladian) = HS", floor=80)
    rep.rule("Y5", "a gate generated for a permuted list of qubit ids is the ascending-order gate with role k moved to qubit ids[k] "
                   "(every description: unitary, Hamiltonian vector / matrix, Lindbladian)", floor=14)
    rep.rule("Y6", "the Pauli bases the catalogues index are the textbook ones, lexicographic tensor order, normalised by 2^(-n/2)", floor=4)

    def fn(q):
        f = ix.funcs.get(q)
        return f

    def ev(q, *args):
        f = fn(q)
        if f is None:
            return None
        return np.asarray(ce.call(f, list(args)))

    # ---- Y6
    bases = {}
    for n in (1, 2, 3):
        for nm, norm in (("get_pauli_basis", False), ("get_normalized_pauli_basis", True)):
            f = fn(MB + nm)
            if f is None:
                raise AnalysisError("%s%s not found" % (MB, nm))
            con = "%s(n_qubit=%d)" % (nm, n)
            try:
                b = ce.call(f, [n])
                items = [np.asarray(x) for x in b.items]
            except NotConst as ex:
                rep.undecided("Y6", f, con, "not constant: %s" % ex)
                continue
            want = _textbook_basis(n)
            if not norm:
                want = [w * np.sqrt(2) ** n for w in want]
            ok = len(items) == len(want) and all(close(x, w) for x, w in zip(items, want))
            bad = next((i for i, (x, w) in enumerate(zip(items, want)) if not close(x, w)), None)
            rep.check(ok, "Y6", f, con, "%d elements, textbook order" % len(items),
                      "element %s differs from the textbook Pauli product (or the count %d is not 4^n)" % (bad, len(items)), node=f.node)
            bases[(n, norm)] = items
    if (1, True) not in bases or (2, True) not in bases:
        return

    # ---- catalogue names
    def names(q):
        f = fn(q)
        if f is None:
            raise AnalysisError("%s not found" % q)
        return list(ce.call(f, []))
    one = [g for g in names(G + "get_gate_names_1qubit") if g != "identity"]
    two = names(G + "get_gate_names_2qubit")
    two_asym = set(names(G + "get_gate_names_2qubit_asymmetric"))
    three = names(G + "get_gate_names_3qubit")
    rep.stats["Y4_gates"] = dict(one_qubit=len(one), two_qubit=len(two), three_qubit=len(three))

    def describe(g, n, ids):
        """dict of the constant descriptions available for gate g (None where the generator is not constant)"""
        out, why = {}, {}
        for key, q in (("U", G + "generate_gate_%s_unitary_mat" % g), ("HS", G + "generate_gate_%s_mat" % g),
                       ("Hv", L + "generate_gate_%s_hamiltonian_vec" % g), ("H", L + "generate_gate_%s_hamiltonian_mat" % g),
                       ("H3", G + "generate_gate_%s_hamiltonian_mat" % g),
                       ("EL", L + "generate_gate_%s_effective_lindbladian_mat" % g)):
            f = fn(q)
            if f is None:
                continue
            try:
                args = [list(ids)] if "ids" in f.params else []
                out[key] = (np.asarray(ce.call(f, args)), f)
            except NotConst as ex:
                why[key] = (str(ex), f)
        return out, why

    def relations(g, n, ids, d, why):
        B = bases[(n, True)]
        tag = "%s%s" % (g, "" if ids is None else " ids=%s" % list(ids))
        for key, (msg, f) in why.items():
            rep.info("Y4", f, "%s %s" % (tag, key), "generator is outside the constant fragment (%s); not compared" % msg[:80])
        U = d.get("U")
        H = d.get("H") or d.get("H3")
        if U is not None:
            u, f = U
            rep.check(close(u.conj().T @ u, np.eye(u.shape[0])), "Y4", f, "%s: U^† U = 1" % tag, "unitary",
                      "the literal matrix of %s is not unitary" % f.name, node=f.node)
            if "HS" in d:
                hs, fh = d["HS"]
                want = _hs_of_unitary(u, B)
                rep.check(close(hs, want), "Y4", fh, "%s: HS vs U" % tag, "HS_ab = tr(B_a^† U B_b U^†)",
                          "the Hilbert-Schmidt table of %s differs from the one its unitary table %s implies (largest deviation %.3g)"
                          % (fh.name, f.name, float(np.max(np.abs(hs - want)))), node=fh.node)
        if H is not None:
            h, fh = H
            rep.check(close(h, h.conj().T), "Y4", fh, "%s: H Hermitian" % tag, "H = H^†", "the Hamiltonian table of %s is not Hermitian" % fh.name,
                      node=fh.node)
            if U is not None:
                u, fu = U
                got = expm(-1j * h)
                rep.check(close(got, u, 1e-9), "Y4", fu, "%s: exp(-iH) vs U" % tag, "exp(-iH) = U",
                          "exp(-i H) of the Hamiltonian table %s is not the unitary table %s (largest deviation %.3g)"
                          % (fh.name, fu.name, float(np.max(np.abs(got - u)))), node=fu.node)
            if "Hv" in d:
                v, fv = d["Hv"]
                got = sum(c * b for c, b in zip(v, B)) if len(v) == len(B) else None
                rep.check(got is not None and close(got, h), "Y4", fv, "%s: Hamiltonian vector vs matrix" % tag, "sum_a vec_a B_a = H",
                          "the coefficient vector of %s does not expand to the Hamiltonian matrix of %s" % (fv.name, fh.name), node=fv.node)
            if "EL" in d:
                el, fe = d["EL"]
                want = _hs_of_commutator(h, B)
                rep.check(close(el, want), "Y4", fe, "%s: Lindbladian vs H" % tag, "L = HS of -i[H, .]",
                          "the Lindbladian table of %s is not the commutator map of the Hamiltonian table %s (largest deviation %.3g)"
                          % (fe.name, fh.name, float(np.max(np.abs(el - want)))), node=fe.node)
        if "EL" in d and "HS" in d:
            el, fe = d["EL"]
            hs, fh = d["HS"]
            got = expm(el)
            rep.check(close(got, hs, 1e-9), "Y4", fe, "%s: exp(L) vs HS" % tag, "exp(L) = HS",
                      "exp of the Lindbladian table %s is not the Hilbert-Schmidt table %s" % (fe.name, fh.name), node=fe.node)
        elif "EL" in d and U is not None:
            el, fe = d["EL"]
            u, fu = U
            got = expm(el)
            want = _hs_of_unitary(u, B)
            rep.check(close(got, want, 1e-9), "Y4", fe, "%s: exp(L) vs U" % tag, "exp(L) = HS(U)",
                      "exp of the Lindbladian table %s is not the channel of the unitary table %s" % (fe.name, fu.name), node=fe.node)

    for g in one:
        d, why = describe(g, 1, None)
        relations(g, 1, None, d, why)
    for g in two:
        for ids in ([0, 1], [1, 0]) if g in two_asym else (None,):
            d, why = describe(g, 2, ids if ids is not None else [0, 1])
            relations(g, 2, ids, d, why)

    # ---- Y5: permutations of the ids
    def conj_checks(g, n, perms):
        base, _ = describe(g, n, list(range(n)))
        B = bases[(n, True)]
        for ids in perms:
            if list(ids) == list(range(n)):
                continue
            d, _ = describe(g, n, list(ids))
            P = _perm_operator(list(ids))
            for key in ("U", "H", "H3"):
                if key in base and key in d:
                    m0, f = base[key]
                    m1, _ = d[key]
                    want = P @ m0 @ P.T
                    rep.check(close(m1, want), "Y5", f, "%s %s ids=%s" % (g, key, list(ids)), "= P m([0..]) P^T",
                              "%s(ids=%s) is not the ascending-order table with role k moved to qubit ids[k]: e.g. the documented "
                              "target / control assignment is not the one this table implements" % (f.name, list(ids)), node=f.node)
            if "Hv" in base and "Hv" in d:
                v0, f = base["Hv"]
                v1, _ = d["Hv"]
                h0 = sum(c * b for c, b in zip(v0, B))
                h1 = sum(c * b for c, b in zip(v1, B))
                rep.check(close(h1, P @ h0 @ P.T), "Y5", f, "%s Hv ids=%s" % (g, list(ids)), "= P H([0..]) P^T",
                          "%s(ids=%s) does not describe the ascending-order Hamiltonian with role k moved to qubit ids[k]" % (f.name, list(ids)),
                          node=f.node)
            if "EL" in base and "EL" in d:
                l0, f = base["EL"]
                l1, _ = d["EL"]
                # superoperator of the permutation in the Pauli basis
                S = np.array([[np.trace(a.conj().T @ P @ b @ P.T) for b in B] for a in B])
                rep.check(close(l1, S @ l0 @ S.conj().T), "Y5", f, "%s EL ids=%s" % (g, list(ids)), "= S L([0..]) S^†",
                          "%s(ids=%s) is not the ascending-order Lindbladian with role k moved to qubit ids[k]" % (f.name, list(ids)), node=f.node)

    for g in two:
        if g in two_asym:
            conj_checks(g, 2, [[1, 0]])
    if (3, True) in bases:
        for g in three:
            conj_checks(g, 3, list(itertools.permutations(range(3))))
    rep.stats["consteval_functions"] = len(ce.funcs_entered)
    rep.stats["consteval_steps"] = ce.steps


# ------------------------------------------------------------------------------ Y8: states and legacy constructors
ST = "quara.objects.state_typical."
LEGACY_GATES = {"get_i": "identity", "get_x": "x", "get_y": "y", "get_z": "z", "get_h": "hadamard", "get_root_x": "x90", "get_root_y": "y90",
                "get_s": "phase", "get_sdg": "phase_daggered", "get_t": "piover8", "get_cnot": "cx", "get_cz": "cz", "get_swap": "swap"}
LEGACY_STATES = {"get_x0_1q": "x0", "get_x1_1q": "x1", "get_y0_1q": "y0", "get_y1_1q": "y1", "get_z0_1q": "z0", "get_z1_1q": "z1",
                 "get_bell_2q": "bell_phi_plus"}


def _y10(ctx, rep, ce):
    """is_valid_state_name(n) is True exactly for the catalogued names: evaluated (constant interpretation of the catalogue code) on every
    catalogued name and on uncatalogued probes built from catalogued parts (mixed qubit / qutrit products, too many factors)"""
    ix = ctx.ix
    g = ix.funcs.get(ST + "is_valid_state_name")
    allf = ix.funcs.get(ST + "get_state_names")
    if g is None or allf is None:
        return
    rep.rule("Y10", "the state-name guard accepts exactly the catalogue: is_valid_state_name(n) == (n in get_state_names()) for every catalogued "
                    "name and for uncatalogued names assembled from catalogued parts", floor=2)
    try:
        R = list(ce.call(allf, []))
    except NotConst as ex:
        rep.undecided("Y10", allf, "catalogue", "not constant: %s" % ex)
        return
    Rset = set(R)
    singles = [n for n in R if "_" not in n]
    probes = []
    import itertools as _it
    some = singles[:4] + singles[-4:]
    for a, b in _it.product(some, repeat=2):
        probes.append(a + "_" + b)
    for a, b, c in _it.product(some[:3] + some[-3:], repeat=3):
        probes.append("_".join((a, b, c)))
    probes += ["_".join([singles[0]] * 4), singles[0] + "_", "_" + singles[0], "", "no_such_state", singles[0].upper()]
    probes = [p for p in dict.fromkeys(probes) if p not in Rset]
    rejected_cat, accepted_probe, nc = [], [], []
    for n in R:
        try:
            ce.steps = 0
            if ce.call(g, [n]) is not True:
                rejected_cat.append(n)
        except NotConst as ex:
            nc.append((n, str(ex)[:60]))
    for n in probes:
        try:
            ce.steps = 0
            if ce.call(g, [n]) is not False:
                accepted_probe.append(n)
        except NotConst as ex:
            nc.append((n, str(ex)[:60]))
    if nc:
        rep.undecided("Y10", g, "guard evaluation", "%d name(s) outside the constant fragment, e.g. %s" % (len(nc), nc[0]))
        return
    rep.check(not rejected_cat, "Y10", g, "%d catalogued names accepted" % len(R), "all accepted",
              "the guard rejects catalogued name(s) %s" % rejected_cat[:5], node=g.node)
    rep.check(not accepted_probe, "Y10", g, "%d uncatalogued probes rejected" % len(probes), "all rejected",
              "the guard accepts %d name(s) that are in no catalogue, e.g. %s: an uncatalogued name is then looked up / generated instead of raising"
              % (len(accepted_probe), accepted_probe[:4]), node=g.node)


def run_states(ctx, rep):
    ix = ctx.ix
    ce = ConstEval(ctx, max_depth=10)
    thorough = ctx.tier == "thorough"
    _y10(ctx, rep, ce)
    rep.rule("Y8", "named states: every catalogued pure-state vector is normalised and its density matrix is v v^†; x/y/z names are the "
                   "+1 / -1 eigenvectors of the Pauli matrix they name; a composite name a_b is the Kronecker product of its parts; the "
                   "four Bell names have the stabiliser signs their names say; the legacy constructors of state.py / gate.py hold the same "
                   "tables as the catalogue", floor=35)
    gen_v = ix.funcs.get(ST + "generate_state_pure_state_vector_from_name")
    gen_r = ix.funcs.get(ST + "generate_state_density_mat_from_name")
    if gen_v is None or gen_r is None:
        raise AnalysisError("state_typical generators not found")

    def names(q):
        return list(ce.call(ix.funcs[ST + q], []))
    cats = {}
    for cat in ("get_state_names_1qubit", "get_state_names_2qubit", "get_state_names_3qubit", "get_state_names_1qutrit", "get_state_names_2qutrit"):
        try:
            cats[cat] = names(cat)
        except NotConst as ex:
            rep.undecided("Y8", ix.funcs[ST + cat], cat, "catalogue is not constant: %s" % ex)
    vec = {}
    budget = None if thorough else 120
    for cat, ns in cats.items():
        todo = ns if budget is None else ns[:budget]
        bad_norm, bad_rho, nc = [], [], []
        for n in todo:
            try:
                ce.steps = 0
                v = np.asarray(ce.call(gen_v, [n]), dtype=complex)
                ce.steps = 0
                r = np.asarray(ce.call(gen_r, [n]), dtype=complex)
            except NotConst as ex:
                nc.append((n, str(ex)))
                continue
            vec[n] = v
            if abs(np.vdot(v, v) - 1) > 1e-12:
                bad_norm.append(n)
            if not close(r, np.outer(v, v.conj())):
                bad_rho.append(n)
        f = ix.funcs[ST + cat]
        if nc:
            rep.undecided("Y8", f, "%s: constant evaluation" % cat, "%d name(s) outside the constant fragment, e.g. %s" % (len(nc), nc[0]))
        rep.check(not bad_norm, "Y8", gen_v, "%s: %d vectors normalised" % (cat, len(todo)), "all of norm 1",
                  "state vector(s) %s do not have norm 1" % bad_norm[:5], node=f.node)
        rep.check(not bad_rho, "Y8", gen_r, "%s: density matrix = v v^†" % cat, "agree", "density matrix of %s is not the projector on its vector" % bad_rho[:5],
                  node=f.node)
    # naming
    for n, v in sorted(vec.items()):
        if len(n) == 2 and n[0] in "xyz" and n[1] in "01":
            P = PAULI["ixyz".index(n[0])]
            sign = 1 if n[1] == "0" else -1
            f = ix.funcs.get(ST + "get_state_%s_pure_state_vector" % n) or gen_v
            rep.check(close(P @ v, sign * v), "Y8", f, "state %s is the %+d eigenvector of sigma_%s" % (n, sign, n[0]), "holds",
                      "the vector catalogued as %s is not the %+d eigenvector of sigma_%s" % (n, sign, n[0]), node=f.node)
    bell = {"bell_phi_plus": (1, 1), "bell_phi_minus": (-1, 1), "bell_psi_plus": (1, -1), "bell_psi_minus": (-1, -1)}
    XX, ZZ = np.kron(PAULI[1], PAULI[1]), np.kron(PAULI[3], PAULI[3])
    for n, (sx, sz) in bell.items():
        if n in vec:
            f = ix.funcs.get(ST + "get_state_bell_pure_state_vector") or gen_v
            v = vec[n]
            rep.check(close(XX @ v, sx * v) and close(ZZ @ v, sz * v), "Y8", f, "state %s: XX = %+d, ZZ = %+d" % (n, sx, sz), "holds",
                      "the vector catalogued as %s does not have the stabiliser signs (XX, ZZ) = (%+d, %+d)" % (n, sx, sz), node=f.node)
    comp_bad = []
    n_comp = 0
    for n, v in vec.items():
        parts = n.split("_")
        if len(parts) > 1 and all(p in vec for p in parts):
            n_comp += 1
            w = vec[parts[0]]
            for p in parts[1:]:
                w = np.kron(w, vec[p])
            if not close(v, w):
                comp_bad.append(n)
    rep.check(not comp_bad, "Y8", gen_v, "%d composite names = Kronecker product of their parts (left to right)" % n_comp, "agree",
              "composite state(s) %s are not the left-to-right Kronecker product of their parts" % comp_bad[:5], node=gen_v.node)
    # legacy constructors
    B1 = _textbook_basis(1)
    for fn_name, cat_name in LEGACY_STATES.items():
        f = ix.funcs.get("quara.objects.state." + fn_name)
        if f is None or cat_name not in vec:
            continue
        want_len = 4 if cat_name != "bell_phi_plus" else 16

        def is_vec(x):
            try:
                a = np.asarray(x, dtype=complex)
                return a.ndim == 1 and a.shape[0] == want_len
            except Exception:
                return False
        lits = [x for x in ce.literals_through(f) if is_vec(x[1])]
        con = "state.%s vs catalogue '%s'" % (fn_name, cat_name)
        if not lits:
            rep.undecided("Y8", f, con, "no literal coefficient vector of length %d found" % want_len)
            continue
        lits = lits[-1:]          # the last one assigned is the one handed on (earlier ones are unscaled ingredients)
        lv = np.asarray(lits[0][1], dtype=complex)
        v = vec[cat_name]
        rho = np.outer(v, v.conj())
        if lv.shape[0] == 4:
            want = np.array([np.trace(b.conj().T @ rho) for b in B1])
        else:
            want = rho.flatten()          # get_bell_2q writes the density matrix in the computational basis, row-major
        rep.check(close(lv, want), "Y8", f, con, "same state", "the literal vector of %s is not the catalogue state '%s' (largest deviation %.3g)"
                  % (fn_name, cat_name, float(np.max(np.abs(lv - want)))), node=lits[0][3])
    B2 = _textbook_basis(2)
    for fn_name, g in LEGACY_GATES.items():
        f = ix.funcs.get("quara.objects.gate." + fn_name)
        if f is None:
            continue
        con = "gate.%s vs catalogue '%s'" % (fn_name, g)
        uq = ix.funcs.get(G + "generate_gate_%s_unitary_mat" % g)
        lits = ce.literals_through(f)

        def shaped(x, shp):
            try:
                return np.asarray(x).shape == shp
            except Exception:
                return False
        # the tables are identified by their shape (a 4x4 Pauli-basis table, a 16x16 computational-basis table), not by the
        # name of the local that holds them
        pa = [x for x in lits if shaped(x[1], (4, 4))]
        cb = [x for x in lits if shaped(x[1], (16, 16))]
        if g == "identity":
            if len(pa) == 1:
                rep.check(close(np.asarray(pa[0][1]), np.eye(4)), "Y8", f, con, "identity", "literal is not the identity", node=pa[0][3])
            else:
                rep.info("Y8", f, con, "no literal table (built by np.eye)")
            continue
        if uq is None:
            rep.undecided("Y8", f, con, "catalogue unitary not found")
            continue
        try:
            if pa and len(pa) == 1:
                u = np.asarray(ce.call(uq, []), dtype=complex)
                want = _hs_of_unitary(u, B1)
                rep.check(close(np.asarray(pa[0][1]), want), "Y8", f, con, "same Hilbert-Schmidt table",
                          "the Pauli-basis table of gate.%s is not the channel of the catalogue unitary '%s' (largest deviation %.3g)"
                          % (fn_name, g, float(np.max(np.abs(np.asarray(pa[0][1]) - want)))), node=pa[0][3])
            elif cb:
                for (nm, val, guards, node) in cb:
                    if "ids" in uq.params:
                        # first branch of get_cnot: the control is elemental system 0
                        first = not guards or guards[-1][1]
                        u = np.asarray(ce.call(uq, [[0, 1] if first else [1, 0]]), dtype=complex)
                        tag = " (control = system %d)" % (0 if first else 1)
                    else:
                        u = np.asarray(ce.call(uq, []), dtype=complex)
                        tag = ""
                    want = np.kron(u, u.conj())
                    rep.check(close(np.asarray(val), want), "Y8", f, con + tag, "same computational-basis table kron(U, conj U)",
                              "the computational-basis table of gate.%s%s is not kron(U, conj U) of the catalogue unitary '%s'" % (fn_name, tag, g), node=node)
            else:
                rep.undecided("Y8", f, con, "no literal table found in the constructor")
        except NotConst as ex:
            rep.undecided("Y8", f, con, "catalogue unitary not constant: %s" % ex)
    rep.stats["Y8_states_evaluated"] = len(vec)


# ------------------------------------------------------------------------------ Y9: POVM and measurement-process tables
PT = "quara.objects.povm_typical."
MT = "quara.objects.mprocess_typical."


def _psd(m, tol=1e-10):
    m = np.asarray(m, dtype=complex)
    if not close(m, m.conj().T):
        return False
    return bool(np.min(np.linalg.eigvalsh((m + m.conj().T) / 2)) >= -tol)


def run_measurements(ctx, rep):
    ix = ctx.ix
    ce = ConstEval(ctx, max_depth=12)
    thorough = ctx.tier == "thorough"
    rep.rule("Y9", "named measurements: POVM elements are positive and sum to the identity; rank-1 names are the projectors on their "
                   "pure-state vectors; x / y / z are the projectors on the catalogued states x0,x1 / y0,y1 / z0,z1; composite names are "
                   "Kronecker products of their parts (first part = slow index); the legacy vectors of povm.py are the same elements; every "
                   "named measurement process is trace preserving in total and measures the POVM of its base name", floor=30)
    gm = ix.funcs.get(PT + "generate_povm_matrices_from_name")
    gv = ix.funcs.get(PT + "generate_povm_pure_state_vectors_from_name")
    gs = ix.funcs.get(ST + "generate_state_pure_state_vector_from_name")
    if gm is None or gv is None or gs is None:
        raise AnalysisError("povm_typical generators not found")
    rank1 = set(ce.call(ix.funcs[PT + "get_povm_names_rank1"], []))
    mats = {}
    for cat in ("get_povm_names_1qubit", "get_povm_names_2qubit", "get_povm_names_3qubit", "get_povm_names_1qutrit", "get_povm_names_2qutrit"):
        f = ix.funcs[PT + cat]
        try:
            ns = list(ce.call(f, []))
        except NotConst as ex:
            rep.undecided("Y9", f, cat, "catalogue not constant: %s" % ex)
            continue
        todo = ns if thorough else ns[:30]
        bad_sum, bad_psd, bad_r1, nc = [], [], [], []
        for n in todo:
            try:
                ce.steps = 0
                ms = [np.asarray(x, dtype=complex) for x in ce.call(gm, [n])]
            except NotConst as ex:
                nc.append((n, str(ex)[:80]))
                continue
            mats[n] = ms
            d = ms[0].shape[0]
            if not close(sum(ms), np.eye(d)):
                bad_sum.append(n)
            if not all(_psd(m) for m in ms):
                bad_psd.append(n)
            if all(p in rank1 for p in n.split("_")):
                try:
                    ce.steps = 0
                    vs = [np.asarray(x, dtype=complex) for x in ce.call(gv, [n])]
                    if len(vs) != len(ms) or not all(close(m, np.outer(v, v.conj())) for m, v in zip(ms, vs)):
                        bad_r1.append(n)
                except NotConst as ex:
                    nc.append((n, str(ex)[:80]))
        if nc:
            rep.undecided("Y9", f, "%s: constant evaluation" % cat, "%d name(s) outside the fragment, e.g. %s" % (len(nc), nc[0]))
        rep.check(not bad_sum, "Y9", gm, "%s: %d POVMs sum to the identity" % (cat, len(todo)), "holds", "elements of %s do not sum to the identity" % bad_sum[:5], node=f.node)
        rep.check(not bad_psd, "Y9", gm, "%s: elements positive semidefinite" % cat, "holds", "%s have a non-positive element" % bad_psd[:5], node=f.node)
        rep.check(not bad_r1, "Y9", gv, "%s: rank-1 elements = projectors on the listed vectors" % cat, "holds",
                  "matrices and pure-state vectors of %s disagree" % bad_r1[:5], node=f.node)
    # x / y / z vs the state catalogue
    for a in "xyz":
        if a in mats:
            try:
                v0 = np.asarray(ce.call(gs, [a + "0"]), dtype=complex)
                v1 = np.asarray(ce.call(gs, [a + "1"]), dtype=complex)
            except NotConst as ex:
                rep.undecided("Y9", gs, "POVM %s vs states" % a, str(ex))
                continue
            ok = len(mats[a]) == 2 and close(mats[a][0], np.outer(v0, v0.conj())) and close(mats[a][1], np.outer(v1, v1.conj()))
            rep.check(ok, "Y9", gm, "POVM %s = {|%s0><%s0|, |%s1><%s1|}" % (a, a, a, a, a), "holds",
                      "the elements of POVM '%s' are not the projectors on the catalogued states %s0, %s1 in this order" % (a, a, a), node=gm.node)
    # composites
    bad_c, n_c = [], 0
    for n, ms in mats.items():
        parts = n.split("_")
        if len(parts) > 1 and all(p in mats for p in parts):
            n_c += 1
            acc = mats[parts[0]]
            for p in parts[1:]:
                acc = [np.kron(x, y) for x, y in itertools.product(acc, mats[p])]
            if len(acc) != len(ms) or not all(close(x, y) for x, y in zip(acc, ms)):
                bad_c.append(n)
    rep.check(not bad_c, "Y9", gm, "%d composite POVM names = Kronecker products of their parts, first part slowest" % n_c, "holds",
              "composite POVM(s) %s are not the ordered Kronecker product of their parts" % bad_c[:5], node=gm.node)
    # legacy vectors of povm.py
    B1 = _textbook_basis(1)
    for a in "xyz":
        f = ix.funcs.get("quara.objects.povm._get_%s_povm_vecs" % a)
        if f is None or a not in mats:
            continue
        try:
            vs = [np.asarray(x, dtype=complex) for x in ce.call(f, [])]
        except NotConst as ex:
            rep.undecided("Y9", f, "legacy %s vectors" % a, str(ex))
            continue
        want = [np.array([np.trace(b.conj().T @ m) for b in B1]) for m in mats[a]]
        rep.check(len(vs) == len(want) and all(close(x, y) for x, y in zip(vs, want)), "Y9", f, "povm._get_%s_povm_vecs vs catalogue '%s'" % (a, a),
                  "same elements", "the legacy coefficient vectors of the %s POVM are not the catalogue's elements" % a, node=f.node)
    # measurement processes
    gk = ix.funcs.get(MT + "generate_mprocess_set_kraus_matrices_from_name")
    gpm1 = ix.funcs.get(PT + "_generate_povm_matrices_from_single_name")
    if gk is None or gpm1 is None:
        raise AnalysisError("mprocess_typical generators not found")
    for cat in ("get_mprocess_names_type1", "get_mprocess_names_type2"):
        f = ix.funcs[MT + cat]
        try:
            ns = list(ce.call(f, []))
        except NotConst as ex:
            rep.undecided("Y9", f, cat, "catalogue not constant: %s" % ex)
            continue
        for n in ns:
            con = "measurement process %s" % n
            try:
                ce.steps = 0
                ks = [[np.asarray(k, dtype=complex) for k in row] for row in ce.call(gk, [n])]
                base = n.split("-")[0]
                ce.steps = 0
                pm = [np.asarray(x, dtype=complex) for x in ce.call(gpm1, [base])]
            except NotConst as ex:
                rep.undecided("Y9", gk, con, "not constant: %s" % str(ex)[:100])
                continue
            eff = [sum(k.conj().T @ k for k in row) for row in ks]
            d = eff[0].shape[0]
            tp = close(sum(eff), np.eye(d))
            same = len(eff) == len(pm) and all(close(x, y) for x, y in zip(eff, pm))
            rep.check(tp and same, "Y9", gk, con, "sum_x sum_j K^† K = 1 and the measured POVM is '%s'" % base,
                      ("the Kraus operators of %s are not trace preserving in total" % n) if not tp else
                      ("the POVM measured by %s (sum_j K^† K per outcome) is not the catalogued POVM '%s'" % (n, base)), node=f.node)
    rep.stats["Y9_povms_evaluated"] = len(mats)
