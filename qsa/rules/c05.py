"""C05 - the physical projection is Dykstra's alternating projection, in both routines and
both orders; Birgin-Raydan stopping value; returned point and history are the iterates."""
from __future__ import annotations

import ast

from ..astutil import square_base, arg, body_wo_doc, const, inline, is_num, kwarg, returns, single_defs, unparse
from ..index import AnalysisError, Func, dotted, own_nodes
from ..linform import Lin, NotLinear, eval_lin
from ..resolve import bind_call

Q = "quara.objects.qoperation.QOperation."


def run(ctx, rep):
    ix = ctx.ix
    rep.rule("K1", "each mode_proj_order branch of the loop body is y'=P_A(x+p); p'=x+p-y'; x'=P_B(y'+q); q'=y'+q-x' with "
                   "(A,B)=(eq,ineq) for 'eq_ineq' and (ineq,eq) otherwise (exact in the affine domain)", floor=16)
    rep.rule("K2", "p and q start at the zero object, x at (a copy of) the input; the shift block assigns prev := next for all four", floor=4)
    rep.rule("K3", "stopping: value = sum (p-p')^2 + (q-q')^2, compared with `<` against eps_proj_physical, evaluated from the second "
                   "sweep on with arguments bound to the like-named parameters; loop leaves on it", floor=6)
    rep.rule("K4", "the returned point is the last x' (converted back with the caller's flag in the variable routine) and the history "
                   "lists receive the carried p', q', x', y'", floor=4)
    rep.rule("K5", "func_calc_proj_physical(_with_var) closures forward their argument and flag to the routines and return their result", floor=2)

    for name, level in (("calc_proj_physical", "object"), ("calc_proj_physical_with_var", "var")):
        f = ix.func(Q + name)
        _check_routine(ctx, rep, f, level)
    _check_stop_helpers(ctx, rep)
    _check_closures(ctx, rep)
    # information only
    fw = ix.func(Q + "func_calc_proj_physical_with_var")
    if "mode_proj_order" in fw.params:
        used = any(isinstance(n, ast.Name) and n.id == "mode_proj_order" and isinstance(n.ctx, ast.Load) for n in ast.walk(fw.node))
        if not used:
            rep.info("K5", fw, "mode_proj_order", "parameter accepted and never read (the object's own order is used); the limit is "
                                                   "order-independent, so no clause is broken")
    rep.rule("K6", "the equality step of the projection writes the constants its parametrisation implies over the whole constrained part (rule I5 of C03 on the "
                   "equality-projection bodies)", floor=4)
    from ..report import Relay as _Relay
    from . import c03 as _c03
    _c03._check_constants(ctx, _Relay(rep, {"I5": "K6"}, keep=lambda f_, con_: "calc_proj_eq_constraint" in (getattr(f_, "qualname", None) or str(f_))))


def _proj_app(level):
    def app(call: ast.Call, rec):
        fn = call.func
        if not isinstance(fn, ast.Attribute):
            return None
        nm = fn.attr
        if "calc_proj_" not in nm or "constraint" not in nm:
            return None
        kind = "P_ineq" if "ineq" in nm else "P_eq"
        if level == "object":
            if nm.endswith("_with_var") or call.args or call.keywords:
                raise NotLinear("object-level projection expected a no-argument method call: %s" % unparse(call))
            return rec(fn.value).app(kind)
        if not nm.endswith("_with_var"):
            raise NotLinear("variable-level routine calls the object-level projection %s" % nm)
        if len(call.args) < 2:
            raise NotLinear("projection call without a vector argument")
        fl = kwarg(call, "on_para_eq_constraint")
        if fl is None and len(call.args) >= 3:
            fl = call.args[2]
        if fl is None or const(fl) is not False:
            raise NotLinear("projection of a stacked vector must be called with on_para_eq_constraint=False (got %s)"
                            % (unparse(fl) if fl is not None else "default True"))
        return rec(call.args[1]).app(kind)
    return app


def _check_routine(ctx, rep, f: Func, level: str):
    loops = [n for n in own_nodes(f.node) if isinstance(n, ast.For)]
    loops = [l for l in loops if "max_iteration" in unparse(l.iter)]
    if len(loops) != 1:
        rep.undecided("K1", f, "loop", "expected one `for k in range(max_iteration)` loop")
        return
    loop = loops[0]
    # ---- K1 : the mode branch
    # the sweep: the run of loop-body statements from the first one that depends on the projection order (or assigns y_next) to the
    # last one that assigns one of y', p', x', q'.  It is specialised once per order: every `if` on mode_proj_order (spelt directly
    # or through a local that holds the comparison) is replaced by the branch taken.
    FOUR = ("y_next", "p_next", "x_next", "q_next")
    mode_locals = {}
    for st in body_wo_doc(f.node) + list(loop.body):
        if isinstance(st, ast.Assign) and len(st.targets) == 1 and isinstance(st.targets[0], ast.Name) and "mode_proj_order" in unparse(st.value) \
                and isinstance(st.value, ast.Compare):
            mode_locals[st.targets[0].id] = st.value

    def mode_test(t, mode):
        """truth of a test under self.mode_proj_order == mode; None if it is not a test on the order"""
        if isinstance(t, ast.UnaryOp) and isinstance(t.op, ast.Not):
            v = mode_test(t.operand, mode)
            return None if v is None else not v
        if isinstance(t, ast.Name) and t.id in mode_locals:
            return mode_test(mode_locals[t.id], mode)
        if isinstance(t, ast.Compare) and len(t.ops) == 1 and "mode_proj_order" in unparse(t.left) and isinstance(t.ops[0], (ast.Eq, ast.NotEq)):
            lit_ = const(t.comparators[0])
            if lit_ in ("eq_ineq", "ineq_eq"):
                return (lit_ == mode) == isinstance(t.ops[0], ast.Eq)
        return None

    def is_mode_if(s_):
        return isinstance(s_, ast.If) and mode_test(s_.test, "eq_ineq") is not None

    def assigns_four(s_):
        return any(isinstance(n, ast.Name) and isinstance(n.ctx, ast.Store) and n.id in FOUR for n in ast.walk(s_))
    idx = [i for i, s_ in enumerate(loop.body) if is_mode_if(s_) or (isinstance(s_, ast.Assign) and assigns_four(s_))]
    modeif = [s_ for s_ in loop.body if is_mode_if(s_)]
    if not modeif or any(not s_.orelse for s_ in modeif):
        rep.undecided("K1", f, "mode branch", "expected an if/else on mode_proj_order in the loop body")
        return
    mi = modeif[0]
    region = loop.body[idx[0]:idx[-1] + 1]

    def specialise(stmts, mode):
        out = []
        for s_ in stmts:
            if is_mode_if(s_):
                out += specialise(s_.body if mode_test(s_.test, mode) else s_.orelse, mode)
            else:
                out.append(s_)
        return out
    branches = {m: specialise(region, m) for m in ("eq_ineq", "ineq_eq")}
    X, P, Qq = Lin.sym("x"), Lin.sym("p"), Lin.sym("q")
    for mode, body in branches.items():
        A, B = ("P_eq", "P_ineq") if mode == "eq_ineq" else ("P_ineq", "P_eq")
        env = {"x_prev": X, "p_prev": P, "q_prev": Qq}
        for st0 in loop.body[:idx[0]]:
            # locals bound earlier in the loop body (x_plus_p = x_prev + p_prev ...)
            if isinstance(st0, ast.Assign) and len(st0.targets) == 1 and isinstance(st0.targets[0], ast.Name) and st0.targets[0].id not in env:
                try:
                    from ..symsum import expand_calls as _ec
                    env[st0.targets[0].id] = eval_lin(_ec(ctx, f, st0.value), env, _proj_app(level))
                except NotLinear:
                    pass
        try:
            for st in body:
                if isinstance(st, ast.Assign) and len(st.targets) == 1 and isinstance(st.targets[0], ast.Name):
                    from ..symsum import expand_calls
                    env[st.targets[0].id] = eval_lin(expand_calls(ctx, f, st.value), env, _proj_app(level))
                elif isinstance(st, ast.Expr):
                    continue
                else:
                    raise NotLinear("statement outside the affine fragment: %s" % unparse(st)[:80])
        except NotLinear as e:
            rep.violation("K1", f, "branch %s" % mode, str(e), node=body[0], label="mode_proj_order=%s" % mode) \
                if "must be called" in str(e) or "calls the object-level" in str(e) else \
                rep.undecided("K1", f, "branch %s" % mode, str(e))
            continue
        y_w = (X + P).app(A)
        p_w = X + P - y_w
        x_w = (y_w + Qq).app(B)
        q_w = y_w + Qq - x_w
        for var, want, text in (("y_next", y_w, "y' = %s(x + p)" % A), ("p_next", p_w, "p' = x + p - y'"),
                                ("x_next", x_w, "x' = %s(y' + q)" % B), ("q_next", q_w, "q' = y' + q - x'")):
            got = env.get(var)
            con = "%s [%s] %s" % (f.name, mode, var)
            node = next((s for s in body if isinstance(s, ast.Assign) and unparse(s.targets[0]) == var), body[0])
            if got is None:
                rep.violation("K1", f, con, "%s is not assigned in this branch" % var, node=node, label=mode)
            elif got == want:
                rep.holds("K1", f, con, text, node=node, label=mode)
            else:
                rep.violation("K1", f, con, "Dykstra requires %s, i.e. %r; the code computes %r" % (text, want, got), node=node, label=mode)
    # ---- K2 : initial values and shift
    defs_before = {}
    for st in body_wo_doc(f.node):
        if st is loop:
            break
        if isinstance(st, ast.Assign) and len(st.targets) == 1 and isinstance(st.targets[0], ast.Name):
            defs_before[st.targets[0].id] = st
    ok, why = True, []
    for v in ("p_prev", "q_prev"):
        st = defs_before.get(v)
        txt = unparse(st.value) if st else ""
        want = "self.generate_zero_obj()" + ("" if level == "object" else ".to_stacked_vector()")
        if txt != want:
            ok = False
            why.append("%s starts at %s, expected %s" % (v, txt or "<unassigned>", want))
    st = defs_before.get("x_prev")
    txt = unparse(st.value) if st else ""
    if level == "object":
        if txt != "self.copy()":
            ok = False
            why.append("x starts at %s, expected self.copy()" % txt)
    else:
        c = st.value if st else None
        good = isinstance(c, ast.Call) and isinstance(c.func, ast.Attribute) and c.func.attr == "convert_var_to_stacked_vector" \
            and len(c.args) >= 2 and unparse(c.args[1]) == "var" \
            and unparse(kwarg(c, "on_para_eq_constraint") or (c.args[2] if len(c.args) > 2 else ast.Constant(value=None))) == "on_para_eq_constraint"
        if not good:
            ok = False
            why.append("x starts at %s, expected convert_var_to_stacked_vector(c_sys, var, on_para_eq_constraint=on_para_eq_constraint)" % txt)
    rep.check(ok, "K2", f, "initial p, q, x", "p = q = zero object, x = input", "; ".join(why), node=loop)
    # the shift block is recognised by what it does (prev := next assignments), not by how its guard is spelt
    shift = [s for s in loop.body if isinstance(s, ast.If) and s is not mi and s.body and not s.orelse
             and all(isinstance(x, ast.Assign) and len(x.targets) == 1 and isinstance(x.targets[0], ast.Name) and isinstance(x.value, ast.Name) for x in s.body)]
    pairs = {}
    if shift:
        for s in shift[0].body:
            if isinstance(s, ast.Assign) and len(s.targets) == 1:
                pairs[unparse(s.targets[0])] = unparse(s.value)
    want = {"p_prev": "p_next", "q_prev": "q_next", "x_prev": "x_next", "y_prev": "y_next"}
    before_mode = bool(shift) and loop.body.index(shift[0]) < loop.body.index(mi)
    rep.check(pairs == want and before_mode, "K2", f, "shift block", "prev := next for p, q, x, y before each sweep",
              "shift block assigns %s (must be %s, before the sweep)" % (pairs, want), node=shift[0] if shift else loop)
    # ---- K3 (call site part)
    stop_calls = [n for n in ast.walk(loop) if isinstance(n, ast.Call) and "is_satisfied_stopping_criterion" in (dotted(n.func) or "")]
    if len(stop_calls) != 1:
        rep.undecided("K3", f, "stopping call", "expected one stopping-criterion call in the loop")
    else:
        sc = stop_calls[0]
        tgt = ctx.ix.func(Q + sc.func.attr) if isinstance(sc.func, ast.Attribute) and (Q + sc.func.attr) in ctx.ix.funcs else None
        if tgt is None:
            rep.undecided("K3", f, sc, "stopping helper not resolved")
        else:
            binding, errs = bind_call(sc, tgt, True)
            bad = [(p, unparse(e)) for p, e in binding.items() if p != "eps_proj_physical" and unparse(e) != p]
            eps = binding.get("eps_proj_physical")
            eps_ok = eps is not None and unparse(eps) in ("self.eps_proj_physical", "self._eps_proj_physical")
            # guarded by k >= 1
            g = getattr(sc, "_parent", None)
            guard = None
            while g is not None and g is not loop:
                if isinstance(g, ast.If) and any(sc is x or sc in ast.walk(x) for b in g.body for x in [b]):
                    guard = g
                    break
                g = getattr(g, "_parent", None)
            gtxt = unparse(guard.test).replace(" ", "") if guard is not None else ""
            g_ok = gtxt in ("k>=1", "k>0", "1<=k", "0<k")
            if errs or bad:
                rep.violation("K3", f, sc, "stopping value is computed from mismatched iterates: %s %s" % (bad, errs), node=sc)
            elif not eps_ok:
                rep.violation("K3", f, sc, "threshold is %s, not the object's eps_proj_physical" % (unparse(eps) if eps is not None else None), node=sc)
            elif not g_ok:
                rep.violation("K3", f, sc, "stopping test must run from the second sweep on (guard `%s`)" % gtxt, node=sc)
            else:
                rep.holds("K3", f, sc, "arguments bound to like-named parameters, eps = self.eps_proj_physical, guarded by k >= 1", node=sc)
        brk = [s for s in loop.body if isinstance(s, ast.If) and unparse(s.test) == "is_stopping" and any(isinstance(x, ast.Break) for x in s.body)]
        assigned = any(isinstance(n, ast.Assign) and "is_stopping" in unparse(n.targets[0]) and n.value is getattr(sc, "_parent", None) or
                       (isinstance(n, ast.Assign) and n.value is sc and "is_stopping" in unparse(n.targets[0])) for n in ast.walk(loop))
        rep.check(bool(brk) and assigned, "K3", f, "loop exit", "`if is_stopping: break` on the helper's verdict",
                  "the loop does not leave on the stopping verdict", node=loop)
    # ---- K4
    rets = returns(f)
    ok, why = True, []
    after_loop = body_wo_doc(f.node)[body_wo_doc(f.node).index(loop) + 1:] if loop in body_wo_doc(f.node) else []
    post_defs = {}
    for st_ in after_loop:
        for n_ in ast.walk(st_):
            if isinstance(n_, ast.Assign) and len(n_.targets) == 1 and isinstance(n_.targets[0], ast.Name):
                post_defs[n_.targets[0].id] = n_.value

    def point_of(e):
        """the returned point with locals bound after the loop written out"""
        for _ in range(3):
            if isinstance(e, ast.Name) and e.id in post_defs and e.id != "x_next":
                e = post_defs[e.id]
        return e
    for r in rets:
        v = r.value
        pt = point_of(v.elts[0] if isinstance(v, ast.Tuple) else v)
        if level == "object":
            if unparse(pt) != "x_next":
                ok = False
                why.append("returns %s" % unparse(pt))
        else:
            c = pt
            if isinstance(c, ast.Name) and c.id == "x_next" and "x_next" in post_defs:
                c = post_defs["x_next"]
            good = isinstance(c, ast.Call) and "convert_stacked_vector_to_var" in unparse(c.func) and len(c.args) >= 2 and unparse(c.args[1]) == "x_next"
            if good:
                fl = kwarg(c, "on_para_eq_constraint") or (c.args[2] if len(c.args) > 2 else None)
                good = fl is not None and unparse(fl) == "on_para_eq_constraint"
            if not good:
                ok = False
                why.append("returns %s; x_next is not converted back with convert_stacked_vector_to_var(c_sys, x_next, on_para_eq_constraint=<caller's flag>) "
                           "after the loop" % unparse(pt)[:60])
    rep.check(ok and bool(rets), "K4", f, "returned point", "last x' returned", "; ".join(sorted(set(why))), node=rets[0] if rets else f.node)
    # history: the list stored under key 'p' / 'q' / 'x' / 'y' / 'error_value' receives p' / q' / x' / y' / the error value in every sweep
    role_of = {"p_next": "p", "q_next": "q", "x_next": "x", "y_next": "y", "error_value": "error_value"}
    apps = {}
    for n in ast.walk(loop):
        if isinstance(n, ast.Call) and isinstance(n.func, ast.Attribute) and n.func.attr == "append" and len(n.args) == 1 and unparse(n.args[0]) in role_of:
            apps[unparse(n.func.value)] = role_of[unparse(n.args[0])]
    want = set(apps)
    hist = None
    from ..astutil import dict_items
    for n in own_nodes(f.node):
        di = dict_items(n) if isinstance(n, (ast.Dict, ast.Call)) else None
        if di and "x" in di:
            hist = {k: unparse(v) for k, v in di.items()}
    if hist is None or not apps:
        rep.undecided("K4", f, "history", "history dictionary / appends of the iterates not found")
    else:
        # a key may hold the list itself (filled by name) or be filled through the dictionary (history['p'].append(...))
        got = {}
        for k_, v_ in hist.items():
            got[k_] = apps.get(v_)
        for L_, role in apps.items():
            for k_ in hist:
                if L_.replace('"', "'").endswith("['%s']" % k_):
                    got[k_] = role
        okh = all(got.get(k_) == k_ for k_ in ("p", "q", "x", "y", "error_value"))
        rep.check(okh, "K4", f, "history", "the lists under p / q / x / y / error_value receive p', q', x', y' and the error value",
                  "history keys receive %s (appends: %s)" % (got, apps), node=loop)
    # the sweep that ends the loop is recorded too: the history appends precede every exit of the iteration
    def top_index(node):
        for i, st in enumerate(loop.body):
            if any(node is x for x in ast.walk(st)):
                return i
        return None
    app_idx = [top_index(n) for n in ast.walk(loop) if isinstance(n, ast.Call) and isinstance(n.func, ast.Attribute) and n.func.attr == "append"
               and unparse(n.func.value) in want]
    brk_idx = [top_index(n) for n in ast.walk(loop) if isinstance(n, ast.Break)]
    if app_idx and brk_idx and None not in app_idx and None not in brk_idx:
        rep.check(max(app_idx) < min(brk_idx), "K4", f, "history of the last sweep", "the iterates of the stopping sweep are appended before the loop is left",
                  "the loop is left (break) before the history lists are extended: the sweep that satisfies the stopping test is never recorded, so "
                  "history['x'][-1] is not the returned point", node=loop)
    else:
        rep.undecided("K4", f, "history of the last sweep", "history appends / loop exit not found at the top level of the loop body")


def _check_stop_helpers(ctx, rep):
    ix = ctx.ix
    h = ix.func(Q + "_is_satisfied_stopping_criterion_birgin_raydan_vectors")
    # error value from the (p-p')^2 + (q-q')^2 helper, compared with <
    calls = [n for n in own_nodes(h.node) if isinstance(n, ast.Call) and "_calc_stopping_criterion" in (dotted(n.func) or "")]
    if len(calls) != 1:
        rep.undecided("K3", h, "value helper", "expected one call of a _calc_stopping_criterion helper")
        return
    vh = ix.funcs.get(Q + calls[0].func.attr)
    if vh is None:
        rep.undecided("K3", h, calls[0], "helper not found")
        return
    binding, errs = bind_call(calls[0], vh, True)
    bad = [(p, unparse(e)) for p, e in binding.items() if unparse(e) != p]
    rep.check(not errs and not bad, "K3", h, calls[0], "iterates forwarded to like-named parameters", "mismatched: %s %s" % (bad, errs), node=calls[0])
    # the verdict: per path, the first element of the returned pair and the conditions under which it is returned
    from ..symsum import cases, returning
    cs = cases(h)
    verdicts = []       # (left, op, right): True is returned exactly when `left op right`
    other = []
    for c in (returning(cs) if cs else []):
        v = c.value
        first = v.elts[0] if isinstance(v, ast.Tuple) and v.elts else None
        if first is None:
            continue
        while isinstance(first, ast.Call) and isinstance(first.func, ast.Name) and first.func.id == "bool" and len(first.args) == 1:
            first = first.args[0]
        cmps = [(t, pol, n) for t, pol, n in c.guards if isinstance(n, ast.Compare) and "eps_proj_physical" in t]
        # `True if c else False` is c (and `False if c else True` its negation)
        flipped = False
        while isinstance(first, ast.IfExp) and isinstance(first.body, ast.Constant) and isinstance(first.orelse, ast.Constant) \
                and {first.body.value, first.orelse.value} == {True, False} and first.body.value is not first.orelse.value:
            flipped ^= first.body.value is False
            first = first.test
        if isinstance(first, ast.Compare) and len(first.ops) == 1 and flipped:
            verdicts.append((first, False))
        elif isinstance(first, ast.Constant) and first.value in (True, False) and len(cmps) == 1:
            t, pol, n = cmps[0]
            # returned constant `first.value` when (n is pol)  ->  True exactly when n is (pol == first.value)
            verdicts.append((n, pol == first.value))
        elif isinstance(first, ast.Compare) and len(first.ops) == 1:
            verdicts.append((first, True))
        elif isinstance(first, ast.Constant) and first.value is False and not cmps:
            continue        # the "not yet decidable" early exit (missing iterates)
        else:
            other.append(unparse(first))
    ok, why = False, "no comparison of the value with eps_proj_physical"
    if other:
        rep.undecided("K3", h, "value < eps_proj_physical", "verdict `%s` is not a comparison of the value with eps_proj_physical" % other[0])
    else:
        good = []
        for n, sense in verdicts:
            l, r, o = unparse(n.left), unparse(n.comparators[0]), n.ops[0]
            # normalise to  value ? eps
            if l == "eps_proj_physical":
                l, r = r, l
                o = {ast.Lt: ast.Gt, ast.Gt: ast.Lt, ast.LtE: ast.GtE, ast.GtE: ast.LtE}.get(type(o), type(o))()
            if not sense:
                o = {ast.Lt: ast.GtE, ast.GtE: ast.Lt, ast.Gt: ast.LtE, ast.LtE: ast.Gt}.get(type(o), type(None))()
            if l in ("error_value", unparse(calls[0])) and r == "eps_proj_physical" and isinstance(o, ast.Lt):
                good.append(True)
            else:
                good.append(False)
                why = "the verdict is True when `%s %s %s`; Birgin-Raydan stops when the value is < eps" % (l[:60], type(o).__name__, r)
        ok = bool(good) and all(good)
        rep.check(ok, "K3", h, "value < eps_proj_physical", "stops exactly when value < eps", why, node=h.node)
    # the value itself
    r = returns(vh)
    e = inline(vh, r[0].value) if r else None
    ok, why = False, "value is not np.sum((p_prev - p_next)**2 + (q_prev - q_next)**2)"
    if isinstance(e, ast.Call) and (dotted(e.func) or "").endswith("sum") and e.args:
        a = e.args[0]
        sq = []

        def squares(x):
            if isinstance(x, ast.BinOp) and isinstance(x.op, ast.Add):
                squares(x.left)
                squares(x.right)
            elif square_base(x) is not None:
                sq.append(square_base(x))
            else:
                sq.append(None)

        squares(a)
        if None not in sq and len(sq) == 2:
            env = {n: Lin.sym(n) for n in vh.params}
            try:
                forms = [eval_lin(x, env) for x in sq]
                wants = [Lin.sym("p_prev") - Lin.sym("p_next"), Lin.sym("q_prev") - Lin.sym("q_next")]
                got = set()
                for fm in forms:
                    for i, w in enumerate(wants):
                        if fm == w or fm == w.scale(-1):
                            got.add(i)
                if got == {0, 1}:
                    ok = True
                else:
                    why = "squared increments are %r; expected (p - p') and (q - q')" % (forms,)
            except NotLinear as ex:
                why = str(ex)
    rep.check(ok, "K3", vh, r[0] if r else "return", "sum (p-p')^2 + (q-q')^2", why, node=r[0] if r else vh.node)
    hq = ix.func(Q + "_is_satisfied_stopping_criterion_birgin_raydan_qoperations")
    calls = [n for n in own_nodes(hq.node) if isinstance(n, ast.Call) and "_is_satisfied_stopping_criterion_birgin_raydan_vectors" in (dotted(n.func) or "")]
    if len(calls) == 1:
        from ..astutil import expand_star_args
        binding, errs = bind_call(expand_star_args(hq, calls[0]), h, True)
        bad = [(p, unparse(e)) for p, e in binding.items()
               if unparse(e) not in (p, p + ".to_stacked_vector()")]
        rep.check(not errs and not bad, "K3", hq, calls[0], "object iterates -> stacked vectors, like-named", "mismatched: %s %s" % (bad, errs), node=calls[0])
    else:
        rep.undecided("K3", hq, "forward", "expected one call of the vector-level verdict")


def _check_factory_returns(ctx, rep, rule="K5"):
    """func_calc_proj_physical(_with_var) hand out the closure that runs the PHYSICAL projection on every path (no shortcut to the
    equality-only or inequality-only projection under some flag)"""
    for nm in ("func_calc_proj_physical", "func_calc_proj_physical_with_var"):
        f = ctx.ix.func(Q + nm)
        rets = returns(f)
        nested = set(f.nested)
        bad = [r for r in rets if not (isinstance(r.value, ast.Name) and r.value.id in nested)]
        con = "%s returns its closure" % nm
        if not rets:
            rep.undecided(rule, f, con, "no return")
        elif bad:
            rep.violation(rule, f, con, "on some path the factory returns `%s` instead of its own closure: the projection handed to the optimiser on that path "
                                        "is not the physical (equality and inequality) projection" % unparse(bad[0].value)[:80], node=bad[0])
        else:
            rep.holds(rule, f, con, "every path returns the nested closure", node=rets[0])


def _is_flag(f, e) -> bool:
    """the flag the factory was handed: the parameter itself, or a local of the factory bound once to the parameter defaulted with the
    object's own flag (`self._on_para_eq_constraint if on_para_eq_constraint is None else on_para_eq_constraint`)"""
    if e is None:
        return False
    if unparse(e) == "on_para_eq_constraint":
        return True
    if isinstance(e, ast.Name):
        d = single_defs(f).get(e.id)
        if isinstance(d, ast.IfExp) and {unparse(d.body), unparse(d.orelse)} in ({"on_para_eq_constraint", "self._on_para_eq_constraint"},
                                                                                 {"on_para_eq_constraint", "self.on_para_eq_constraint"}):
            t = d.test
            if isinstance(t, ast.Compare) and len(t.ops) == 1 and unparse(t.left) == "on_para_eq_constraint" and const(t.comparators[0]) is None \
                    and isinstance(t.comparators[0], ast.Constant):
                none_is_body = isinstance(t.ops[0], (ast.Is, ast.Eq))
                dflt = d.body if none_is_body else d.orelse
                return unparse(dflt) != "on_para_eq_constraint"
    return False


def _check_closures(ctx, rep):
    _check_factory_returns(ctx, rep)
    ix = ctx.ix
    f = ix.func(Q + "func_calc_proj_physical")
    inner = f.nested.get("_func_proj")
    ok, why = False, "closure not found"
    if inner is not None:
        txt = unparse(inner.node)
        gen = [n for n in ast.walk(inner.node) if isinstance(n, ast.Call) and isinstance(n.func, ast.Attribute) and n.func.attr == "generate_from_var"]
        proj = [n for n in ast.walk(inner.node) if isinstance(n, ast.Call) and isinstance(n.func, ast.Attribute) and n.func.attr == "calc_proj_physical"]
        rets = [r for r in ast.walk(inner.node) if isinstance(r, ast.Return)]
        ok = bool(gen) and bool(proj)
        why = []
        for g in gen:
            if not (g.args and unparse(g.args[0]) == "var"):
                ok = False
                why.append("generate_from_var is not applied to the closure's argument")
            fl = kwarg(g, "on_para_eq_constraint")
            if not _is_flag(f, fl):
                ok = False
                why.append("flag not forwarded to generate_from_var")
            mo = kwarg(g, "mode_proj_order")
            if mo is None or unparse(mo) != "mode_proj_order":
                ok = False
                why.append("mode_proj_order not forwarded to generate_from_var")
        for p in proj:
            if unparse(p.func.value) not in [unparse(t) for s in ast.walk(inner.node) if isinstance(s, ast.Assign) and s.value in gen for t in s.targets]:
                ok = False
                why.append("projection is not applied to the object generated from var")
        for r in rets:
            v = r.value.elts[0] if isinstance(r.value, ast.Tuple) else r.value
            if not (isinstance(v, ast.Call) and isinstance(v.func, ast.Attribute) and v.func.attr == "to_var"):
                ok = False
                why.append("closure does not return the projected object's variables")
        why = "; ".join(why)
    rep.check(ok, "K5", f, "_func_proj", "var -> generate_from_var(var, flag, order) -> calc_proj_physical -> to_var", why, node=f.node)
    f = ix.func(Q + "func_calc_proj_physical_with_var")
    inner = f.nested.get("_func_proj")
    ok, why = False, "closure not found"
    if inner is not None:
        calls = [n for n in ast.walk(inner.node) if isinstance(n, ast.Call) and isinstance(n.func, ast.Attribute) and n.func.attr == "calc_proj_physical_with_var"]
        rets = [r for r in ast.walk(inner.node) if isinstance(r, ast.Return)]
        if len(calls) == 1 and len(rets) == 1:
            c = calls[0]
            fl = kwarg(c, "on_para_eq_constraint") or (c.args[1] if len(c.args) > 1 else None)
            tgt = [unparse(t) for s in ast.walk(inner.node) if isinstance(s, ast.Assign) and s.value is c for t in s.targets]
            ok = bool(c.args) and unparse(c.args[0]) == "var" and _is_flag(f, fl) \
                and (unparse(rets[0].value) in tgt or rets[0].value is c)
            why = "argument/flag not forwarded or result not returned"
    rep.check(ok, "K5", f, "_func_proj", "var -> self.calc_proj_physical_with_var(var, flag)", why, node=f.node)
