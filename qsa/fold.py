"""E8 - constant folding of the catalogue / name-table fragment.

A tiny evaluator for *pure string-and-list code*: literals, `+`, `+=`, append/extend/remove,
list comprehensions and for-loops over folded lists and `itertools.product`, `join`, `replace`,
`split`, f-strings, `in`/`==` tests, and calls to other repo functions that fold.  It never
touches numeric code: anything else raises NotFoldable.
"""
from __future__ import annotations

import ast
import itertools
from typing import Dict, List, Optional

from .astutil import body_wo_doc, unparse
from .index import Func, Index, dotted


class NotFoldable(Exception):
    pass


class _Return(Exception):
    def __init__(self, v):
        self.v = v


_OK_TYPES = (str, int, bool, type(None), list, tuple, dict)


class Folder:
    def __init__(self, ix: Index, max_steps: int = 3_000_000):
        self.ix = ix
        self.cache: Dict[str, object] = {}
        self.max_steps = max_steps
        self.steps = 0

    # ----------------------------------------------------------------- public
    def call(self, func: Func, args: Optional[list] = None, kwargs: Optional[dict] = None):
        key = None
        if not args and not kwargs:
            key = func.qualname
            if key in self.cache:
                return _copy(self.cache[key])
        env: Dict[str, object] = {}
        params = [p.arg for p in func.node.args.args]
        defaults = func.param_defaults()
        for p, a in zip(params, args or []):
            env[p] = a
        for k, v in (kwargs or {}).items():
            env[k] = v
        for p in params:
            if p not in env:
                if p in defaults:
                    env[p] = self.ev(defaults[p], {}, func)
                else:
                    raise NotFoldable("missing argument %s of %s" % (p, func.name))
        try:
            self.block(body_wo_doc(func.node), env, func)
            v = None
        except _Return as r:
            v = r.v
        if key is not None:
            self.cache[key] = _copy(v)
        return v

    def fold_names(self, qualname: str) -> List[str]:
        f = self.ix.funcs.get(qualname)
        if f is None:
            raise NotFoldable("no function %s" % qualname)
        v = self.call(f)
        if not isinstance(v, (list, tuple)) or not all(isinstance(x, str) for x in v):
            raise NotFoldable("%s does not fold to a list of strings" % qualname)
        return list(v)

    # ------------------------------------------------------------- statements
    def tick(self):
        self.steps += 1
        if self.steps > self.max_steps:
            raise NotFoldable("step limit")

    def block(self, stmts, env, func):
        for st in stmts:
            self.stmt(st, env, func)

    def stmt(self, st, env, func):
        self.tick()
        if isinstance(st, ast.Assign):
            v = self.ev(st.value, env, func)
            for t in st.targets:
                self.assign(t, v, env)
        elif isinstance(st, ast.AnnAssign) and st.value is not None:
            self.assign(st.target, self.ev(st.value, env, func), env)
        elif isinstance(st, ast.AugAssign) and isinstance(st.op, ast.Add) and isinstance(st.target, ast.Name):
            cur = env[st.target.id] if st.target.id in env else None
            v = self.ev(st.value, env, func)
            if isinstance(cur, list) and isinstance(v, (list, tuple)):
                cur.extend(v)
            elif isinstance(cur, str) and isinstance(v, str):
                env[st.target.id] = cur + v
            elif isinstance(cur, int) and isinstance(v, int):
                env[st.target.id] = cur + v
            else:
                raise NotFoldable("+= on %s" % type(cur).__name__)
        elif isinstance(st, ast.Expr):
            if isinstance(st.value, ast.Constant):
                return
            self.ev(st.value, env, func)
        elif isinstance(st, ast.Return):
            raise _Return(self.ev(st.value, env, func) if st.value is not None else None)
        elif isinstance(st, ast.If):
            if self.truth(self.ev(st.test, env, func)):
                self.block(st.body, env, func)
            else:
                self.block(st.orelse, env, func)
        elif isinstance(st, ast.For):
            it = self.ev(st.iter, env, func)
            if not isinstance(it, (list, tuple, str)):
                raise NotFoldable("for over %s" % type(it).__name__)
            for x in list(it):
                self.assign(st.target, x, env)
                self.block(st.body, env, func)
        elif isinstance(st, ast.Pass):
            return
        elif isinstance(st, ast.Raise):
            raise NotFoldable("raise reached")
        else:
            raise NotFoldable("statement %s" % type(st).__name__)

    def assign(self, t, v, env):
        if isinstance(t, ast.Name):
            env[t.id] = v
        elif isinstance(t, (ast.Tuple, ast.List)):
            if not isinstance(v, (list, tuple)) or len(v) != len(t.elts):
                raise NotFoldable("unpack")
            for a, b in zip(t.elts, v):
                self.assign(a, b, env)
        else:
            raise NotFoldable("assignment target")

    @staticmethod
    def truth(v):
        if isinstance(v, _OK_TYPES):
            return bool(v)
        raise NotFoldable("truthiness")

    # ------------------------------------------------------------ expressions
    def ev(self, e, env, func):
        self.tick()
        if isinstance(e, ast.Constant):
            if isinstance(e.value, (str, int, bool, type(None))):
                return e.value
            raise NotFoldable("numeric constant")
        if isinstance(e, ast.Name):
            if e.id in env:
                return env[e.id]
            raise NotFoldable("free name %s" % e.id)
        if isinstance(e, ast.List):
            return [self.ev(x, env, func) for x in e.elts]
        if isinstance(e, ast.Tuple):
            return tuple(self.ev(x, env, func) for x in e.elts)
        if isinstance(e, ast.Dict):
            return {self.ev(k, env, func): self.ev(v, env, func) for k, v in zip(e.keys, e.values)}
        if isinstance(e, ast.JoinedStr):
            out = ""
            for v in e.values:
                if isinstance(v, ast.Constant):
                    out += str(v.value)
                elif isinstance(v, ast.FormattedValue) and v.format_spec is None:
                    out += str(self.ev(v.value, env, func))
                else:
                    raise NotFoldable("format spec")
            return out
        if isinstance(e, ast.BinOp) and isinstance(e.op, ast.Add):
            l, r = self.ev(e.left, env, func), self.ev(e.right, env, func)
            if isinstance(l, str) and isinstance(r, str):
                return l + r
            if isinstance(l, list) and isinstance(r, list):
                return l + r
            if isinstance(l, tuple) and isinstance(r, tuple):
                return l + r
            if isinstance(l, int) and isinstance(r, int) and not isinstance(l, bool):
                return l + r
            raise NotFoldable("+ on %s/%s" % (type(l).__name__, type(r).__name__))
        if isinstance(e, ast.BinOp) and isinstance(e.op, ast.Mult):
            l, r = self.ev(e.left, env, func), self.ev(e.right, env, func)
            if isinstance(l, (str, list)) and isinstance(r, int):
                return l * r
            raise NotFoldable("*")
        if isinstance(e, ast.Subscript):
            v = self.ev(e.value, env, func)
            if isinstance(e.slice, ast.Slice):
                lo = self.ev(e.slice.lower, env, func) if e.slice.lower else None
                hi = self.ev(e.slice.upper, env, func) if e.slice.upper else None
                if isinstance(v, (list, tuple, str)):
                    return v[lo:hi]
            else:
                i = self.ev(e.slice, env, func)
                if isinstance(v, (list, tuple, str)) and isinstance(i, int):
                    return v[i]
                if isinstance(v, dict):
                    return v[i]
            raise NotFoldable("subscript")
        if isinstance(e, ast.Compare) and len(e.ops) == 1:
            l, r = self.ev(e.left, env, func), self.ev(e.comparators[0], env, func)
            op = e.ops[0]
            if isinstance(op, ast.Eq):
                return l == r
            if isinstance(op, ast.NotEq):
                return l != r
            if isinstance(op, ast.In):
                return l in r
            if isinstance(op, ast.NotIn):
                return l not in r
            if isinstance(op, ast.Is):
                return l is r
            if isinstance(op, ast.IsNot):
                return l is not r
            raise NotFoldable("comparison")
        if isinstance(e, ast.BoolOp):
            vals = [self.truth(self.ev(v, env, func)) for v in e.values]
            return all(vals) if isinstance(e.op, ast.And) else any(vals)
        if isinstance(e, ast.UnaryOp) and isinstance(e.op, ast.Not):
            return not self.truth(self.ev(e.operand, env, func))
        if isinstance(e, ast.IfExp):
            return self.ev(e.body if self.truth(self.ev(e.test, env, func)) else e.orelse, env, func)
        if isinstance(e, (ast.ListComp, ast.GeneratorExp)):
            out = []
            self._comp(e.elt, e.generators, 0, dict(env), func, out)
            return out
        if isinstance(e, ast.Call):
            return self.evcall(e, env, func)
        raise NotFoldable("expression %s" % type(e).__name__)

    def _comp(self, elt, gens, i, env, func, out):
        if i == len(gens):
            out.append(self.ev(elt, env, func))
            return
        g = gens[i]
        it = self.ev(g.iter, env, func)
        if not isinstance(it, (list, tuple, str)):
            raise NotFoldable("comprehension over %s" % type(it).__name__)
        for x in list(it):
            self.assign(g.target, x, env)
            if all(self.truth(self.ev(c, env, func)) for c in g.ifs):
                self._comp(elt, gens, i + 1, env, func, out)

    def evcall(self, e: ast.Call, env, func):
        fn = e.func
        dn = dotted(fn) or ""
        args = [self.ev(a, env, func) for a in e.args]
        kwargs = {k.arg: self.ev(k.value, env, func) for k in e.keywords if k.arg}
        # methods on folded values
        if isinstance(fn, ast.Attribute) and not (isinstance(fn.value, ast.Name) and fn.value.id not in env):
            try:
                recv = self.ev(fn.value, env, func)
            except NotFoldable:
                recv = None
            else:
                m = fn.attr
                if isinstance(recv, list):
                    if m == "append" and len(args) == 1:
                        recv.append(args[0])
                        return None
                    if m == "extend" and len(args) == 1 and isinstance(args[0], (list, tuple)):
                        recv.extend(args[0])
                        return None
                    if m == "remove" and len(args) == 1:
                        recv.remove(args[0])
                        return None
                    if m == "copy":
                        return list(recv)
                    if m == "index" and len(args) == 1:
                        return recv.index(args[0])
                if isinstance(recv, str):
                    if m == "join" and len(args) == 1 and isinstance(args[0], (list, tuple)):
                        return recv.join(args[0])
                    if m in ("replace", "split", "startswith", "endswith", "lower", "upper", "strip", "format", "count"):
                        return getattr(recv, m)(*args)
                if isinstance(recv, dict) and m in ("keys", "values", "items", "get"):
                    r = getattr(recv, m)(*args)
                    return list(r) if m != "get" else r
                raise NotFoldable("method %s on %s" % (m, type(recv).__name__))
        base = dn.split(".")[-1]
        if dn in ("product", "itertools.product"):
            rep = kwargs.get("repeat", 1)
            if all(isinstance(a, (list, tuple, str)) for a in args) and isinstance(rep, int):
                return [tuple(x) for x in itertools.product(*args, repeat=rep)]
        if dn == "list" and len(args) <= 1:
            return list(args[0]) if args else []
        if dn == "tuple" and len(args) == 1:
            return tuple(args[0])
        if dn == "len" and len(args) == 1:
            return len(args[0])
        if dn == "str" and len(args) == 1 and isinstance(args[0], (str, int)):
            return str(args[0])
        if dn == "range" and all(isinstance(a, int) for a in args):
            return list(range(*args))
        if dn == "sorted" and len(args) == 1:
            return sorted(args[0])
        if dn == "set" and len(args) == 1:
            return sorted(set(args[0]))
        if dn in ("copy.copy", "copy.deepcopy") and len(args) == 1:
            return _copy(args[0])
        if dn == "dict":
            return dict(kwargs)
        t = self.ix.resolve_expr(func.module, fn, func)
        if isinstance(t, Func) and t.kind in ("function", "static"):
            return self.call(t, args, kwargs)
        raise NotFoldable("call %s" % (dn or unparse(fn)))


def _copy(v):
    if isinstance(v, list):
        return [_copy(x) for x in v]
    if isinstance(v, dict):
        return {k: _copy(x) for k, x in v.items()}
    return v
