"""Semantics-preserving normalisation of the analysed program: private helpers are inlined.

A maintainer who extracts a block into a `_private` helper (or a nested function), or merges two
copies of a block into one helper, does not change what the program computes - but a rule that
looks for the block inside the original function no longer finds it.  Instead of teaching every
rule about every possible helper, a check that could not *decide* an obligation re-runs on a copy
of the repository in which such helpers are inlined back into their callers, statement by
statement.  Inlining is semantics-preserving (see the restrictions below), so an obligation
discharged on the normalised program is discharged for the original; an obligation that is
violated there is a violation of the original too.

What is inlined: calls `h(...)`, `self.h(...)`, `Class.h(...)` that form a whole statement
(`h(...)`, `x = h(...)`, `return h(...)`, `x += h(...)`), or the iterable of a `for` loop when
`h` is a generator, where `h`
  * is private: a nested function of the caller, or a module-level function / method of the same
    class whose name starts with one underscore;
  * is not an *anchor* (a function name the rules themselves refer to - those are analysed in place);
  * has no *args / **kwargs, no decorators other than @staticmethod, no nested definitions,
    no global / nonlocal, does not call itself;
  * returns only at tail positions, possibly after guard clauses (`if c: return X` followed by
    more code is rewritten to if/else), never from inside a loop / try / with.
Arguments that are plain names, attribute chains, constants or subscripts of those are substituted
for the parameters (when the parameter is never re-bound in the helper); other arguments are bound
to fresh locals first, in call order, so evaluation order and count are preserved.  The helper's
locals are renamed apart from the caller's, except that a helper ending in `return r` that is
called as `x = h(...)` keeps writing its result variable as `x`.
"""
from __future__ import annotations

import ast
import copy
import os
import re
from typing import Dict, List, Optional, Set, Tuple


def anchors_from_rules(verif_dir: str) -> Set[str]:
    """identifiers that occur inside string constants of the rule / engine modules"""
    out: Set[str] = set()
    for sub in ("qsa/rules", "qsa"):
        d = os.path.join(verif_dir, sub)
        if not os.path.isdir(d):
            continue
        for fn in os.listdir(d):
            if not fn.endswith(".py"):
                continue
            try:
                tree = ast.parse(open(os.path.join(d, fn), encoding="utf-8").read())
            except SyntaxError:
                continue
            for n in ast.walk(tree):
                if isinstance(n, ast.Constant) and isinstance(n.value, str):
                    out.update(re.findall(r"[A-Za-z_][A-Za-z0-9_]*", n.value))
    return out


# ------------------------------------------------------------------------------------------------
class NotInlinable(Exception):
    pass


def _is_simple(e: ast.AST) -> bool:
    if isinstance(e, (ast.Name, ast.Constant)):
        return True
    if isinstance(e, ast.Attribute):
        return _is_simple(e.value)
    if isinstance(e, ast.Subscript):
        return _is_simple(e.value) and _is_simple(e.slice)
    if isinstance(e, ast.UnaryOp) and isinstance(e.op, ast.USub):
        return _is_simple(e.operand)
    if isinstance(e, ast.Tuple):
        return all(_is_simple(x) for x in e.elts)
    return False


def _doc_stripped(body):
    b = list(body)
    if b and isinstance(b[0], ast.Expr) and isinstance(b[0].value, ast.Constant) and isinstance(b[0].value.value, str):
        b = b[1:]
    return b


def _contains_return(stmts) -> bool:
    for s in stmts:
        for n in ast.walk(s):
            if isinstance(n, ast.Return):
                return True
    return False


def _tailify(stmts: List[ast.stmt]) -> List[ast.stmt]:
    """rewrite guard clauses so that every `return` is in tail position; raise NotInlinable otherwise"""
    out: List[ast.stmt] = []
    for i, s in enumerate(stmts):
        rest = stmts[i + 1:]
        if isinstance(s, ast.Return):
            out.append(s)
            return out                      # anything after a return is dead
        if isinstance(s, ast.If):
            body_r, else_r = _contains_return(s.body), _contains_return(s.orelse)
            if not body_r and not else_r:
                out.append(s)
                continue
            body_ends = _always_returns(s.body)
            else_ends = _always_returns(s.orelse) if s.orelse else False
            if rest:
                if body_ends and not else_r:
                    # guard clause: the remainder of the block is the else branch
                    new = ast.If(test=s.test, body=_tailify(list(s.body)), orelse=_tailify(list(s.orelse) + rest))
                    out.append(new)
                    return out
                if else_ends and not body_r:
                    new = ast.If(test=s.test, body=_tailify(list(s.body) + rest), orelse=_tailify(list(s.orelse)))
                    out.append(new)
                    return out
                if body_ends and else_ends:
                    out.append(ast.If(test=s.test, body=_tailify(list(s.body)), orelse=_tailify(list(s.orelse))))
                    return out
                # some paths through the branches return and others fall through to the rest of the block: the (short) rest is
                # duplicated into both branches so that every return ends up in tail position
                if len(rest) <= 3 and not any(isinstance(n, (ast.For, ast.While, ast.Try, ast.With)) for r_ in rest for n in ast.walk(r_)):
                    b1 = list(s.body) if body_ends else list(s.body) + [copy.deepcopy(r_) for r_ in rest]
                    b2 = list(s.orelse) if else_ends else list(s.orelse) + [copy.deepcopy(r_) for r_ in rest]
                    out.append(ast.If(test=s.test, body=_tailify(b1), orelse=_tailify(b2)))
                    return out
                raise NotInlinable("return in a branch that does not end the function")
            out.append(ast.If(test=s.test, body=_tailify(list(s.body)), orelse=_tailify(list(s.orelse)) if s.orelse else []))
            return out
        if _contains_return([s]):
            raise NotInlinable("return inside %s" % type(s).__name__)
        out.append(s)
    return out


def _always_returns(stmts) -> bool:
    if not stmts:
        return False
    last = stmts[-1]
    if isinstance(last, (ast.Return, ast.Raise)):
        return True
    if isinstance(last, ast.If):
        return bool(last.orelse) and _always_returns(last.body) and _always_returns(last.orelse)
    return False


class _Rename(ast.NodeTransformer):
    def __init__(self, names: Dict[str, str], subst: Dict[str, ast.AST]):
        self.names, self.subst = names, subst

    def visit_Name(self, n):
        if n.id in self.subst and isinstance(n.ctx, ast.Load):
            return copy.deepcopy(self.subst[n.id])
        if n.id in self.names:
            return ast.copy_location(ast.Name(id=self.names[n.id], ctx=n.ctx), n)
        return n

    def visit_arg(self, n):
        return n


def _assigned_names(stmts) -> Set[str]:
    out = set()
    for s in stmts:
        for n in ast.walk(s):
            if isinstance(n, ast.Name) and isinstance(n.ctx, (ast.Store, ast.Del)):
                out.add(n.id)
            elif isinstance(n, ast.ExceptHandler) and n.name:
                out.add(n.name)
    return out


def _used_names(node) -> Set[str]:
    return {n.id for n in ast.walk(node) if isinstance(n, ast.Name)}


class ModuleInliner:
    def __init__(self, tree: ast.Module, anchors: Set[str]):
        self.tree = tree
        self.anchors = anchors
        self.mod_funcs: Dict[str, ast.FunctionDef] = {s.name: s for s in tree.body if isinstance(s, ast.FunctionDef)}
        self.classes: Dict[str, ast.ClassDef] = {s.name: s for s in tree.body if isinstance(s, ast.ClassDef)}
        self.counter = 0
        self.inlined = 0
        self.hoisted = 0
        # rules also refer to helpers by a stem of their name ("_calc_stopping_criterion" ...)
        self.anchor_stems = [t for t in anchors if t.startswith("_") and len(t) >= 16 and not t.endswith("_")]

    # ------------------------------------------------------------------ helper eligibility
    def _eligible(self, h: ast.FunctionDef, nested: bool) -> bool:
        if h.name in self.anchors or any(h.name.startswith(tok + "_") or h.name.startswith(tok) and tok.endswith("_") for tok in self.anchor_stems):
            return False
        if not nested and not (h.name.startswith("_") and not h.name.startswith("__")):
            return False
        a = h.args
        if a.vararg or a.kwarg or a.posonlyargs:
            return False
        for d in h.decorator_list:
            if not (isinstance(d, ast.Name) and d.id == "staticmethod"):
                return False
        for n in ast.walk(h):
            if n is h:
                continue
            if isinstance(n, (ast.FunctionDef, ast.AsyncFunctionDef, ast.ClassDef, ast.Global, ast.Nonlocal, ast.Await, ast.YieldFrom)):
                return False
            if isinstance(n, ast.Call) and isinstance(n.func, ast.Name) and n.func.id == h.name:
                return False
            if isinstance(n, ast.Call) and isinstance(n.func, ast.Attribute) and n.func.attr == h.name:
                return False
        return True

    def _is_generator(self, h) -> bool:
        return any(isinstance(n, ast.Yield) for n in ast.walk(h))

    # ------------------------------------------------------------------ resolution
    def _resolve(self, call: ast.Call, caller: ast.FunctionDef, cls: Optional[ast.ClassDef], nested: Dict[str, ast.FunctionDef]):
        """(helper def, implicit self expression or None)"""
        fn = call.func
        if isinstance(fn, ast.Name):
            if fn.id in nested:
                return nested[fn.id], None, True
            h = self.mod_funcs.get(fn.id)
            if h is not None:
                return h, None, False
            return None
        if isinstance(fn, ast.Attribute) and isinstance(fn.value, ast.Name) and cls is not None:
            selfname = caller.args.args[0].arg if caller.args.args else None
            static_caller = any(isinstance(d, ast.Name) and d.id in ("staticmethod",) for d in caller.decorator_list)
            methods = {s.name: s for s in cls.body if isinstance(s, ast.FunctionDef)}
            h = methods.get(fn.attr)
            if h is None:
                return None
            is_static = any(isinstance(d, ast.Name) and d.id == "staticmethod" for d in h.decorator_list)
            if fn.value.id == cls.name and is_static:
                return h, None, False
            if not static_caller and selfname and fn.value.id == selfname:
                return h, (None if is_static else ast.Name(id=selfname, ctx=ast.Load())), False
        return None

    # ------------------------------------------------------------------ binding
    def _bind(self, call: ast.Call, h: ast.FunctionDef, self_expr):
        if any(isinstance(a, ast.Starred) for a in call.args) or any(k.arg is None for k in call.keywords):
            raise NotInlinable("star arguments")
        params = [a.arg for a in h.args.args]
        kwonly = [a.arg for a in h.args.kwonlyargs]
        bound: Dict[str, ast.AST] = {}
        order: List[str] = []
        pos = list(params)
        if self_expr is not None:
            if not pos:
                raise NotInlinable("method without self")
            bound[pos[0]] = self_expr
            order.append(pos[0])
            pos = pos[1:]
        if len(call.args) > len(pos):
            raise NotInlinable("too many positional arguments")
        for p, a in zip(pos, call.args):
            bound[p] = a
            order.append(p)
        for k in call.keywords:
            if k.arg in bound or (k.arg not in params and k.arg not in kwonly):
                raise NotInlinable("keyword %s" % k.arg)
            bound[k.arg] = k.value
            order.append(k.arg)
        defaults = dict(zip(params[len(params) - len(h.args.defaults):], h.args.defaults))
        for p, dv in zip(kwonly, h.args.kw_defaults):
            if dv is not None:
                defaults[p] = dv
        for p in params + kwonly:
            if p not in bound:
                if p not in defaults:
                    raise NotInlinable("missing argument %s" % p)
                bound[p] = defaults[p]
                order.append(p)
        return bound, order

    # ------------------------------------------------------------------ the splice
    def _instantiate(self, call: ast.Call, h: ast.FunctionDef, self_expr, caller_names: Set[str], result_name: Optional[str],
                     result_tuple=None, caller_defs=None):
        caller_defs = caller_defs or {}
        """(prefix statements, body statements in tail form) for one call"""
        bound, order = self._bind(call, h, self_expr)
        body = _tailify([copy.deepcopy(s) for s in _doc_stripped(h.body)])
        assigned = _assigned_names(body)
        self.counter += 1
        tag = "__inl%d" % self.counter
        subst: Dict[str, ast.AST] = {}
        names: Dict[str, str] = {}
        prefix: List[ast.stmt] = []
        for p in order:
            a = bound[p]
            if _is_simple(a) and p not in assigned and not (_used_names(a) & assigned):
                subst[p] = a
            else:
                tmp = p + tag
                names[p] = tmp
                prefix.append(ast.Assign(targets=[ast.Name(id=tmp, ctx=ast.Store())], value=copy.deepcopy(a)))
        # result variable: `x = h(...)` with `return r` (r a local of h) keeps writing x
        tails = [n for s in body for n in ast.walk(s) if isinstance(n, ast.Return)]
        ret_names = {n.value.id for n in tails if isinstance(n.value, ast.Name)}
        if result_name and len(ret_names) == 1 and all(isinstance(n.value, ast.Name) for n in tails):
            r = next(iter(ret_names))
            if r in assigned and r not in subst and r not in names:
                names[r] = result_name
        # `a, b = h(...)` with `return (r1, r2)`: the helper keeps writing its results as a, b
        if result_tuple and tails and all(isinstance(n.value, ast.Tuple) and len(n.value.elts) == len(result_tuple) for n in tails):
            # position by position: a component that every tail returns as the same helper local keeps the caller's name for it
            taken = set(names.values())
            for i, x in enumerate(result_tuple):
                if x == "_":
                    continue
                col = {n.value.elts[i].id if isinstance(n.value.elts[i], ast.Name) else None for n in tails}
                if len(col) != 1 or None in col:
                    continue
                r = next(iter(col))
                if r in assigned and r not in subst and r not in names and x not in taken and (x == r or x not in assigned):
                    names[r] = x
                    taken.add(x)
        for nm in sorted(assigned):
            if nm in names or nm in subst:
                continue
            if nm in caller_names and not self._same_definition(nm, body, subst, caller_defs):
                names[nm] = nm + tag
        ren = _Rename(names, subst)
        body = [ren.visit(s) for s in body]
        return prefix, body

    @staticmethod
    def _same_definition(nm, body, subst, caller_defs) -> bool:
        """the helper binds `nm` exactly once, by a plain assignment whose right-hand side (after parameter substitution) is textually
        the one the caller uses for the same name: re-binding it is harmless and keeps the caller's vocabulary"""
        mine = [s for s in body for n in ast.walk(s) if isinstance(n, ast.Assign) and n is s and len(n.targets) == 1
                and isinstance(n.targets[0], ast.Name) and n.targets[0].id == nm]
        all_bind = [n for s in body for n in ast.walk(s) if isinstance(n, ast.Name) and n.id == nm and isinstance(n.ctx, ast.Store)]
        if len(mine) != 1 or len(all_bind) != 1 or nm not in caller_defs:
            return False
        v = _Rename({}, subst).visit(copy.deepcopy(mine[0].value))
        return ast.dump(v) == ast.dump(caller_defs[nm])

    def _replace_returns(self, stmts: List[ast.stmt], cont) -> List[ast.stmt]:
        out = []
        for s in stmts:
            if isinstance(s, ast.Return):
                out.extend(cont(s.value))
            elif isinstance(s, ast.If):
                out.append(ast.If(test=s.test, body=self._replace_returns(s.body, cont) or [ast.Pass()],
                                  orelse=self._replace_returns(s.orelse, cont)))
            else:
                out.append(s)
        return out

    def _falls_through(self, stmts) -> bool:
        return not _always_returns(stmts)

    def _try_stmt(self, st: ast.stmt, caller, cls, nested, caller_names) -> Optional[List[ast.stmt]]:
        call = None
        kind = None
        if isinstance(st, ast.Expr) and isinstance(st.value, ast.Call):
            call, kind = st.value, "expr"
        elif isinstance(st, ast.Assign) and isinstance(st.value, ast.Call):
            call, kind = st.value, "assign"
        elif isinstance(st, ast.AnnAssign) and isinstance(st.value, ast.Call) and isinstance(st.target, ast.Name):
            call, kind = st.value, "annassign"
        elif isinstance(st, ast.Return) and isinstance(st.value, ast.Call):
            call, kind = st.value, "return"
        elif isinstance(st, ast.AugAssign) and isinstance(st.value, ast.Call):
            call, kind = st.value, "augassign"
        if call is None:
            return None
        r = self._resolve(call, caller, cls, nested)
        if r is None:
            return None
        h, self_expr, is_nested = r
        if h is caller or not self._eligible(h, is_nested) or self._is_generator(h):
            return None
        result_name = None
        result_tuple = None
        if kind == "assign" and len(st.targets) == 1 and isinstance(st.targets[0], ast.Name):
            result_name = st.targets[0].id
        if kind == "assign" and len(st.targets) == 1 and isinstance(st.targets[0], ast.Tuple) and all(isinstance(x, ast.Name) for x in st.targets[0].elts):
            result_tuple = [x.id for x in st.targets[0].elts]
        caller_defs = {}
        for n_ in ast.walk(caller):
            if isinstance(n_, ast.Assign) and len(n_.targets) == 1 and isinstance(n_.targets[0], ast.Name):
                caller_defs.setdefault(n_.targets[0].id, n_.value)
        try:
            prefix, body = self._instantiate(call, h, self_expr, caller_names, result_name, result_tuple, caller_defs)
        except NotInlinable:
            return None

        def cont(value):
            v = value if value is not None else ast.Constant(value=None)
            if kind == "expr":
                return [] if isinstance(v, (ast.Name, ast.Constant)) else [ast.Expr(value=v)]
            if kind == "assign":
                if result_name and isinstance(v, ast.Name) and v.id == result_name:
                    return []
                if result_tuple and isinstance(v, ast.Tuple) and [getattr(x, "id", None) for x in v.elts] == result_tuple:
                    return []
                return [ast.Assign(targets=copy.deepcopy(st.targets), value=v)]
            if kind == "annassign":
                return [ast.Assign(targets=[copy.deepcopy(st.target)], value=v)]
            if kind == "return":
                return [ast.Return(value=v)]
            return [ast.AugAssign(target=copy.deepcopy(st.target), op=st.op, value=v)]
        new = self._replace_returns(body, cont)
        if self._falls_through(body):
            # a path that reaches the end of the helper returns None
            if kind in ("assign", "annassign", "return", "augassign"):
                tail_none = cont(None)
                # only add when some path really falls off the end: conservative - helpers used for their value must return on all paths
                if not _contains_return(body):
                    new = new + tail_none
                else:
                    return None
        self.inlined += 1
        out = prefix + new
        for s in out:
            ast.copy_location(s, st)
            ast.fix_missing_locations(s)
        return out or [ast.copy_location(ast.Pass(), st)]

    def _try_for(self, st: ast.For, caller, cls, nested, caller_names) -> Optional[List[ast.stmt]]:
        if not isinstance(st.iter, ast.Call) or st.orelse:
            return None
        r = self._resolve(st.iter, caller, cls, nested)
        if r is None:
            return None
        h, self_expr, is_nested = r
        if h is caller or not self._eligible(h, is_nested) or not self._is_generator(h):
            return None
        yields = [n for n in ast.walk(h) if isinstance(n, ast.Yield)]
        if len(yields) != 1 or _contains_return(h.body):
            return None
        if any(isinstance(n, (ast.Break, ast.Continue)) for s in st.body for n in ast.walk(s)):
            return None
        try:
            bound, order = self._bind(st.iter, h, self_expr)
        except NotInlinable:
            return None
        body = [copy.deepcopy(s) for s in _doc_stripped(h.body)]
        assigned = _assigned_names(body)
        self.counter += 1
        tag = "__inl%d" % self.counter
        subst, names, prefix = {}, {}, []
        for p in order:
            a = bound[p]
            if _is_simple(a) and p not in assigned and not (_used_names(a) & assigned):
                subst[p] = a
            else:
                names[p] = p + tag
                prefix.append(ast.Assign(targets=[ast.Name(id=p + tag, ctx=ast.Store())], value=copy.deepcopy(a)))
        target_names = {n.id for n in ast.walk(st.target) if isinstance(n, ast.Name)}
        for nm in sorted(assigned):
            if nm not in names and nm not in subst and nm in caller_names and nm not in target_names:
                names[nm] = nm + tag
        ren = _Rename(names, subst)
        body = [ren.visit(s) for s in body]

        class Y(ast.NodeTransformer):
            def __init__(self, outer):
                self.outer = outer
                self.ok = True

            def visit_Expr(self, n):
                if isinstance(n.value, ast.Yield):
                    v = n.value.value if n.value.value is not None else ast.Constant(value=None)
                    return [ast.Assign(targets=[copy.deepcopy(st.target)], value=v)] + [copy.deepcopy(x) for x in st.body]
                return n

            def visit_Yield(self, n):
                self.ok = False
                return n
        y = Y(self)
        new = []
        for s in body:
            r2 = y.visit(s)
            new.extend(r2 if isinstance(r2, list) else [r2])
        if not y.ok:
            return None
        self.inlined += 1
        out = prefix + new
        for s in out:
            ast.copy_location(s, st)
            ast.fix_missing_locations(s)
        return out

    # ------------------------------------------------------------------ hoisting of helper calls inside expressions
    def _hoist(self, st: ast.stmt, caller, cls, nested, caller_names) -> Optional[List[ast.stmt]]:
        """`f(a, h(x))` -> `t = h(x); f(a, t)` when nothing that could have an effect is evaluated before h(x) in the statement."""
        if isinstance(st, (ast.Expr, ast.Return)) and st.value is not None:
            field = "value"
        elif isinstance(st, ast.Assign):
            field = "value"
        elif isinstance(st, ast.AugAssign) and isinstance(st.target, ast.Name):
            field = "value"
        elif isinstance(st, ast.If):
            field = "test"
        elif isinstance(st, ast.For) and not st.orelse:
            field = "iter"
        else:
            return None
        root = getattr(st, field)
        if isinstance(root, ast.Call) and field == "value" and self._candidate(root, caller, cls, nested) is not None:
            return None     # a whole-statement call: handled by _try_stmt
        if isinstance(root, ast.Call) and field == "iter" and self._candidate(root, caller, cls, nested) is not None \
                and self._is_generator(self._candidate(root, caller, cls, nested)):
            return None
        found = []

        def scan(e) -> str:
            """'pure' | 'found' | 'stop' in evaluation order"""
            if isinstance(e, (ast.Name, ast.Constant)):
                return "pure"
            if isinstance(e, ast.Attribute):
                return scan(e.value)
            if isinstance(e, ast.Starred):
                return scan(e.value)
            if isinstance(e, ast.Subscript):
                r = scan(e.value)
                return r if r != "pure" else scan(e.slice)
            if isinstance(e, ast.Slice):
                for x in (e.lower, e.upper, e.step):
                    if x is not None:
                        r = scan(x)
                        if r != "pure":
                            return r
                return "pure"
            if isinstance(e, ast.UnaryOp):
                return scan(e.operand)
            if isinstance(e, ast.BinOp):
                r = scan(e.left)
                return r if r != "pure" else scan(e.right)
            if isinstance(e, ast.Compare) and len(e.comparators) == 1:
                r = scan(e.left)
                return r if r != "pure" else scan(e.comparators[0])
            if isinstance(e, (ast.Tuple, ast.List, ast.Set)):
                for x in e.elts:
                    r = scan(x)
                    if r != "pure":
                        return r
                return "pure"
            if isinstance(e, ast.JoinedStr):
                for x in e.values:
                    r = scan(x)
                    if r != "pure":
                        return r
                return "pure"
            if isinstance(e, ast.FormattedValue):
                return scan(e.value)
            if isinstance(e, ast.Call):
                h = self._candidate(e, caller, cls, nested)
                r = scan(e.func)
                if r != "pure":
                    return r
                if h is not None and not self._is_generator(h):
                    found.append(e)
                    return "found"
                for a in e.args:
                    r = scan(a)
                    if r != "pure":
                        return r
                for k in e.keywords:
                    r = scan(k.value)
                    if r != "pure":
                        return r
                return "stop"       # the call itself may have effects: nothing after it can be moved in front of it
            if isinstance(e, (ast.BoolOp,)):
                r = scan(e.values[0])
                return r if r == "found" else "stop"
            if isinstance(e, ast.IfExp):
                r = scan(e.test)
                return r if r == "found" else "stop"
            return "stop"
        if scan(root) != "found":
            return None
        call = found[0]
        h = self._candidate(call, caller, cls, nested)
        # name of the temporary: the helper's own result variable when the caller does not use that name
        tails = [n for n in ast.walk(h) if isinstance(n, ast.Return)]
        rn = {n.value.id for n in tails if isinstance(n.value, ast.Name)}
        tmp = None
        if tails and len(rn) == 1 and all(isinstance(n.value, ast.Name) for n in tails):
            r = next(iter(rn))
            if r not in caller_names and r not in {a.arg for a in h.args.args}:
                tmp = r
        if tmp is None:
            self.counter += 1
            tmp = "v_%s__%d" % (h.name.lstrip("_"), self.counter)

        class Rep(ast.NodeTransformer):
            def visit_Call(self, n):
                if n is call:
                    return ast.copy_location(ast.Name(id=tmp, ctx=ast.Load()), n)
                return self.generic_visit(n)
        pre = ast.Assign(targets=[ast.Name(id=tmp, ctx=ast.Store())], value=call)
        ast.copy_location(pre, st)
        setattr(st, field, Rep().visit(root))
        ast.fix_missing_locations(pre)
        ast.fix_missing_locations(st)
        self.hoisted += 1
        return [pre, st]

    def _candidate(self, call: ast.Call, caller, cls, nested):
        r = self._resolve(call, caller, cls, nested)
        if r is None:
            return None
        h, self_expr, is_nested = r
        if h is caller or not self._eligible(h, is_nested):
            return None
        if any(isinstance(a, ast.Starred) for a in call.args) or any(k.arg is None for k in call.keywords):
            return None
        return h

    def _block(self, stmts, caller, cls, nested, caller_names, depth):
        out = []
        for st in stmts:
            rep = None
            if depth > 0:
                hp = self._hoist(st, caller, cls, nested, caller_names)
                if hp is not None:
                    out.extend(self._block(hp, caller, cls, nested, caller_names | _assigned_names(hp), depth))
                    continue
                rep = self._try_stmt(st, caller, cls, nested, caller_names)
                if rep is None and isinstance(st, ast.For):
                    rep = self._try_for(st, caller, cls, nested, caller_names)
            if rep is not None:
                # the spliced code may itself contain helper calls
                out.extend(self._block(rep, caller, cls, nested, caller_names | _assigned_names(rep), depth - 1))
                continue
            for field in ("body", "orelse", "finalbody"):
                blk = getattr(st, field, None)
                if isinstance(blk, list) and blk and isinstance(blk[0], ast.stmt) and not isinstance(st, (ast.FunctionDef, ast.AsyncFunctionDef, ast.ClassDef)):
                    setattr(st, field, self._block(blk, caller, cls, nested, caller_names, depth))
            if isinstance(st, ast.Try):
                for hd in st.handlers:
                    hd.body = self._block(hd.body, caller, cls, nested, caller_names, depth)
            out.append(st)
        return out

    def _function(self, f: ast.FunctionDef, cls: Optional[ast.ClassDef], outer_nested: Dict[str, ast.FunctionDef]):
        nested = dict(outer_nested)
        for s in f.body:
            if isinstance(s, ast.FunctionDef):
                nested[s.name] = s
        for s in f.body:
            if isinstance(s, ast.FunctionDef):
                self._function(s, cls, nested)
        names = _used_names(f) | {a.arg for a in f.args.args + f.args.kwonlyargs}
        f.body = self._block(f.body, f, cls, nested, names, depth=3)

    def run(self) -> ast.Module:
        for s in self.tree.body:
            if isinstance(s, ast.FunctionDef):
                self._function(s, None, {})
            elif isinstance(s, ast.ClassDef):
                for m in s.body:
                    if isinstance(m, ast.FunctionDef):
                        self._function(m, s, {})
        ast.fix_missing_locations(self.tree)
        return self.tree


# ------------------------------------------------------------------------------------------------
class DeRename:
    """Renaming a local variable never changes behaviour, so a rule may be asked about ANY alpha-variant of a function.  The
    rules speak about some locals by the names the library uses today (x_next, error_value, tmp_values ...); when a maintainer
    renames such a local, this pass proposes the rule vocabulary's closest unused name for every local the vocabulary does not
    know (token containment / string similarity, best match must be clear), and renames consistently inside the function.
    A wrong guess is harmless: the rule is then as undecided as before, and only a result in which every obligation HOLDS is
    ever adopted from a normal form."""

    def __init__(self, vocabulary: Set[str]):
        import builtins
        import keyword
        self.vocab = {v for v in vocabulary if v.isidentifier() and not keyword.iskeyword(v) and not hasattr(builtins, v)
                      and not v.startswith("_") and v == v.lower()}
        self.renamed = 0
        self._index = None

    @staticmethod
    def _tokens(name: str):
        return [t for t in re.split(r"_+|(?<=[a-z])(?=[A-Z])", name) if t]

    def _score(self, v: str, n: str) -> float:
        from collections import Counter
        tv, tn = self._tokens(v.lower()), self._tokens(n.lower())
        if not tv or not tn:
            return 0.0
        # every token of the vocabulary name occurs in the local, at most one token is extra (x_next_rn ~ x_next, next_x ~ x_next)
        cv, cn = Counter(tv), Counter(tn)
        if all(cv[t] >= k for t, k in cn.items()) and len(tv) - len(tn) <= 1:
            return 0.8 + 0.19 * (len(tn) / len(tv))
        return 0.0

    def _candidates(self, v: str, free: Set[str]):
        """vocabulary names sharing a token with v (index built once)"""
        if self._index is None:
            self._index = {}
            for n in self.vocab:
                for t in set(self._tokens(n.lower())):
                    self._index.setdefault(t, set()).add(n)
        out = set()
        for t in set(self._tokens(v.lower())):
            out |= self._index.get(t, set())
        return [n for n in out if n in free]

    def _function(self, fn):
        params = {a.arg for a in fn.args.posonlyargs + fn.args.args + fn.args.kwonlyargs}
        if fn.args.vararg:
            params.add(fn.args.vararg.arg)
        if fn.args.kwarg:
            params.add(fn.args.kwarg.arg)
        stores, blocked, present = set(), set(), set()
        for n in ast.walk(fn):
            if isinstance(n, ast.Name):
                present.add(n.id)
            elif isinstance(n, ast.arg):
                present.add(n.arg)
        todo = list(fn.body)
        while todo:
            n = todo.pop()
            if isinstance(n, (ast.FunctionDef, ast.AsyncFunctionDef, ast.ClassDef)):
                blocked.add(n.name)
                continue
            if isinstance(n, ast.Name) and isinstance(n.ctx, (ast.Store, ast.Del)):
                stores.add(n.id)
            elif isinstance(n, (ast.Global, ast.Nonlocal)):
                blocked |= set(n.names)
            elif isinstance(n, (ast.Import, ast.ImportFrom)):
                for a in n.names:
                    blocked.add((a.asname or a.name).split(".")[0])
            elif isinstance(n, ast.ExceptHandler) and n.name:
                blocked.add(n.name)
            todo.extend(ast.iter_child_nodes(n))
        for n in ast.walk(fn):
            if n is fn:
                continue
            if isinstance(n, (ast.FunctionDef, ast.AsyncFunctionDef, ast.Lambda)):
                a = n.args
                for x in a.posonlyargs + a.args + a.kwonlyargs:
                    blocked.add(x.arg)
                if a.vararg:
                    blocked.add(a.vararg.arg)
                if a.kwarg:
                    blocked.add(a.kwarg.arg)
                if not isinstance(n, ast.Lambda):
                    for m in ast.walk(n):
                        if isinstance(m, ast.Name) and isinstance(m.ctx, ast.Store):
                            blocked.add(m.id)
                        if isinstance(m, (ast.Global, ast.Nonlocal)):
                            blocked |= set(m.names)
        role_map = self._optimiser_roles(fn, stores - params - blocked, present, getattr(self, "_cls", ""))
        if role_map:
            for n in ast.walk(fn):
                if isinstance(n, ast.Name) and n.id in role_map:
                    n.id = role_map[n.id]
            self.renamed += len(role_map)
            stores = {role_map.get(v, v) for v in stores}
            present = {role_map.get(v, v) for v in present}
        unknown = sorted(v for v in stores if v not in params and v not in blocked and v not in self.vocab and not v.startswith("__"))
        if not unknown:
            return
        free = {n for n in self.vocab if n not in present}
        proposals = []
        for v in unknown:
            scored = sorted(((self._score(v, n), n) for n in self._candidates(v, free)), reverse=True)[:2]
            if scored and scored[0][0] >= 0.84 and (len(scored) == 1 or scored[0][0] - scored[1][0] >= 0.03):
                proposals.append((scored[0][0], v, scored[0][1]))
        mapping, taken = {}, set()
        for sc, v, n in sorted(proposals, reverse=True):
            if n not in taken:
                mapping[v] = n
                taken.add(n)
        if not mapping:
            return
        for n in ast.walk(fn):
            if isinstance(n, ast.Name) and n.id in mapping:
                n.id = mapping[n.id]
        self.renamed += len(mapping)

    @staticmethod
    def _optimiser_roles(fn, locals_, present, cls_name=""):
        """Iterative optimisers (`optimize` methods): locals identified by the ROLE they play, mapped to the names the rules use.
        x_next = what the result object is built from; x_prev / x_prev_prev = what the shift block at the loop head copies it to;
        error_values / error_value = the list whose tail is summed for the stopping test and what is appended to it;
        y_prev = projected point minus the current iterate; the scalar of the gradient term (gamma / delta / mu by algorithm)."""
        if fn.name != "optimize":
            return {}
        out = {}

        def want(actual, canon):
            if actual and actual != canon and actual in locals_ and canon not in present and actual not in out and canon not in out.values():
                out[actual] = canon
        res_args = {n.args[0].id for n in ast.walk(fn) if isinstance(n, ast.Call) and isinstance(n.func, ast.Name) and n.func.id.endswith("Result")
                    and n.args and isinstance(n.args[0], ast.Name)}
        R = next(iter(res_args)) if len(res_args) == 1 else None
        want(R, "x_next")
        xn = R
        xp = None
        if xn:
            for n in ast.walk(fn):
                if isinstance(n, ast.If) and isinstance(n.test, ast.Compare) and len(n.test.ops) == 1 and isinstance(n.test.ops[0], ast.IsNot) \
                        and isinstance(n.test.left, ast.Name) and n.test.left.id == xn:
                    pairs = []
                    for a in n.body:
                        if isinstance(a, ast.Assign) and len(a.targets) == 1:
                            t, v = a.targets[0], a.value
                            if isinstance(t, ast.Name) and isinstance(v, ast.Name):
                                pairs.append((t.id, v.id))
                            elif isinstance(t, ast.Tuple) and isinstance(v, ast.Tuple) and len(t.elts) == len(v.elts):
                                pairs += [(x.id, y.id) for x, y in zip(t.elts, v.elts) if isinstance(x, ast.Name) and isinstance(y, ast.Name)]
                    for t, v in pairs:
                        if v == xn:
                            xp = t
                    for t, v in pairs:
                        if xp and v == xp:
                            want(t, "x_prev_prev")
                    want(xp, "x_prev")
        # stopping test: np.sum(E[-w:]) and E.append(v)
        for n in ast.walk(fn):
            if isinstance(n, ast.Call) and isinstance(n.func, ast.Attribute) and n.func.attr == "sum" and len(n.args) == 1 \
                    and isinstance(n.args[0], ast.Subscript) and isinstance(n.args[0].value, ast.Name) and isinstance(n.args[0].slice, ast.Slice):
                E = n.args[0].value.id
                want(E, "error_values")
                for c in ast.walk(fn):
                    if isinstance(c, ast.Call) and isinstance(c.func, ast.Attribute) and c.func.attr == "append" and isinstance(c.func.value, ast.Name) \
                            and c.func.value.id == E and len(c.args) == 1 and isinstance(c.args[0], ast.Name):
                        want(c.args[0].id, "error_value")
        # y_prev: <projection>(...) - x_prev
        cur = xp or "x_prev"
        for n in ast.walk(fn):
            if isinstance(n, ast.Assign) and len(n.targets) == 1 and isinstance(n.targets[0], ast.Name) and isinstance(n.value, ast.BinOp) \
                    and isinstance(n.value.op, ast.Sub) and isinstance(n.value.right, ast.Name) and n.value.right.id == cur \
                    and isinstance(n.value.left, ast.Call) and isinstance(n.value.left.func, ast.Attribute) and "proj" in n.value.left.func.attr:
                want(n.targets[0].id, "y_prev")
        # the scalar of the gradient term: S * grad(x) / grad(x) * S / grad(x) / S, S bound outside the loop
        canon = "gamma" if "Momentum" in cls_name else "delta" if "FastIterative" in cls_name else "mu" if "Backtracking" in cls_name else None
        if canon:
            for n in ast.walk(fn):
                if isinstance(n, ast.BinOp) and isinstance(n.op, (ast.Mult, ast.Div)):
                    for a, b in ((n.left, n.right), (n.right, n.left)):
                        if isinstance(a, ast.Name) and isinstance(b, ast.Call) and isinstance(b.func, ast.Attribute) and b.func.attr == "gradient":
                            if isinstance(n.op, ast.Div) and a is n.left:
                                continue
                            want(a.id, canon)
        return out

    def run(self, tree: ast.Module) -> ast.Module:
        # outermost functions only: nested functions are renamed together with their enclosing function
        def visit(body):
            for st in body:
                if isinstance(st, (ast.FunctionDef, ast.AsyncFunctionDef)):
                    self._function(st)
                elif isinstance(st, ast.ClassDef):
                    self._cls = st.name
                    visit(st.body)
                    self._cls = ""
        visit(tree.body)
        return tree


class SplitTupleAssign(ast.NodeTransformer):
    """`a, b = (X, Y)` -> `a = X; b = Y` when no target is read by a later right-hand side (so the simultaneous assignment and
    the sequence agree); `a = a` is dropped."""

    def __init__(self):
        self.split = 0

    def visit_Assign(self, n):
        if len(n.targets) == 1 and isinstance(n.targets[0], ast.Tuple) and isinstance(n.value, ast.Tuple) \
                and len(n.targets[0].elts) == len(n.value.elts) and all(isinstance(t, ast.Name) for t in n.targets[0].elts) \
                and not any(isinstance(v, ast.Starred) for v in n.value.elts):
            ts, vs = n.targets[0].elts, n.value.elts
            for i, t in enumerate(ts):
                for v in vs[i + 1:]:
                    if any(isinstance(x, ast.Name) and x.id == t.id for x in ast.walk(v)):
                        return n
            out = []
            for t, v in zip(ts, vs):
                if isinstance(v, ast.Name) and v.id == t.id:
                    continue
                a = ast.Assign(targets=[ast.Name(id=t.id, ctx=ast.Store())], value=v)
                ast.copy_location(a, n)
                out.append(a)
            self.split += 1
            return out or [ast.copy_location(ast.Pass(), n)]
        return n


class LoopToComprehension:
    """`L = []` ... `for t in I: L.append(E)`  ->  `L = [E for t in I]`  (also nested loops and an `if` without else around
    the append).  Sound when L is not mentioned between its binding and the loop, nor inside the loop other than as the
    receiver of that one append; the loop variables must not be used after the loop (a comprehension does not leak them)."""

    def __init__(self):
        self.rewritten = 0

    @staticmethod
    def _mentions(node, name) -> bool:
        return any(isinstance(n, ast.Name) and n.id == name for n in ast.walk(node))

    def _as_comp(self, loop: ast.For, name: str):
        gens = []
        cur = loop
        while True:
            if cur.orelse or self._mentions(cur.iter, name) or self._mentions(cur.target, name):
                return None
            g = ast.comprehension(target=copy.deepcopy(cur.target), iter=copy.deepcopy(cur.iter), ifs=[], is_async=0)
            gens.append(g)
            body = cur.body
            while len(body) == 1 and isinstance(body[0], ast.If) and not body[0].orelse:
                if self._mentions(body[0].test, name):
                    return None
                g.ifs.append(copy.deepcopy(body[0].test))
                body = body[0].body
            if len(body) == 1 and isinstance(body[0], ast.For):
                cur = body[0]
                continue
            if len(body) == 1 and isinstance(body[0], ast.Expr) and isinstance(body[0].value, ast.Call):
                c = body[0].value
                if isinstance(c.func, ast.Attribute) and c.func.attr == "append" and isinstance(c.func.value, ast.Name) and c.func.value.id == name \
                        and len(c.args) == 1 and not c.keywords and not self._mentions(c.args[0], name):
                    if any(isinstance(n, (ast.Yield, ast.YieldFrom, ast.Await, ast.NamedExpr)) for n in ast.walk(c.args[0])):
                        return None
                    return ast.ListComp(elt=copy.deepcopy(c.args[0]), generators=gens)
            return None

    def _read_outside(self, loop, names) -> bool:
        inside = {id(n) for n in ast.walk(loop)}
        for n in ast.walk(self.fn):
            if isinstance(n, ast.Name) and n.id in names and isinstance(n.ctx, ast.Load) and id(n) not in inside:
                return True
        return False

    def block(self, stmts: List[ast.stmt], after: Set[str]) -> List[ast.stmt]:
        out = list(stmts)
        i = 0
        while i < len(out):
            st = out[i]
            if isinstance(st, ast.AnnAssign) and isinstance(st.target, ast.Name) and st.simple and st.value is not None:
                # the annotation of a local is neither evaluated nor stored
                st = ast.copy_location(ast.Assign(targets=[st.target], value=st.value), st)
            if isinstance(st, ast.Assign) and len(st.targets) == 1 and isinstance(st.targets[0], ast.Name) \
                    and isinstance(st.value, ast.List) and not st.value.elts:
                name = st.targets[0].id
                j = i + 1
                while j < len(out) and not self._mentions(out[j], name):
                    j += 1
                if j < len(out) and isinstance(out[j], ast.For):
                    comp = self._as_comp(out[j], name)
                    loopvars = {n.id for n in ast.walk(out[j]) if isinstance(n, ast.Name) and isinstance(n.ctx, ast.Store)}
                    # a loop variable read anywhere else in the function could observe the value the loop left behind
                    if comp is not None and not self._read_outside(out[j], loopvars):
                        new = ast.Assign(targets=[ast.Name(id=name, ctx=ast.Store())], value=comp)
                        ast.copy_location(new, out[j])
                        ast.fix_missing_locations(new)
                        out[j] = new
                        del out[i]
                        self.rewritten += 1
                        continue
            i += 1
        # recurse into compound statements
        for k, st in enumerate(out):
            if isinstance(st, (ast.FunctionDef, ast.AsyncFunctionDef, ast.ClassDef)):
                continue
            inner_after = after
            for field in ("body", "orelse", "finalbody"):
                blk = getattr(st, field, None)
                if isinstance(blk, list) and blk and isinstance(blk[0], ast.stmt):
                    setattr(st, field, self.block(blk, inner_after))
            if isinstance(st, ast.Try):
                for hd in st.handlers:
                    hd.body = self.block(hd.body, inner_after)
        return out

    def run(self, tree: ast.Module) -> ast.Module:
        for n in ast.walk(tree):
            if isinstance(n, (ast.FunctionDef, ast.AsyncFunctionDef)):
                self.fn = n
                n.body = self.block(n.body, set())
        ast.fix_missing_locations(tree)
        return tree


def normalise_repo(src_repo: str, dst_repo: str, anchors: Set[str], package: str = "quara", comprehensions: bool = False,
                   inline: bool = True, derename: bool = False) -> Dict[str, int]:
    stats = {"files": 0, "calls_inlined": 0, "files_changed": 0, "loops_rewritten": 0, "locals_renamed": 0}
    src = os.path.join(src_repo, package)
    for root, dirs, files in os.walk(src):
        dirs[:] = [d for d in dirs if d != "__pycache__"]
        rel = os.path.relpath(root, src_repo)
        os.makedirs(os.path.join(dst_repo, rel), exist_ok=True)
        for fn in files:
            if not fn.endswith(".py"):
                continue
            p = os.path.join(root, fn)
            with open(p, "rb") as fh:
                text = fh.read().decode("utf-8", errors="replace")
            stats["files"] += 1
            try:
                tree = ast.parse(text)
                mi = ModuleInliner(tree, anchors)
                new = mi.run() if inline else tree
                lc = LoopToComprehension()
                dr = DeRename(anchors)
                if mi.inlined:
                    new = ast.fix_missing_locations(SplitTupleAssign().visit(new))
                if comprehensions:
                    new = lc.run(new)
                if derename:
                    new = dr.run(new)
                if mi.inlined or lc.rewritten or dr.renamed:
                    text = ast.unparse(new) + "\n"
                    stats["files_changed"] += 1
                    stats["calls_inlined"] += mi.inlined
                    stats["loops_rewritten"] += lc.rewritten
                    stats["locals_renamed"] += dr.renamed
            except (SyntaxError, RecursionError):
                pass
            with open(os.path.join(dst_repo, rel, fn), "w", encoding="utf-8") as fh:
                fh.write(text)
    return stats
