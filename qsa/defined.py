"""R1 - definedness and signature conformance of a function, for all inputs.

* every Name load is bound in some enclosing scope (locals, parameters, closures, module
  globals, imports, builtins);
* every `recv.attr` whose receiver class is known names a member the class has (methods,
  properties, class attributes, or an instance attribute some method of the hierarchy stores);
* every call whose callee resolves to one repo function binds to its signature;
* a bound method is not used where an array value is needed (operand of arithmetic / `@`,
  receiver of `.dot`/`.T`/subscript), a property is not called.
"""
from __future__ import annotations

import ast
import builtins
from typing import Dict, List, Optional, Set, Tuple

from .index import Class, Func, Index, Module, dotted, own_nodes
from .resolve import Resolver, Unresolved, bind_call


def is_abstract(f: Func) -> bool:
    body = [s for s in f.node.body if not (isinstance(s, ast.Expr) and isinstance(s.value, ast.Constant))]
    if any((dotted(d) or "").endswith("abstractmethod") for d in f.node.decorator_list):
        return True
    return len(body) == 1 and (isinstance(body[0], ast.Raise) or isinstance(body[0], ast.Pass))


class Problem:
    def __init__(self, kind, func: Func, node, text):
        self.kind, self.func, self.node, self.text = kind, func, node, text


class Definedness:
    def __init__(self, res: Resolver):
        self.res = res
        self.ix = res.ix
        self._inst_attrs: Dict[str, Set[str]] = {}
        self._mod_globals: Dict[str, Set[str]] = {}
        self.calls_checked = 0
        self.calls_bound = 0
        self.attrs_checked = 0
        self.names_checked = 0

    # ---------------------------------------------------------------- tables
    def module_globals(self, mod: Module) -> Set[str]:
        g = self._mod_globals.get(mod.name)
        if g is None:
            g = set(mod.funcs) | set(mod.classes) | set(mod.imports) | set(mod.assigns)
            for n in ast.walk(mod.tree):
                if isinstance(n, ast.Global):
                    g |= set(n.names)
            for st in mod.tree.body:
                for n in ast.walk(st) if not isinstance(st, (ast.FunctionDef, ast.ClassDef)) else []:
                    if isinstance(n, ast.Name) and isinstance(n.ctx, ast.Store):
                        g.add(n.id)
            g |= {"__name__", "__file__", "__doc__"}
            self._mod_globals[mod.name] = g
        return g

    def instance_attrs(self, c: Class) -> Set[str]:
        """Attributes any method of the hierarchy (bases and subclasses' own are separate) stores on self."""
        a = self._inst_attrs.get(c.qualname)
        if a is None:
            a = set()
            for k in c.mro():
                for f in list(k.methods.values()) + list(k.setters.values()):
                    s = f.self_name
                    if not s:
                        continue
                    for n in ast.walk(f.node):
                        if isinstance(n, ast.Attribute) and isinstance(n.value, ast.Name) and n.value.id == s \
                                and isinstance(n.ctx, ast.Store):
                            a.add(n.attr)
                a |= set(k.class_attrs)
            self._inst_attrs[c.qualname] = a
        return a

    def has_member(self, c: Class, name: str) -> bool:
        if c.has_member(name) or name in self.instance_attrs(c):
            return True
        if any(k.ext_bases and k.ext_bases != ["object"] for k in c.mro()):
            ext = [b for k in c.mro() for b in k.ext_bases if b not in ("object", "abc.ABC", "ABC")]
            if ext:
                return True  # inherits from something we cannot see
        return name.startswith("__") and name.endswith("__")

    # ---------------------------------------------------------------- checks
    def check(self, func: Func, names=True, attrs=True, calls=True) -> List[Problem]:
        out: List[Problem] = []
        if names:
            out += self.undefined_names(func)
        if attrs:
            out += self.bad_attributes(func)
        if calls:
            out += self.bad_calls(func)
        return out

    def undefined_names(self, func: Func) -> List[Problem]:
        out = []
        res = self.res
        mod = func.module
        star = "*" in mod.imports
        comp_bound: Set[int] = set()
        # names bound by comprehensions / lambdas are local to them; collect per node
        scope_names: Set[str] = set()
        f: Optional[Func] = func
        while f is not None:
            scope_names |= res.locals_of(f) | set(f.nested) | set(f.local_imports)
            f = f.parent
        # lambda parameters
        for n in own_nodes(func.node):
            if isinstance(n, ast.Lambda):
                for a in list(n.args.args) + list(n.args.kwonlyargs) + list(n.args.posonlyargs):
                    scope_names.add(a.arg)
                for sub in ast.walk(n):
                    if isinstance(sub, ast.Name) and isinstance(sub.ctx, ast.Store):
                        scope_names.add(sub.id)
        # lambda bodies are skipped by own_nodes; walk them too
        nodes = list(own_nodes(func.node))
        for n in list(nodes):
            if isinstance(n, ast.Lambda):
                nodes.extend(ast.walk(n.body))
        glob = self.module_globals(mod)
        for n in nodes:
            if isinstance(n, ast.Name) and isinstance(n.ctx, ast.Load):
                self.names_checked += 1
                if n.id in scope_names or n.id in glob or hasattr(builtins, n.id):
                    continue
                if star:
                    continue
                out.append(Problem("undefined-name", func, n, "name '%s' is not defined in any enclosing scope" % n.id))
        return out

    def bad_attributes(self, func: Func, strong=True) -> List[Problem]:
        out = []
        res = self.res
        env = res.env(func, strong)
        for n in own_nodes(func.node):
            if not (isinstance(n, ast.Attribute) and isinstance(n.ctx, ast.Load)):
                continue
            recv = n.value
            cs: Set[Class] = set()
            if isinstance(recv, ast.Name):
                g = res.guard_classes(func, recv)
                if g is not None:
                    cs = g
                elif recv.id == func.self_name and func.cls is not None:
                    cs = {func.cls}
                else:
                    # annotations are unreliable in this repo: only single-class, unguarded params of
                    # the index's own classes are trusted when the class is a leaf or the attr is
                    # missing from the whole hierarchy below it
                    cs = set(env.get(recv.id, ()))
            elif isinstance(recv, ast.Attribute) or isinstance(recv, ast.Call):
                cs = res.expr_classes(func, recv, env, strong)
            if not cs:
                continue
            self.attrs_checked += 1
            missing = []
            for c in cs:
                fam = [c] + c.all_subclasses()
                if not any(self.has_member(k, n.attr) for k in fam):
                    missing.append(c)
            if missing and len(missing) == len(cs):
                out.append(Problem("no-such-attribute", func, n, "%s has no attribute '%s'" % (
                    "/".join(sorted(c.name for c in missing)), n.attr)))
                continue
            # kind misuse: bound method used as an array value
            par = getattr(n, "_parent", None)
            kinds = set()
            for c in cs:
                m = c.lookup(n.attr)
                if m is not None:
                    kinds.add(m.kind)
            if kinds and kinds <= {"method"}:
                if isinstance(par, ast.BinOp) or (isinstance(par, ast.Attribute) and par.value is n and par.attr in ("dot", "T", "shape", "real", "imag", "flatten", "reshape", "conj", "conjugate")) \
                        or (isinstance(par, ast.Subscript) and par.value is n):
                    out.append(Problem("method-used-as-value", func, par, "'%s' is a method of %s; it is used as a value (missing call?)"
                                       % (n.attr, "/".join(sorted(c.name for c in cs)))))
                elif isinstance(par, ast.Call) and n in par.args:
                    callee = dotted(par.func) or ""
                    if callee.split(".")[-1] in ("dot", "kron", "trace", "array", "vdot", "reshape", "flatten"):
                        out.append(Problem("method-used-as-value", func, par, "'%s' is a method of %s; it is passed to %s as an array"
                                           % (n.attr, "/".join(sorted(c.name for c in cs)), callee)))
            if kinds and kinds <= {"property"} and isinstance(par, ast.Call) and par.func is n:
                # calling a property's value: fine only if the property returns a callable; repo has none that do
                rets = set()
                for c in cs:
                    m = c.lookup(n.attr)
                    if m is not None and m.node.returns is not None:
                        rets.add(ast.unparse(m.node.returns))
                if rets and all(r in ("np.ndarray", "int", "float", "bool", "str", "List[np.ndarray]", "List[int]") for r in rets):
                    out.append(Problem("property-called", func, par, "'%s' is a property of %s returning %s; it is called"
                                       % (n.attr, "/".join(sorted(c.name for c in cs)), "/".join(sorted(rets)))))
        return out

    def bad_calls(self, func: Func) -> List[Problem]:
        out = []
        res = self.res
        env = res.env(func)
        for n in own_nodes(func.node):
            if not isinstance(n, ast.Call):
                continue
            targets = res.resolve_call(func, n, env, by_name=False)
            funcs = [t for t in targets if isinstance(t, (Func, Class))]
            if not funcs or any(isinstance(t, Unresolved) for t in targets):
                continue
            if any(isinstance(t, Func) and t.kind == "property" for t in funcs):
                continue  # calling the value a property returns
            concrete = [t for t in funcs if not (isinstance(t, Func) and is_abstract(t))]
            funcs = concrete or funcs
            self.calls_checked += 1
            errs_all = []
            for t in funcs:
                if isinstance(t, Class):
                    init = t.lookup("__init__")
                    if init is None:
                        continue
                    _, errs = bind_call(n, init, True)
                    tname = t.name
                else:
                    bound = self._bound(func, n, t)
                    _, errs = bind_call(n, t, bound)
                    tname = t.qualname.split("quara.")[-1]
                if errs:
                    errs_all.append((tname, errs))
            if errs_all and len(errs_all) == len(funcs):
                out.append(Problem("call-does-not-bind", func, n, "; ".join("%s: %s" % (t, ", ".join(e)) for t, e in errs_all)))
            elif errs_all:
                # some dispatch targets reject the call
                out.append(Problem("call-does-not-bind-some", func, n, "; ".join("%s: %s" % (t, ", ".join(e)) for t, e in errs_all)))
            else:
                self.calls_bound += 1
        return out

    def _bound(self, func: Func, call: ast.Call, target: Func) -> bool:
        if target.kind in ("function", "static"):
            return False
        fn = call.func
        if isinstance(fn, ast.Attribute):
            t = self.ix.resolve_expr(func.module, fn.value, func)
            if isinstance(t, Class) and not (isinstance(fn.value, ast.Name) and fn.value.id == func.self_name):
                return target.kind == "classmethod"
            return True
        return False
