"""Flow-sensitive inlining: replace a name by its unique reaching definition at a program point."""
from __future__ import annotations

import ast
from typing import Dict, Optional

from .astutil import clone
from .cfg import CFG, reaching_definitions


class Reach:
    def __init__(self, ctx, func):
        self.func = func
        self.cfg: CFG = ctx.cfg(func)
        self._rd = None

    @property
    def rd(self):
        if self._rd is None:
            self._rd = reaching_definitions(self.cfg)
        return self._rd

    def value_at(self, name: str, at: ast.AST) -> Optional[ast.AST]:
        """The expression assigned to `name` by its only reaching plain assignment at `at`."""
        n = self.cfg.node_of(at)
        if n is None:
            return None
        defs = self.rd.get(n.id, {}).get(name)
        if not defs or len(defs) != 1:
            return None
        d = self.cfg.nodes[next(iter(defs))]
        a = d.ast
        if d.kind == "stmt" and isinstance(a, ast.Assign) and len(a.targets) == 1 and isinstance(a.targets[0], ast.Name) \
                and a.targets[0].id == name:
            return a.value
        if d.kind == "stmt" and isinstance(a, ast.AnnAssign) and a.value is not None and isinstance(a.target, ast.Name):
            return a.value
        return None

    def inline_at(self, expr: ast.AST, at: Optional[ast.AST] = None, depth: int = 6) -> ast.AST:
        at = at if at is not None else expr
        outer = self

        class T(ast.NodeTransformer):
            def __init__(self, where, d):
                self.where, self.d = where, d

            def visit_Name(self, node):
                if isinstance(node.ctx, ast.Load) and self.d > 0:
                    v = outer.value_at(node.id, self.where)
                    if v is not None:
                        # continue at the defining statement
                        return T(v, self.d - 1).visit(clone(v)) if outer.cfg.node_of(v) is not None else clone(v)
                return node

        return ast.fix_missing_locations(T(at, depth).visit(clone(expr)))
