"""E4 - alias and mutation effects.

A flow-sensitive may-alias analysis.  Every value is abstracted by (outer, inner): the regions
the object itself may be, and the regions its elements may belong to.  A region is
(parameter, level) with level 0 = the argument object, 1 = objects it contains (elements of a
list of arrays, attribute storage of an object), or FRESH.  numpy/stdlib operations are split into
view-producing (alias their argument) and copy-producing (fresh) by a fixed table.  Per function
the analysis yields a summary (regions mutated, regions the result may alias); summaries are
propagated over the resolved call graph to a fixpoint.
"""
from __future__ import annotations

import ast
from typing import Dict, FrozenSet, List, Optional, Set, Tuple

from .astutil import const, kwarg, unparse, NOCONST
from .cfg import CFG, Node
from .index import Class, Func, Index, dotted, own_nodes
from .resolve import Resolver, Unresolved, bind_call

FRESH = ("<fresh>", 0)
Region = Tuple[str, int]
Val = Tuple[FrozenSet[Region], FrozenSet[Region]]  # (outer, inner)

FRESHV: Val = (frozenset([FRESH]), frozenset([FRESH]))

# methods whose result is a view of / the same storage as the receiver
VIEW_METHODS = {"reshape", "ravel", "view", "transpose", "squeeze", "swapaxes", "diagonal", "__getitem__", "toarray_view"}
VIEW_ATTRS = {"T", "real", "imag", "flat", "H", "A"}
VIEW_FUNCS = {"reshape", "ravel", "asarray", "asanyarray", "squeeze", "transpose", "atleast_1d", "atleast_2d", "swapaxes",
              "moveaxis", "broadcast_to", "expand_dims", "diagonal", "ascontiguousarray", "real", "imag"}
# element-preserving shallow containers
SHALLOW_FUNCS = {"list", "tuple", "reversed", "sorted", "enumerate", "zip", "iter", "copy.copy", "copy"}
DEEP_FRESH = {"deepcopy", "array", "zeros", "ones", "eye", "identity", "empty", "full", "zeros_like", "ones_like", "hstack", "vstack",
              "stack", "concatenate", "block", "kron", "dot", "matmul", "vdot", "inv", "pinv", "eigh", "eig", "eigvalsh", "eigvals", "diag",
              "insert", "delete", "append", "where", "sum", "trace", "sqrt", "abs", "conjugate", "conj", "exp", "log", "flatten", "astype",
              "copy_deep", "tolist", "toarray", "todense", "expm", "csr_matrix", "csc_matrix", "linspace", "arange", "outer", "tensordot",
              "einsum", "mean", "std", "var", "cumsum", "prod", "maximum", "minimum", "clip", "round", "real_if_close", "isclose", "allclose",
              "frompyfunc", "float64", "complex128", "int64", "len", "range", "str", "int", "float", "bool", "max", "min", "divmod", "dict",
              "set", "format", "join", "split"}
MUTATORS = {"append", "extend", "insert", "pop", "remove", "clear", "sort", "reverse", "fill", "setflags", "resize", "itemset", "put",
            "update", "setdefault", "popitem", "add", "discard", "partition", "byteswap"}
MUTATING_FUNCS = {"fill_diagonal": 0, "put": 0, "copyto": 0, "place": 0, "putmask": 0, "shuffle": 0}


def regions_of_param(p: str) -> Val:
    return (frozenset([(p, 0)]), frozenset([(p, 1)]))


def deepen(rs: FrozenSet[Region]) -> FrozenSet[Region]:
    return frozenset((p, 1) if p != FRESH[0] else FRESH for p, _ in rs)


def vjoin(a: Val, b: Val) -> Val:
    return (a[0] | b[0], a[1] | b[1])


class Mutation:
    def __init__(self, func: Func, node: ast.AST, regions: FrozenSet[Region], how: str, via: Optional[str] = None, label: Optional[str] = None,
                 root: bool = True, origins=frozenset()):
        self.func, self.node, self.regions, self.how, self.via, self.label = func, node, regions, how, via, label
        self.root = root          # this site is where the write to the argument originates (not merely propagated)
        self.origins = origins    # (root function, root parameter) pairs this write stems from


class Summary:
    def __init__(self):
        self.mut: Set[Region] = set()
        self.origin: Dict[Region, FrozenSet[Tuple[str, str]]] = {}
        self.ret: Val = (frozenset(), frozenset())
        self.sites: List[Mutation] = []
        self.unknown_calls = 0
        self.calls = 0
        self.callees = set()

    def key(self):
        return (frozenset(self.mut), self.ret, frozenset(self.origin.items()))


class Effects:
    def __init__(self, ctx, funcs: Optional[List[Func]] = None):
        self.ctx = ctx
        self.ix: Index = ctx.ix
        self.res: Resolver = ctx.res
        self.funcs = funcs if funcs is not None else list(self.ix.funcs.values())
        self.summ: Dict[str, Summary] = {}
        self._scalar_cache: Dict[str, Set[str]] = {}

    # ----------------------------------------------------------------- driver
    def run(self, max_iter: int = 8):
        for f in self.funcs:
            self.summ[f.qualname] = Summary()
        for it in range(max_iter):
            changed = False
            for f in self.funcs:
                old = self.summ[f.qualname].key()
                new = self.analyse(f)
                self.summ[f.qualname] = new
                if new.key() != old:
                    changed = True
            if not changed:
                break
        self.iterations = it + 1
        return self.summ

    def _list_params(self, f: Func) -> Set[str]:
        out = set()
        for p in f.all_params:
            a = unparse(p.annotation) if p.annotation is not None else ""
            if a.startswith(("List", "list", "Tuple", "tuple")):
                out.add(p.arg)
        return out

    # ------------------------------------------------------------- lazy fields
    def lazy_fields(self, c: Optional[Class]) -> Set[str]:
        """attributes initialised to None in the constructor and (re)built on demand: caches"""
        if c is None:
            return set()
        k = c.qualname
        if not hasattr(self, "_lazy"):
            self._lazy = {}
        if k in self._lazy:
            return self._lazy[k]
        out: Set[str] = set()
        for cl in c.mro():
            init = cl.methods.get("__init__")
            if init is None or not init.self_name:
                continue
            for n in own_nodes(init.node):
                if isinstance(n, (ast.Assign, ast.AnnAssign)):
                    tg = n.targets if isinstance(n, ast.Assign) else [n.target]
                    v = n.value
                    if isinstance(v, ast.Constant) and v.value is None:
                        for t in tg:
                            if isinstance(t, ast.Attribute) and isinstance(t.value, ast.Name) and t.value.id == init.self_name:
                                out.add(t.attr)
        self._lazy[k] = out
        return out

    def _is_lazy_target(self, t) -> bool:
        f = self._cur[0]
        if f.cls is None or not f.self_name:
            return False
        lz = self.lazy_fields(f.cls)
        cur = t
        while isinstance(cur, ast.Subscript):
            cur = cur.value
        return isinstance(cur, ast.Attribute) and isinstance(cur.value, ast.Name) and cur.value.id == f.self_name and cur.attr in lz

    # ------------------------------------------------------------ scalar kinds
    def scalars(self, f: Func) -> Set[str]:
        s = self._scalar_cache.get(f.qualname)
        if s is not None:
            return s
        s = set()
        for p in f.all_params:
            a = unparse(p.annotation) if p.annotation is not None else ""
            if a in ("int", "float", "str", "bool", "np.float64", "complex") or a.startswith(("Union[int", "Union[float")):
                s.add(p.arg)
        def is_scalar_expr(e) -> bool:
            if isinstance(e, ast.Constant) and isinstance(e.value, (int, float, complex, str, bool)):
                return True
            if isinstance(e, ast.Name):
                return e.id in s
            if isinstance(e, ast.BinOp):
                return is_scalar_expr(e.left) and is_scalar_expr(e.right)
            if isinstance(e, ast.UnaryOp):
                return is_scalar_expr(e.operand)
            if isinstance(e, ast.Call):
                dn = (dotted(e.func) or "").split(".")[-1]
                if dn in ("len", "int", "float", "divmod", "sum", "trace", "sqrt", "abs", "time", "max", "min", "vdot", "dot", "log", "log10",
                          "ceil", "floor", "norm", "real", "multiply_veca_vecb", "multiply_veca_vecb_matc", "value"):
                    return dn not in ("sum", "abs", "sqrt", "dot", "real", "log", "log10", "ceil", "floor") or all(is_scalar_expr(a) for a in e.args)
            if isinstance(e, ast.Attribute) and e.attr in ("dim", "_dim", "num_outcomes", "size", "ndim", "num_variables", "num_var"):
                return True
            if isinstance(e, ast.Subscript) and isinstance(e.value, ast.Attribute) and e.value.attr == "shape":
                return True
            return False
        for _ in range(3):
            for n in own_nodes(f.node):
                if isinstance(n, ast.Assign) and len(n.targets) == 1:
                    t = n.targets[0]
                    if isinstance(t, ast.Name) and is_scalar_expr(n.value):
                        s.add(t.id)
                    elif isinstance(t, ast.Tuple) and isinstance(n.value, ast.Call) and (dotted(n.value.func) or "") == "divmod":
                        s |= {x.id for x in t.elts if isinstance(x, ast.Name)}
                    elif isinstance(t, ast.Tuple) and isinstance(n.value, ast.Attribute) and n.value.attr == "shape":
                        s |= {x.id for x in t.elts if isinstance(x, ast.Name)}
                elif isinstance(n, ast.For) and isinstance(n.iter, ast.Call) and (dotted(n.iter.func) or "") in ("range",):
                    if isinstance(n.target, ast.Name):
                        s.add(n.target.id)
                elif isinstance(n, ast.For) and isinstance(n.iter, ast.Call) and (dotted(n.iter.func) or "") == "enumerate" \
                        and isinstance(n.target, ast.Tuple) and isinstance(n.target.elts[0], ast.Name):
                    s.add(n.target.elts[0].id)
        # a name that is ever bound to a non-scalar expression is not a scalar
        for n in own_nodes(f.node):
            if isinstance(n, ast.Assign) and len(n.targets) == 1 and isinstance(n.targets[0], ast.Name) and n.targets[0].id in s \
                    and not is_scalar_expr(n.value):
                pass
        self._scalar_cache[f.qualname] = s
        return s

    # --------------------------------------------------------------- analysis
    def analyse(self, f: Func) -> Summary:
        sm = Summary()
        cfg: CFG = self.ctx.cfg(f)
        init: Dict[str, Val] = {}
        for p in f.all_params:
            init[p.arg] = regions_of_param(p.arg)
        a = f.node.args
        if a.vararg:
            init[a.vararg.arg] = regions_of_param(a.vararg.arg)
        if a.kwarg:
            init[a.kwarg.arg] = regions_of_param(a.kwarg.arg)
        scal = self.scalars(f)
        ndarray_params = {p.arg for p in f.all_params if p.annotation is not None and unparse(p.annotation) in ("np.ndarray", "numpy.ndarray")}
        self._cur = (f, sm, scal, ndarray_params)

        def transfer(node: Node, st):
            st = dict(st)
            self._exec(node, st, record=False)
            return _freeze(st)

        def meet(states):
            acc: Dict[str, Val] = {}
            for s in states:
                for k, v in s:
                    acc[k] = vjoin(acc[k], v) if k in acc else v
            return _freeze(acc)

        IN, OUT = cfg.forward(_freeze(init), transfer, meet)
        # second pass: record effects with the fixpoint states
        for n in cfg.nodes:
            if n.id in IN:
                st = dict(IN[n.id])
                self._exec(n, st, record=True)
        return sm

    # ------------------------------------------------------------ evaluation
    def val(self, e: ast.AST, st: Dict[str, Val]) -> Val:
        f, sm, scal, ndp = self._cur
        if isinstance(e, ast.Name):
            if e.id in st:
                return st[e.id]
            return FRESHV
        if isinstance(e, ast.Constant):
            return FRESHV
        if isinstance(e, ast.Attribute):
            if e.attr in VIEW_ATTRS:
                return self.val(e.value, st)
            base = self.val(e.value, st)
            # a property getter of a known class: what the getter returns (a view of a field, or an object it builds)
            getters = self._getters(f, e)
            if getters:
                out: Val = (frozenset(), frozenset())
                for m in getters:
                    cs = self.summ.get(m.qualname)
                    if cs is None or not m.self_name:
                        out = None
                        break

                    def tr(rs, m=m):
                        o = set()
                        for p_, lvl in rs:
                            if p_ == FRESH[0]:
                                o.add(FRESH)
                            elif p_ == m.self_name:
                                o |= set(base[0]) if lvl == 0 else set(base[1])
                        return frozenset(o)
                    out = vjoin(out, (tr(cs.ret[0]) or frozenset([FRESH]), tr(cs.ret[1]) or frozenset([FRESH])))
                if out is not None:
                    return out
            # attribute storage of an object belongs to the object's contents
            inner = deepen(base[0] | base[1])
            return (inner, inner)
        if isinstance(e, ast.Subscript):
            base = self.val(e.value, st)
            if isinstance(e.slice, ast.Slice) and isinstance(e.value, ast.Name) and e.value.id in self._list_params(f):
                return (frozenset([FRESH]), base[1])
            # array view keeps the outer region; container element takes the inner one: may be either
            inner = deepen(base[1])
            return (base[0] | base[1], inner | base[1]) if self._maybe_array(e.value, st) else (base[1], inner)
        if isinstance(e, ast.IfExp):
            return vjoin(self.val(e.body, st), self.val(e.orelse, st))
        if isinstance(e, ast.BoolOp):
            acc = self.val(e.values[0], st)
            for x in e.values[1:]:
                acc = vjoin(acc, self.val(x, st))
            return acc
        if isinstance(e, (ast.BinOp, ast.UnaryOp, ast.Compare, ast.JoinedStr, ast.Dict, ast.Lambda)):
            return FRESHV
        if isinstance(e, (ast.List, ast.Tuple, ast.Set)):
            inner: FrozenSet[Region] = frozenset()
            for x in e.elts:
                v = self.val(x.value if isinstance(x, ast.Starred) else x, st)
                inner |= v[0] | v[1]
            return (frozenset([FRESH]), inner or frozenset([FRESH]))
        if isinstance(e, (ast.ListComp, ast.GeneratorExp, ast.SetComp)):
            st2 = dict(st)
            for g in e.generators:
                it = self.val(g.iter, st2)
                self._bind(g.target, self._element(it), st2)
            v = self.val(e.elt, st2)
            return (frozenset([FRESH]), v[0] | v[1])
        if isinstance(e, ast.Starred):
            return self.val(e.value, st)
        if isinstance(e, ast.Call):
            return self.call(e, st, record=False)
        return FRESHV

    def _getters(self, f: Func, e: ast.Attribute):
        """property getters `e` may read, when the class of the receiver is known and every candidate is a property"""
        cache = self.__dict__.setdefault("_getter_cache", {})
        k = id(e)
        if k in cache:
            return cache[k]
        out = []
        try:
            envs = self.__dict__.setdefault("_env_cache", {})
            env = envs.get(f.qualname)
            if env is None:
                env = envs[f.qualname] = self.res.env(f)
            classes = self.res.expr_classes(f, e.value, env)
        except Exception:
            classes = set()
        ok = bool(classes)
        for c in classes:
            cands = [c.lookup(e.attr)] + [o for o in c.overrides(e.attr)]
            for m in cands:
                if m is None or m.kind != "property":
                    ok = False
                elif m not in out:
                    out.append(m)
        cache[k] = out if ok else []
        return cache[k]

    def _maybe_array(self, e, st) -> bool:
        """subscripting may produce a numpy view (as opposed to taking an element out of a python list)"""
        return True

    @staticmethod
    def _element(v: Val) -> Val:
        return (v[0] | v[1], deepen(v[1]) | v[1]) if False else (v[1] | v[0], deepen(v[1]))

    def _bind(self, t, v: Val, st):
        if isinstance(t, ast.Name):
            st[t.id] = v
        elif isinstance(t, (ast.Tuple, ast.List)):
            el = (v[1] | v[0], deepen(v[1]))
            for x in t.elts:
                self._bind(x.value if isinstance(x, ast.Starred) else x, el, st)

    def call(self, e: ast.Call, st, record: bool) -> Val:
        f, sm, scal, ndp = self._cur
        fn = e.func
        dn = dotted(fn) or ""
        base = dn.split(".")[-1]
        argvals = [self.val(a.value if isinstance(a, ast.Starred) else a, st) for a in e.args]
        kwvals = {k.arg: self.val(k.value, st) for k in e.keywords if k.arg}
        # out= argument
        if "out" in kwvals and record:
            self._mutate(e, kwvals["out"][0], "out= argument of %s" % dn)
        # external / builtin classification first for well-known names
        targets = self.res.resolve_call(f, e, by_name=False)
        repo = [t for t in targets if isinstance(t, (Func, Class))]
        if repo and not any(isinstance(t, Unresolved) for t in targets):
            sm.calls += 1
            out: Val = (frozenset(), frozenset())
            for t in repo:
                sm.callees.add(t.qualname)
                if isinstance(t, Class):
                    init = t.lookup("__init__")
                    # constructors adopt their arguments: the new object's contents alias them
                    inner = frozenset()
                    for v in argvals + list(kwvals.values()):
                        inner |= v[0] | v[1]
                    out = vjoin(out, (frozenset([FRESH]), deepen(inner) | frozenset([FRESH])))
                    if init is not None:
                        self._apply_summary(e, init, True, st, record, recv=None)
                    continue
                bound = self._bound(f, e, t)
                recv = self.val(fn.value, st) if bound and isinstance(fn, ast.Attribute) else None
                r = self._apply_summary(e, t, bound, st, record, recv)
                out = vjoin(out, r)
            return out if out[0] else FRESHV
        # method call on a value
        if isinstance(fn, ast.Attribute):
            recv = self.val(fn.value, st)
            m = fn.attr
            if m in MUTATORS and not (dn.startswith(("np.", "numpy.")) ):
                if record and not self._is_module(f, fn.value) and not self._is_lazy_target(fn.value):
                    self._mutate(e, recv[0], ".%s()" % m)
                if m in ("append", "extend", "insert", "add", "update", "setdefault"):
                    # weak update of the container's contents
                    if isinstance(fn.value, ast.Name) and fn.value.id in st:
                        add = frozenset()
                        for v in argvals:
                            add |= v[0] | v[1]
                        cur = st[fn.value.id]
                        st[fn.value.id] = (cur[0], cur[1] | add)
                return FRESHV
            if m in VIEW_METHODS and not dn.startswith(("np.", "numpy.")):
                return recv
            if m == "copy" and not e.args and not dn.startswith("copy."):
                return FRESHV
            if m in ("items", "values", "keys", "get"):
                return (frozenset([FRESH]), recv[1] | recv[0])
        if dn in ("copy.deepcopy", "deepcopy"):
            return FRESHV
        if dn in ("copy.copy",) and e.args:
            a = e.args[0]
            if isinstance(a, ast.Name) and a.id in ndp:
                return FRESHV
            v = argvals[0]
            return (frozenset([FRESH]), v[1])
        if base in MUTATING_FUNCS and dn.startswith(("np.", "numpy.")) and argvals:
            if record:
                self._mutate(e, argvals[MUTATING_FUNCS[base]][0], "%s()" % dn)
            return FRESHV
        if dn.startswith(("np.", "numpy.", "mutil.", "matrix_util.")) or dn in ("list", "tuple", "reversed", "sorted", "enumerate", "zip", "iter"):
            if base in VIEW_FUNCS and argvals:
                return argvals[0]
            if dn in ("list", "tuple", "reversed", "sorted", "iter") and argvals:
                return (frozenset([FRESH]), argvals[0][1] | argvals[0][0])
            if dn in ("zip", "enumerate") and argvals:
                inner = frozenset()
                for v in argvals:
                    inner |= v[1] | v[0]
                return (frozenset([FRESH]), inner)
            return FRESHV
        if any(isinstance(t, Unresolved) for t in targets):
            sm.unknown_calls += 1
        return FRESHV

    def _is_module(self, f: Func, e) -> bool:
        d = dotted(e)
        if d is None:
            return False
        t = self.ix.scope_lookup(f.module, f, d.split(".")[0])
        return isinstance(t, str) or (t is not None and not isinstance(t, (Func, Class)))

    def _bound(self, f: Func, call: ast.Call, t: Func) -> bool:
        if t.kind in ("function", "static"):
            return False
        fn = call.func
        if isinstance(fn, ast.Attribute):
            r = self.ix.resolve_expr(f.module, fn.value, f)
            if isinstance(r, Class) and not (isinstance(fn.value, ast.Name) and fn.value.id == f.self_name):
                return t.kind == "classmethod"
            return True
        return False

    def _apply_summary(self, call: ast.Call, t: Func, bound: bool, st, record: bool, recv: Optional[Val]) -> Val:
        f, sm, scal, ndp = self._cur
        cs = self.summ.get(t.qualname)
        if cs is None:
            return FRESHV
        binding, _ = bind_call(call, t, bound)
        amap: Dict[str, Val] = {p: self.val(e, st) for p, e in binding.items()}
        if bound and t.self_name and recv is not None:
            amap[t.self_name] = recv
        def translate(rs) -> FrozenSet[Region]:
            out = set()
            for p, lvl in rs:
                if p == FRESH[0]:
                    out.add(FRESH)
                elif p in amap:
                    v = amap[p]
                    out |= set(v[0]) if lvl == 0 else set(v[1])
            return frozenset(out)
        if record and cs.mut:
            for creg in sorted(cs.mut):
                hit = translate(frozenset([creg])) - {FRESH}
                if not hit:
                    continue
                corig = cs.origin.get(creg, frozenset())
                callee_self_only = bool(t.self_name) and creg[0] == t.self_name
                for r in hit:
                    own_self = bool(f.self_name) and r[0] == f.self_name
                    if callee_self_only and not own_self and all(o[1] == "self" for o in corig):
                        # a method that updates its own object is called on one of OUR arguments: the write starts here
                        self._mutate(call, frozenset([r]), "call of %s, which updates the object it is called on" % t.qualname.split("quara.")[-1],
                                     via=t.qualname, root=True)
                    else:
                        self._mutate(call, frozenset([r]), "call of %s, which mutates %s" % (t.qualname.split("quara.")[-1], creg),
                                     via=t.qualname, root=False, origins=corig)
        ro, ri = translate(cs.ret[0]), translate(cs.ret[1])
        return (ro or frozenset([FRESH]), ri or frozenset([FRESH]))

    def _mutate(self, node, regions: FrozenSet[Region], how: str, via=None, root=True, origins=frozenset()):
        f, sm, scal, ndp = self._cur
        rs = frozenset(r for r in regions if r != FRESH)
        if not rs:
            return
        sm.mut |= set(rs)
        if root:
            origins = frozenset((f.qualname, "self" if (f.self_name and r[0] == f.self_name) else r[0]) for r in rs)
        for r in rs:
            sm.origin[r] = sm.origin.get(r, frozenset()) | origins
        sm.sites.append(Mutation(f, node, rs, how, via, self._path_label(node), root, origins))

    def _path_label(self, node) -> Optional[str]:
        """boolean-parameter conditions on the path to `node`"""
        f = self._cur[0]
        labels = []
        child = node
        p = getattr(node, "_parent", None)
        while p is not None and not isinstance(p, (ast.FunctionDef, ast.AsyncFunctionDef)):
            if isinstance(p, ast.If):
                t = p.test
                neg = False
                if isinstance(t, ast.UnaryOp) and isinstance(t.op, ast.Not):
                    t, neg = t.operand, True
                if isinstance(t, ast.Name) and t.id in f.params:
                    inbody = any(child is s for s in p.body)
                    labels.append("%s=%s" % (t.id, inbody != neg))
            child, p = p, getattr(p, "_parent", None)
        return ", ".join(reversed(labels)) or None

    # -------------------------------------------------------------- statements
    def _exec(self, node: Node, st: Dict[str, Val], record: bool):
        a = node.ast
        f, sm, scal, ndp = self._cur
        if a is None or node.kind in ("pre", "join", "entry", "exit", "raise"):
            return
        if node.kind == "test":
            self._walk_calls(a.test, st, record)
            return
        if node.kind == "for":
            it = self.val(a.iter, st)
            self._walk_calls(a.iter, st, record)
            # zip / enumerate hand out one element of EACH operand: bind the targets position by position
            itc = a.iter
            if isinstance(itc, ast.Call) and not itc.keywords and isinstance(a.target, ast.Tuple) \
                    and not any(isinstance(x, ast.Starred) for x in list(itc.args) + list(a.target.elts)):
                dn = dotted(itc.func) or ""
                if dn == "zip" and len(itc.args) == len(a.target.elts):
                    for tg, arg_ in zip(a.target.elts, itc.args):
                        v = self.val(arg_, st)
                        self._bind(tg, (v[1] | v[0], deepen(v[1])), st)
                    return
                if dn == "enumerate" and len(itc.args) == 1 and len(a.target.elts) == 2:
                    v = self.val(itc.args[0], st)
                    self._bind(a.target.elts[0], FRESHV, st)
                    self._bind(a.target.elts[1], (v[1] | v[0], deepen(v[1])), st)
                    return
            self._bind(a.target, (it[1] | it[0], deepen(it[1])), st)
            return
        if node.kind == "with":
            for i in a.items:
                self._walk_calls(i.context_expr, st, record)
                if i.optional_vars is not None:
                    self._bind(i.optional_vars, FRESHV, st)
            return
        if node.kind == "except":
            if a.name:
                st[a.name] = FRESHV
            return
        if isinstance(a, (ast.FunctionDef, ast.ClassDef, ast.AsyncFunctionDef)):
            return
        if isinstance(a, ast.Assign):
            self._walk_calls(a.value, st, record)
            v = self.val(a.value, st)
            for t in a.targets:
                self._store(t, v, a, st, record)
        elif isinstance(a, ast.AnnAssign) and a.value is not None:
            self._walk_calls(a.value, st, record)
            self._store(a.target, self.val(a.value, st), a, st, record)
        elif isinstance(a, ast.AugAssign):
            self._walk_calls(a.value, st, record)
            t = a.target
            if isinstance(t, ast.Name):
                if t.id not in scal and t.id in st and record:
                    self._mutate(a, st[t.id][0], "in-place %s= on an array-kinded name" % type(a.op).__name__)
                if isinstance(a.op, ast.Add) and t.id in st:
                    v = self.val(a.value, st)
                    cur = st[t.id]
                    st[t.id] = (cur[0], cur[1] | v[1] | v[0])
            elif isinstance(t, ast.Subscript):
                if record:
                    self._mutate(a, self.val(t.value, st)[0], "in-place %s= on a subscript" % type(a.op).__name__)
            elif isinstance(t, ast.Attribute):
                if record:
                    self._mutate(a, self.val(t.value, st)[0], "attribute update")
        elif isinstance(a, ast.Delete):
            for t in a.targets:
                if isinstance(t, ast.Subscript) and record:
                    self._mutate(a, self.val(t.value, st)[0], "del of a subscript")
        elif isinstance(a, ast.Return):
            if a.value is not None:
                self._walk_calls(a.value, st, record)
                if record:
                    v = self.val(a.value, st)
                    sm.ret = vjoin(sm.ret, v) if sm.ret[0] else v
        elif isinstance(a, ast.Expr):
            self._walk_calls(a.value, st, record)
        elif isinstance(a, (ast.Raise, ast.Assert)):
            for sub in ast.iter_child_nodes(a):
                if isinstance(sub, ast.expr):
                    self._walk_calls(sub, st, record)

    def _store(self, t, v: Val, stmt, st, record: bool):
        if isinstance(t, ast.Name):
            st[t.id] = v
        elif isinstance(t, (ast.Tuple, ast.List)):
            el = (v[1] | v[0], deepen(v[1]))
            for x in t.elts:
                self._store(x.value if isinstance(x, ast.Starred) else x, el, stmt, st, record)
        elif isinstance(t, ast.Subscript):
            base = self.val(t.value, st)
            if record and not self._is_lazy_target(t):
                self._mutate(stmt, base[0], "subscript store")
            if isinstance(t.value, ast.Name) and t.value.id in st:
                cur = st[t.value.id]
                st[t.value.id] = (cur[0], cur[1] | v[0] | v[1])
        elif isinstance(t, ast.Attribute):
            base = self.val(t.value, st)
            if record and not self._is_lazy_target(t):
                self._mutate(stmt, base[0], "attribute store .%s" % t.attr)

    def _walk_calls(self, e: ast.AST, st, record: bool):
        """evaluate calls inside an expression for their effects (record pass)"""
        if not record:
            # still needed for container weak updates through .append in expression statements
            for n in ast.walk(e):
                if isinstance(n, ast.Call) and isinstance(n.func, ast.Attribute) and n.func.attr in ("append", "extend", "insert"):
                    self.call(n, st, False)
            return
        for n in ast.walk(e):
            if isinstance(n, ast.Call):
                self.call(n, st, True)
            elif isinstance(n, ast.Lambda):
                pass


def _freeze(d: Dict[str, Val]):
    return tuple(sorted(d.items(), key=lambda kv: kv[0]))
