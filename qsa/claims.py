"""What each check claims (text used for MANIFEST.json)."""

TECH = "static analysis (python ast): "

CLAIMS = {
    "C01": dict(
        text="Decides for every input at once the structural clauses of the verdict property: (T1) every closeness comparison "
             "reached from the 23 verdict entry points takes atol from the caller's tolerance and has effective rtol 0; (T2) the "
             "tolerance is only forwarded/defaulted (monotone uses); (T3) is_physical is eq(atol_eq) and ineq(atol_ineq) and each "
             "sub-verdict forwards to its designated test; (T3') reference constants (trace vs 1, POVM sum vs identity(dim), HS row 0 vs "
             "e0, PSD = hermitian and all filtered eigenvalues >= 0); (T4) constructors pass the physicality guard on every normal path "
             "after the verdict's fields are assigned; (T5) zero/origin objects are built unguarded from np.zeros / _generate_* values; (T6) the "
             "origin builders hold the constants that make the origin object physical (d^-1/2 e0, d^1/2/m e0, e0 e0^T, (1/m) e0 e0^T with m "
             "the number of outcomes); the generic-basis TP test maps basis element i to COLUMN i of the HS matrix.",
        note="Not decided: numerical correctness of eigenvalue routines and conversions, "
             "floating-point behaviour at the tolerance boundary. Trusted: python ast, qsa's closeness-predicate table.",
        technique=TECH + "interprocedural tolerance-taint flow over the resolved call graph, CFG must-pass-through and definite "
                         "assignment, normal-form matching of reference constants"),
    "C02": dict(
        text="Decides structural necessary conditions of representation agreement for all inputs: (R1) every function of the eight "
             "conversion modules resolves its names/attributes and binds its calls; (R2) representation tags taken from the repo's "
             "to_X_from_Y / convert_X_to_Y naming never mix (a Choi matrix is never fed to an HS parameter; to_X_from_Y returns an X); "
             "(R3) basis changes are U.hs.U† / U.vec with U_ab = vdot(to_a, from_b), Kraus->HS uses kron(K, conj K); (R4) the sparse "
             "tables are built with the conjugation/transposition their names state, accessors guard/build/return their own field and "
             "each *_with_sparsity conversion reads the table of its own direction; (R5) State/Povm/Gate/MProcess fill every "
             "self.__class__(...) / _generate_from_var_func() slot with a callee the call binds to; (R4, orientation) the coefficient vector "
             "handed to a pre-computed table and the reshape of the result follow the row order / element flattening read off the table "
             "builder; (R6) an option (defaulted parameter) accepted under the same name by a conversion and its delegate is handed on; "
             "(R7) the two dictionary fast paths compute sum conj(M_ab[r,c]) C[r,c] and sum HS[a,b] M_ab[r,c] against the layout their "
             "builder stores.",
        note="Not decided: agreement of each dense conversion with its defining formula, round trips, linearity, "
             "truncation - all numerical. Trusted: the naming convention as the tag oracle.",
        technique=TECH + "definedness/arity checking over a resolved call graph, naming-convention type tags, matrix-product normal "
                         "form (conj/transpose algebra), table-direction and layout agreement derived from the builders, index-contraction parity, "
                         "option-forwarding who-must-pass rule, slot (function-pointer) conformance"),
    "C03": dict(
        text="Decides, exactly and for every index, dimension and outcome count: (I1) the four variable-index <-> object-index map "
             "pairs are mutual inverses under both flags (symbolic evaluation of their divmod arithmetic, both compositions, all "
             "branches); (I2) each gradient one-hot is stored at the index the forward map returns; (I3) num_variables of the four "
             "tomography classes equals the variable index of the last free entry + 1; (I4) SetQOperations uses one kind order in all "
             "five places; (I5) implied constants and positions agree at 25 sites (d^-1/2, d^1/2 e0, d^1/2/m, e0, e0 - sum of first "
             "rows at block m-1; delete/insert positions match on the insertion and the removal side); (I4b) prefix-sum loops add the size of "
             "the item their loop variable points at; (I6) slot conformance; (I7) re-creating methods carry every stored constructor field.",
        note="Not decided: value-level round trips of the array conversions (reshape/stack numerics). Known finding F9: "
             "generate_from_var resets mode_proj_order / eps_truncate_imaginary_part / eps_zero.",
        technique=TECH + "exact symbolic interpretation of integer index code over polynomial normal forms, def-use matching, "
                         "ordered table agreement, scalar d-exponent normal form, slot conformance, field-completeness"),
    "C05": dict(
        text="Decides that the iteration IS Dykstra's alternating projection: in both routines and both orders the loop body normalises, "
             "in an exact affine domain, to y'=P_A(x+p); p'=x+p-y'; x'=P_B(y'+q); q'=y'+q-x' with the right (A,B); p,q start at zero and "
             "x at the input; prev:=next shift; stopping value sum (p-p')^2+(q-q')^2 compared with < eps_proj_physical from the second "
             "sweep; last x' returned (converted with the caller's flag); history lists receive the carried iterates; closures forward.",
        note="Not decided: convergence, accuracy at termination, nearest-point-ness and order-independence of the limit (numerical).",
        technique=TECH + "abstract interpretation of the loop body in an exact linear-form domain with opaque projection terms, "
                         "schema comparison in normal form, call-binding of the stopping helpers"),
    "C09": dict(
        text="Decides everything in the statement except floating-point accuracy: (L1) the estimate normalises to inv(A^T A) A^T (f - b) "
             "(or pinv(A)(f-b)) with A=calc_matA(), b=calc_vecB(), f=the current dataset's stacked distributions; (L2) the full-rank "
             "guard dominates the inversion; (L3) only element [1] of each dataset entry is read (counts never); (L4) no name is carried "
             "from one dataset to the next; (L5) result accessors map the template's generate_from_var over the stored estimates; (L6) the "
             "single-dataset entry point is the sequence routine on a one-element sequence with every argument handed on as received.",
        note="Not decided: conditioning and exact recovery in floating point; that calc_matA/calc_vecB are the right model (C08).",
        technique=TECH + "matrix-product normal form, CFG dominance, def-use and loop-carried-dependence analysis"),
    "C10": dict(
        text="Decides the structural reasons the constrained estimators return projected points: (P1) every projected-linear estimate is "
             "to_var(calc_proj_physical(linear estimate)) after set_mode_proj_order(self.mode_proj_order); (P2) the four (eq, ineq) flag "
             "combinations select physical / eq / ineq / identity projection, built on the template with its on_para_eq_constraint; (P3) "
             "backtracking iterates are x + a(P(x - grad/mu) - x) with a starting at 1.0 and shrinking by a literal in (0,1), momentum "
             "and FISTA iterates are P(.), results carry x'; (P4) default start is the template's origin object; (P2, options) every option "
             "handed to the projection factory comes from the like-named option field; (P6) calc_estimate = calc_estimate_sequence on [data]; "
             "(K1-K4) the projection both estimator families call is Dykstra's scheme (the C05 rules re-run under this property).",
        note="Not decided: that the projection reaches physicality to the stated accuracy; recovery of the truth from exact data.",
        technique=TECH + "def-use with flow-sensitive inlining, CFG dominance, decision-table extraction, affine normal form of the update rules"),
    "C11": dict(
        text="Narrow structural clauses only: (A1) the backtracking test is value(x+a y) > value(x) + gamma a <y, grad(x)>; (A2) every "
             "accepted stopping mode has a branch defining the error value in all three algorithms and the loop continues exactly while the "
             "windowed sum exceeds eps; (A3) the estimator configures loss (with the current dataset), option, constraint, loss-on-algo, "
             "runs the four sufficiency guards, optimises, and returns the optimiser's value; (A4) CVXPY solver / constraint-mode tables "
             "agree with the dispatch and 'physical' builds the constraints; (A5) each stopping mode of the backtracking algorithm measures "
             "what its name says (loss difference, its absolute value, Euclidean length of the step / of the projected-gradient direction); "
             "(A6) calc_estimate = calc_estimate_sequence on [data].",
        note="Not decided (out of reach for static analysis): optimality against all competitors, agreement of the two estimators, "
             "monotone decrease as a numerical fact.",
        technique=TECH + "schema matching in affine / scalar-product normal form, table agreement with constant folding, CFG ordering"),
    "C12": dict(
        text="Decides the structural clauses for every mode, outcome count and history: (W1) every weighting mode an option class accepts "
             "has a branch in the hook the loss class resolves to through its MRO, the hook's self-calls resolve, and each non-identity "
             "branch must-writes the weight field; (W2) typestate: on every path of the configuration entry point and of the public "
             "weight setter of the fast losses the derived extended weights are rebuilt after the last write of the weights; (W3) the "
             "identity mode resets the weights; (W4) symbolic shapes of the inverse-covariance stores agree for every outcome count m; (W5) "
             "value/gradient/Hessian read the same weight and data fields; (W6) the squared-error gradient and Hessian are the symbolic "
             "derivatives of the value's bilinear normal form (generic and fast path), relative-entropy terms use the same (q, p) order "
             "and weight factor; (W7) the model of schedule i is rows [size*i, size*(i+1)) of matA and the same rows of vecB.",
        note="Not decided: the entropy helpers' formulas and clipping (partly pinned by the existing tests), numerical closeness of fast "
             "and generic paths. Known findings F3 (mode accepted, unhandled) and F4 (identity does not reset weights).",
        technique=TECH + "MRO-resolved table agreement, interprocedural must-write and fresh/stale typestate analysis on the CFG, "
                         "symbolic shape inference, symbolic differentiation of bilinear normal forms"),
    "C14": dict(
        text="Decides the reproducibility half for every seed and call history: (G1) every random draw in quara (receiver or "
             "random_state=) is def-use derived from to_stream(seed parameter), a Generator, or the sampling object's own random_state; "
             "(G2) no module-level numpy.random draw and no re-seeding outside Experiment.reset_seed_data; (G3) to_stream's three "
             "branches (path summaries); (G4) no seed-or-generator parameter is converted, or handed on raw, inside a loop; (G5) a function "
             "that receives a seed hands a value derived from it to every callee parameter that reaches a draw.",
        note="Not decided: validity of sampled outcomes at the cumulative-sum boundary, prefix counting, distributional agreement "
             "(numerical / statistical).",
        technique=TECH + "def-use analysis of random streams over a resolved call graph with a seed-sink fixpoint"),
    "C15": dict(
        text="Decides: (H1) no loop hands a loop-invariant raw seed to a seed sink (parameter kinds joined over all call sites, so a "
             "helper only ever given spawned generators is judged by what it is given); (H2) every joblib.Parallel task gets a stream "
             "derived from the comprehension variable; (H3) SeedSequence.spawn children become one Generator each and the tasks iterate "
             "that list; (H4) re-estimation reaches no draw and estimates from what it loads / from the stored distributions; (H5) the "
             "physicality check dispatches each estimator kind to the constraints it enforces; (H6) the two depolarising implementations "
             "compose the channel on the same side per kind; (H7) all four tomography classes bind the data-generation calls the "
             "simulation makes.",
        note="Not decided: bit-for-bit equality across worker counts, physicality of noise-model outputs, the depolarising mixing "
             "proportion (numerical).",
        technique=TECH + "seed-sink / stream-kind dataflow with call-site joins, loop-invariance, slot conformance, sibling agreement"),
    "C20": dict(
        text="Decides the accept language itself, as long as the validators stay inside the loop-free guard-and-raise fragment: (V5) the "
             "order validator's guards are abstracted to predicates over kind sequences and enumerated over all 1365 sequences up to "
             "length 5 against an independent statement of the grammar; the item validator's guards cover tuple/arity/types/kind/range in "
             "a safe order; (V6) each tomography validator's position/index/length pins, combined with the experiment's rules and the "
             "kinds its Experiment is built with, accept exactly the class's own shape; (V1) raise/catch exhaustiveness and definite "
             "assignment of handler reads; (V2) validate-before-store in the constructor and five setters; (V3) kind tables; (V4) None "
             "guard and reverse order in calc_prob_dist.",
        note="Not decided: executability of accepted schedules and normalisation of their distributions (numerical). Outside the "
             "guard-and-raise fragment the rule answers UNDECIDED (exit 2).",
        technique=TECH + "predicate extraction from guard chains with exhaustive enumeration of the abstract input language, CFG "
                         "exception edges with definite assignment, dominance (validate-before-store), table agreement"),
    "C17": dict(
        text="Decides, by complete enumeration of the folded catalogues (about 40k names; the 39k two-qutrit names sampled in the quick "
             "tier, enumerated in the thorough tier): (Y1) every function name a dispatch template (eval of a name built from the "
             "catalogued name) can produce under its dominating membership guards exists in the module and the call made through it "
             "binds, branch by branch; (Y2) every such eval is dominated by a catalogue membership test and dispatch chains end in a "
             "raise / never fall through to an unassigned result; (Y3) the catalogues fold to non-empty duplicate-free lists. By constant "
             "propagation over the catalogue modules' syntax trees (qsa.consteval; nothing of quara is imported or run): (Y4) for the 15 "
             "one-qubit and 5 two-qubit gates the hand-written tables agree - U unitary, HS = tr(B_a^† U B_b U^†), exp(-iH) = U, "
             "sum vec_a B_a = H, Lindbladian = HS(-i[H,.]), exp(L) = HS; (Y5) a gate for permuted qubit ids is the ascending table with "
             "role k on qubit ids[k] (2- and 3-qubit gates, all permutations); (Y6) the Pauli bases are the textbook ones; (Y7) composite "
             "names are tensored left to right at every fold site; (Y8) state vectors are normalised, density = v v^†, x/y/z and Bell "
             "names have the eigen / stabiliser signs they name, composite = Kronecker product of parts, the legacy constructors of "
             "state.py / gate.py carry the same tables; (Y9) POVM elements are positive and sum to 1, rank-1 elements are projectors on "
             "their vectors, x/y/z are projectors on the catalogued states, the legacy POVM vectors agree, every named measurement "
             "process is trace preserving in total and measures the POVM of its base name.",
        note="Not decided: the 39k two-qutrit gate names' matrices, and every object form that needs a run-time CompositeSystem "
             "(generate_*_from_name(c_sys, ...)): only their dispatch is decided. Evals over derived locals (split name items, Pauli types) are listed as "
             "informational. Known finding F8 (unguarded eval fall-through in povm_typical).",
        technique=TECH + "constant folding of the string/list fragment, path-sensitive guard evaluation, name-template resolution "
                         "and call binding, CFG definite assignment; constant propagation (an interpreter over the constant fragment of the "
                         "catalogue syntax trees) with sibling-table agreement on the propagated constants"),
    "C04": dict(
        text="Decides the structural clauses of the projection property for all inputs: (S1) every eigen-decomposition whose eigenvectors "
             "are used reconstructs as V.diag(w).V-dagger with eigh (an eig routine with V-dagger, a plain transpose, a row access or "
             "iteration over rows is reported); (S2) only negative eigenvalues are replaced, by 0; (S3) an interprocedural flow-sensitive "
             "alias/effect analysis shows that none of the 16 projection methods, the optimiser closures and the two physical-projection "
             "routines writes to an argument, through views and callees; (S4) equality projections write exactly the constrained "
             "coordinates on a private copy (State, Gate), compute vec - mean + c (Povm) and spread (sum row0 - e0)/m (MProcess), "
             "object- and variable-level siblings alike (decided on path summaries, so conditional expression, if/else and guard-clause "
             "spellings are one thing); (S5) an option resolved against the object's own value is used in resolved form below, including "
             "inside the projection closures.",
        note="Not decided: that the projections are nearest points, idempotence, agreement of object- and variable-level results as numbers.",
        technique=TECH + "matrix-product normal form of spectral reconstructions, may-alias/mutation effect summaries over the call graph "
                         "(view vs copy numpy table), path-sensitive symbolic summaries, linear-form comparison with role identification, CFG dominance"),
    "C13": dict(
        text="Decides the structural reasons results depend on arguments only: (N1) the effect summary of every function (about 1380 in the "
             "quick tier, all 1530 of quara outside the optional-dependency adapters in the thorough tier) mutates no parameter, with "
             "root-cause reporting and a three-entry allow-list of documented configuration calls; (N2) the nine lazy tables of "
             "CompositeSystem are None-initialised, read only through guarded accessors, built from the immutable total basis, and "
             "cleared one by one; (N3) bases and Povm store fresh, frozen arrays; (N4) copy() carries every stored field and deep-copies "
             "the value; (N5) globals are written only by documented setters; (N6) algorithms re-set every field optimize reads; (N7) in the "
             "loss / algorithm / estimator / experiment classes no store of an argument-derived field is skipped because of the object's "
             "own earlier state (hidden memoisation).",
        note="Not decided: byte-level equality over arbitrary interleavings (the rules are the structural reasons it can hold). Sparse "
             "basis elements cannot be frozen by numpy flags and stay writable. Known finding F5 (cached projection closure).",
        technique=TECH + "interprocedural alias/effect analysis with origin tracking, typestate/must-write analysis, cache-coherence "
                         "rules over class attribute readers and writers"),
    "C06": dict(
        text="Decides structural necessary conditions of composition for all operands: (O1) the 12 dispatched type pairs read only "
             "attributes their guarded classes have, with the right kind; (O2) wherever HS matrices of both operands are multiplied the "
             "later operation is the left factor, and maps act on states from the left; (O3) flat lists filled by a nested loop over both "
             "operands' outcomes are labelled by a shape concatenated in the same order, and all composition helpers are "
             "earlier-operation-major; (O4) Heisenberg products put the POVM vector on the left of the map, the outcome probability is the "
             "trace functional (sqrt(d) * coefficient 0) and the post-state is divided by its own probability; (S1) the projective "
             "back-action takes eigenvectors as columns and builds v v-dagger; (S2) for a repeated eigenvalue the eigenspace projector is "
             "summed before the quadratic term is formed; (O5) the n-ary fold is right-to-left.",
        note="Not decided: Born-rule numbers, normalisation, physicality of composites, associativity as an equality of numbers.",
        technique=TECH + "guard-typed attribute checking, operand-ownership analysis of matrix products and loop nests, spectral "
                         "discipline rules, scalar d-exponent normal form"),
    "C07": dict(
        text="Decides: (K1) the identity blocks padding the commutation matrix in the vec-permutation are products of the sizes they "
             "stand for (dimension algebra of kron), with the commutation block built from the swapped neighbours; (O3) product "
             "measurements / ensembles fill their flat lists in the order their shape concatenates the operands; (O1) the 13 tensor "
             "dispatch branches read existing attributes and unsupported pairs raise; (P1) CompositeSystem sorts a copy of its systems "
             "by name before storing and builds the ordered product basis from the stored tuple; (P2) every helper multiplies operand 1 "
             "first and derives its permutation from the same unsorted concatenation it multiplied in; (K2) the adjacent-transposition sort "
             "reads only the working copies it swaps, and swaps order and sizes at the same positions.",
        note="Not decided: that the permutation matrices are the right permutations, product statistics, the qutrit embedding "
             "(numerical). Known finding F2 (measurement-process tensor layout vs shape).",
        technique=TECH + "aggregate-operator (dimension algebra) check, loop-nest/shape ownership agreement, guard-typed attribute "
                         "checking, CFG dominance"),
    "C16": dict(
        text="Layout clauses only: (X2) exact symbolic evaluation of the two index functions for every rank 1..4 and all radices shows "
             "the encoder is row-major and encoder/decoder are mutual inverses on 0 <= s < prod n; (X1) the six users of multi-indices "
             "go through the encoder with their own shape or through a default-order reshape; (X3) two-index lists are filled in the order "
             "their shape states (tensor products and the ensemble compositions); (X4) a distribution re-created from a reduced / sliced "
             "probability array reports that array's own axis sizes in its axis order.",
        note="Not decided: marginals, conditionals, normalisation, zero thresholds (numerical). Known finding F2.",
        technique=TECH + "exact symbolic interpretation (polynomial normal forms, divmod with range reasoning, loop unrolling), "
                         "who-may-compute rule, loop-nest/shape agreement"),
    "C08": dict(
        text="Decides the assembly of the forward model: (M1) coefficient matrix and offset vector stack their dictionaries in the same "
             "sorted (schedule, outcome) order and calc_prob_dists applies A x + b to the variables of the parametrisation in force; (M2) "
             "every stored coefficient row has its offset stored under the same key in the same branch; (M3) each tomography class reads "
             "states / POVMs / its unknown from schedule positions its own validator pins to that kind, and indexes every object list by the "
             "index read for that kind; (M4) operand roles (outer(povm, "
             "state) row-major; state vector in block m_index; POVM vectors as rows); (M5) offsets and skipped coordinates are those the "
             "parametrisation implies (d^-1/2 povm[0]; d^1/2 state[0] with the last element substituted; c[0] and c[d^2:]).",
        note="Not decided: equality of the affine model and the circuit as maps (the property's own method, comparison on an affine "
             "basis, is execution), full column rank.",
        technique=TECH + "table/position agreement with the validators' extracted pins, key-pairing of dictionary stores, "
                         "definition normal forms and d-exponent arithmetic"),
    "C18": dict(
        text="Narrow structural clauses: (T1) is_tp / is_cp use the caller's tolerance absolutely; (S4) the equality projection zeroes "
             "exactly row 0 on a private deep copy; (S1) the inequality projection reconstructs V diag(w) V-dagger from eigh and clips only "
             "negative eigenvalues; (Q1) homogeneity degree: the dissipator built from jump operators must be quadratic in them and the H / "
             "J parts linear; (Q2) the constant first row is the same in verdict, projection and variable conversion, and the conversion "
             "binds the base class's generate_from_var call; (Q3) a class overriding an object-level projection overrides the "
             "variable-level twin; (Q4) the sparse fast paths hand the pre-computed tables a coefficient vector that enumerates K in the order "
             "the table rows were built, so every K[r,c] multiplies the same matrix as in the _slowly reference; (Q5) is_cp tests "
             "calc_k_mat() itself (or its Hermitian part built with the adjoint).",
        note="Not decided: GKSL action, decomposition / recomposition identities, exponentiation (numerical). Known findings F12 "
             "(jump-operator anticommutator part is linear in L) and F7 (variable-level projections inherited from Gate).",
        technique=TECH + "tolerance flow, spectral-discipline normal form, homogeneity-degree (units-style) abstract domain, slot and "
                         "constraint-constant agreement, override-pair completeness"),
}

NOT_APPLICABLE = {
    "C19": "every clause equates a closed-form floating-point expression with an expectation over multinomial sampling; no clause's "
           "truth is in the shape of the code beyond trivial wiring, so no sound static rule exists (DESIGN.md section 5)",
}


# rules added after the seeded-change rounds (appended so that the per-property texts above stay readable)
_ADDENDA = {
    "C05": " (K4, last sweep) the iterates of the sweep that satisfies the stopping test are appended to the history lists before the loop is left.",
    "C06": " (O6) MProcess.to_povm builds element x from ROW 0 of the HS matrix (the adjoint map applied to the identity) with the factor sqrt(d).",
    "C09": " (L7) calc_matA / calc_vecB build their result afresh from the sorted coefficient dictionaries on every call (no cached array that another method could update).",
    "C08": " (M1, accessors) calc_matA / calc_vecB are pure functions of the coefficient dictionaries (fresh stack on every call, sorted key order).",
    "C10": " (K4, last sweep) as in C05.",
    "C11": " (A7) every row-structured cvxpy reshape of the variable vector states order='C' (cvxpy's default is column-major).",
    "C12": " (W2, memoisation) a builder that keeps an existing derived value - a test on the derived field itself - does not count as a rebuild.",
    "C14": " (G6) re-seeding discipline: an Experiment constructed inside quara is handed a seed only from a caller's seed parameter (never the stored seed of another object), and reset_seed_data is called only from the constructor or with the caller's own argument.",
    "C15": " (H8) in the simulation / setting classes a keyword argument that names a field of the object is fed from the like-named field.",
    "C16": " (X4, squeeze) axes are dropped only by naming them: an untargeted squeeze would also drop free axes of length 1.",
}
for _k, _v in _ADDENDA.items():
    CLAIMS[_k]["text"] = CLAIMS[_k]["text"].rstrip() + _v

# rules added in round 4 of the seeded changes
_ADDENDA4 = {
    "C01": " (T3', shortcut) the coefficient-0 shortcut for a trace, sqrt(d) * vec[0], is taken only under the flag is_orthonormal_hermitian_0thprop_identity.",
    "C03": " (I8) option wiring: where a conversion hands its own parameters on by keyword, no parameter is handed to the slot of another of its parameters that the callee also has.",
    "C06": " (O4, weights) the probabilities returned for one branch of an ensemble are the branch weight times the conditional probabilities, renormalised before the weight is applied.",
    "C07": " (E1) qutrit-to-qubit embedding: the coefficient of the identity padded onto the extra level is 0 for a state, 1/N over the N POVM elements and 1/sqrt(N) over ALL N Kraus operators of a gate / measurement process.",
    "C08": " (M6) the measurement-process model repeats the process model on the block diagonal (block_diag / kron(I, c)), m - 1 or m times.",
    "C10": " (P7) the equality projections the estimators iterate with carry the constants their parametrisation implies (rule S4 of C04 re-run).",
    "C11": " (A8) loss expressions built schedule by schedule reset the per-schedule partial sum for every schedule.",
    "C12": " (W8) no loop in the loss functions reads a variable that only an earlier loop binds.",
    "C15": " (H9) checks and simulations that compute one value per sample size / repetition collect it inside the loop that computes it.",
    "C17": " (Y10) the state-name guard accepts exactly the catalogue (constant evaluation on every catalogued name and on uncatalogued probes built from catalogued parts).",
    "C18": " (Q6) calc_h_mat normalises the Hamiltonian coefficients by 2d for every dimension d.",
    "C20": " (V7) an accepted schedule is executed with the objects it names: object lists are indexed by the index read from the schedule item of that kind (rule M3 of C08 re-run).",
}
for _k, _v in _ADDENDA4.items():
    CLAIMS[_k]["text"] = CLAIMS[_k]["text"].rstrip() + _v

# rules added in round 5 of the seeded changes
_ADDENDA5 = {
    "C01": " (T3', all elements) the POVM positivity verdict looks at every element (no early exit with True, no sub-range).",
    "C03": " (I5, gate) Gate's variable conversion removes / re-inserts exactly the d^2 entries of the first row.",
    "C04": " (S6) the equality projections write the constants their parametrisation implies over the whole constrained part (rule I5 of C03 re-run on calc_proj_eq_constraint*).",
    "C05": " (K5) the projection factories hand out the closure of the algorithm they are named after; (K6) as S6 of C04.",
    "C07": " (P2, counts) composite POVM outcome counts are derived from the sorted system order, as the tensor product is.",
    "C08": " (M5, dimension) the coefficient builder is handed the dimension of the object whose coefficients it fills.",
    "C09": " (L8) the A and b the estimator inverts hold the circuit's coefficients (rules M4 / M5 of C08 re-run).",
    "C10": " (P8) as S6 of C04; (P9) as K5 of C05.",
    "C11": " (A9) a loop accumulating loss terms over outcomes / schedules visits every term (no break).",
    "C12": " (W8, items) nor does code after a loop read the loop's item variable as if it were a per-item value.",
    "C13": " (N8) property getters do not write to the object they are read from, except a guarded lazy cache of their own field.",
    "C15": " (H10) the simulation settings hand the stream they receive to every callee that draws (rule G5 of C14 re-run on quara.simulation).",
    "C16": " (X2, fallback) where the symbolic comparison of two index expressions is inconclusive, the same abstract interpreter is instantiated with constant radices (a handful of small shapes) and a disagreement with the row-major digits is reported as a counterexample; agreement on those shapes proves nothing and leaves the obligation undecided.",
    "C18": " (Q7) EffectiveLindbladian.is_tp compares the whole first row of the HS matrix with zero.",
}
for _k, _v in _ADDENDA5.items():
    CLAIMS[_k]["text"] = CLAIMS[_k]["text"].rstrip() + _v
