"""Verdict bookkeeping: obligations, known findings, evidence and replay files."""
from __future__ import annotations

import hashlib
import json
import os
import time
from typing import Dict, List, Optional

from . import VERIF
from .index import AnalysisError, norm_src

HOLDS, VIOLATION, UNDECIDED, INFO = "HOLDS", "VIOLATION", "UNDECIDED", "INFO"


class Ob:
    """One rule instance (an obligation) and its verdict."""

    def __init__(self, rule, func, construct, status, detail="", file=None, line=None,
                 chain=None, nontrivial=True, label=None):
        self.rule = rule
        self.func = func
        self.construct = norm_src(construct) if construct is not None else ""
        self.status = status
        self.detail = detail
        self.file = file
        self.line = line
        self.chain = list(chain) if chain else None
        self.nontrivial = nontrivial
        self.label = label
        self.known: Optional[dict] = None

    def key(self):
        return (self.rule, self.func, self.construct)

    def to_json(self):
        d = {"rule": self.rule, "function": self.func, "construct": self.construct,
             "verdict": self.status, "detail": self.detail}
        if self.file:
            d["where"] = "%s:%s" % (self.file, self.line)
        if self.chain:
            d["chain"] = self.chain
        if self.label:
            d["path_label"] = self.label
        if self.known:
            d["known_finding"] = self.known.get("id")
        return d


class Report:
    def __init__(self, property_id: str, tier: str, seed: int = 0):
        self.pid = property_id
        self.tier = tier
        self.seed = seed
        self.obs: List[Ob] = []
        self._bykey: Dict[tuple, Ob] = {}
        self.floors: Dict[str, int] = {}
        self.rule_text: Dict[str, str] = {}
        self.stats: Dict[str, object] = {}
        self.notes: List[str] = []
        self.errors: List[str] = []
        self.t0 = time.time()
        self.assumptions: List[str] = []
        self.selftest: Optional[dict] = None

    # ------------------------------------------------------------------ adding
    def rule(self, rule_id: str, text: str, floor: int = 1):
        """Declare a rule with its one-line statement and instance floor."""
        self.rule_text[rule_id] = text
        self.floors[rule_id] = floor

    def add(self, ob: Ob) -> Ob:
        # one obligation per (rule, function, construct); a violation reached through a second
        # chain is the same violation
        k = ob.key()
        prev = self._bykey.get(k)
        if prev is not None and ob.status != INFO:
            order = {VIOLATION: 3, UNDECIDED: 2, HOLDS: 1, INFO: 0}
            if order[ob.status] > order[prev.status]:
                prev.status, prev.detail, prev.chain, prev.line = ob.status, ob.detail, ob.chain, ob.line
            return prev
        if ob.status != INFO:
            self._bykey[k] = ob
        self.obs.append(ob)
        return ob

    def _mk(self, status, rule, func, construct, detail="", node=None, file=None, line=None, **kw):
        fq = func
        if hasattr(func, "qualname"):
            fq = func.qualname
            file = file or func.file
            line = line or getattr(node, "lineno", None) or func.line
        elif node is not None and line is None:
            line = getattr(node, "lineno", None)
        if construct is None and node is not None:
            construct = node
        return self.add(Ob(rule, fq, construct, status, detail, file, line, **kw))

    def holds(self, rule, func, construct, detail="", node=None, **kw):
        return self._mk(HOLDS, rule, func, construct, detail, node, **kw)

    def violation(self, rule, func, construct, detail="", node=None, **kw):
        return self._mk(VIOLATION, rule, func, construct, detail, node, **kw)

    def undecided(self, rule, func, construct, detail="", node=None, **kw):
        return self._mk(UNDECIDED, rule, func, construct, detail, node, **kw)

    def info(self, rule, func, construct, detail="", node=None, **kw):
        kw.setdefault("nontrivial", False)
        return self._mk(INFO, rule, func, construct, detail, node, **kw)

    def check(self, cond, rule, func, construct, ok="", bad="", node=None, **kw):
        if cond:
            return self.holds(rule, func, construct, ok, node, **kw)
        return self.violation(rule, func, construct, bad, node, **kw)

    def note(self, text):
        self.notes.append(text)

    def error(self, text):
        self.errors.append(text)

    # ---------------------------------------------------------------- finishing
    def _load_known(self) -> List[dict]:
        p = os.path.join(VERIF, "known_findings.json")
        if not os.path.exists(p):
            return []
        with open(p) as fh:
            data = json.load(fh)
        return [f for f in data.get("findings", []) if f.get("property") == self.pid]

    def match_known(self):
        """Attach known-finding entries to the violations they list (idempotent)."""
        known = self._load_known()
        used = set()
        for ob in self.obs:
            if ob.status == VIOLATION:
                ob.known = None
                for k in known:
                    if (k.get("rule") == ob.rule and k.get("function") == ob.func
                            and norm_src(k.get("construct", "")) == ob.construct):
                        ob.known = k
                        used.add(k.get("id"))
                        break
        return known, used

    def finish(self, write=True, evidence_dir=None, quiet=False) -> int:
        out = []
        known, used_known = self.match_known()
        # floors: a rule that matched fewer instances than confirmed by hand is broken analysis
        counts: Dict[str, int] = {}
        for ob in self.obs:
            if ob.status != INFO:
                counts[ob.rule] = counts.get(ob.rule, 0) + 1
        # A behaviour-preserving clean-up (two copies of a block merged into one helper, a loop replacing repeated code)
        # legitimately lowers an instance count, so only a collapse - no instance at all, or fewer than half of the
        # reference count - is treated as broken analysis; a smaller drop is recorded as a note in the evidence.
        for r, fl in self.floors.items():
            got = counts.get(r, 0)
            if got < max(1 if fl > 0 else 0, (fl + 1) // 2):
                self.errors.append("rule %s matched %d instance(s), reference count is %d (an anchor moved or vanished; the rule would pass vacuously)"
                                   % (r, got, fl))
            elif got < fl:
                self.notes.append("rule %s matched %d instance(s), reference count is %d: some instances were merged or are no longer recognised" % (r, got, fl))
        viols = [ob for ob in self.obs if ob.status == VIOLATION and ob.known is None]
        undec = [ob for ob in self.obs if ob.status == UNDECIDED]
        for ob in undec:
            self.errors.append("UNDECIDED %s %s: %s (%s)" % (ob.rule, ob.func, ob.construct[:120], ob.detail))
        evidence_dir = evidence_dir or os.path.join(VERIF, "evidence")
        replay_dir = os.path.join(evidence_dir, "replay")
        code = 0
        for ob in self.obs:
            if ob.known is not None:
                out.append("KNOWN-FINDING: property=%s [%s] %s (%s in %s, %s:%s)" % (
                    self.pid, ob.known.get("id"), " ".join(str(ob.known.get("what", ob.detail)).split())[:260],
                    ob.rule, ob.func.split("quara.")[-1], ob.file, ob.line))
        for k in known:
            if k.get("id") not in used_known:
                out.append("NOTE: known finding %s (%s %s) no longer fires on this tree" % (k.get("id"), k.get("rule"), k.get("function")))
        for ob in viols:
            code = 1
            h = hashlib.sha1(("%s|%s|%s" % ob.key()).encode()).hexdigest()[:10]
            rp = os.path.join(replay_dir, "%s-%s-%s.json" % (self.pid, ob.rule.replace("/", "_"), h))
            if write:
                os.makedirs(replay_dir, exist_ok=True)
                with open(rp, "w") as fh:
                    json.dump({"property": self.pid, **ob.to_json(),
                               "rule_text": self.rule_text.get(ob.rule, "")}, fh, indent=1)
            out.append("  %s:%s: [%s] %s :: %s" % (ob.file, ob.line, ob.rule, ob.func, ob.construct[:160]))
            out.append("      rule: %s" % self.rule_text.get(ob.rule, ""))
            out.append("      why : %s" % ob.detail)
            if ob.chain:
                out.append("      via : %s" % " -> ".join(ob.chain))
            out.append("VIOLATION property=%s replay=%s" % (self.pid, rp))
        if self.errors:
            for e in self.errors:
                out.append("ANALYSIS-ERROR property=%s %s" % (self.pid, e))
            if code == 0:
                code = 2
        wall = time.time() - self.t0
        if write:
            self._write_evidence(evidence_dir, wall, len(viols))
        nh = sum(1 for o in self.obs if o.status == HOLDS)
        nk = sum(1 for o in self.obs if o.known is not None)
        out.append("%s %s: %d obligations, %d hold, %d known finding(s), %d violation(s), %d undecided, %.2fs"
                   % (self.pid, self.tier, sum(counts.values()), nh, nk, len(viols), len(undec), wall))
        for n in self.notes:
            out.append("note: " + n)
        if not quiet:
            print("\n".join(out))
        self.output = out
        return code

    def _write_evidence(self, evidence_dir, wall, nviol):
        os.makedirs(evidence_dir, exist_ok=True)
        obs = [o for o in self.obs if o.status != INFO]
        distinct = len({o.key() for o in obs if o.nontrivial})
        per_rule = {}
        for o in obs:
            d = per_rule.setdefault(o.rule, {"rule": self.rule_text.get(o.rule, ""), "instances": 0,
                                             "holds": 0, "violations": 0, "known_findings": 0, "undecided": 0,
                                             "floor": self.floors.get(o.rule, 0)})
            d["instances"] += 1
            if o.status == HOLDS:
                d["holds"] += 1
            elif o.status == UNDECIDED:
                d["undecided"] += 1
            elif o.known is not None:
                d["known_findings"] += 1
            else:
                d["violations"] += 1
        # samples: every non-holding obligation plus a rotating sample of the holding ones
        bad = [o.to_json() for o in obs if o.status != HOLDS]
        good = [o for o in obs if o.status == HOLDS]
        step = max(1, len(good) // 12)
        off = self.seed % step if step else 0
        samples = bad[:40] + [o.to_json() for o in good[off::step][:14]]
        cov = {
            "explanation": ("static analysis of /repo/quara (ast only; nothing is imported or run). "
                            "Each obligation is one rule instance (rule, function, construct) decided on the "
                            "code's normal form; rules: " +
                            "; ".join("%s = %s" % kv for kv in sorted(self.rule_text.items()))),
            "evaluations": len(obs),
            "distinct_nontrivial": distinct,
            "rule": ("an evaluation is one (rule, function, construct) obligation enumerated from the current tree; it is "
                     "non-trivial when deciding it required a non-empty analysis (the construct exists and was "
                     "normalised / traversed), distinct by its (rule, function, construct) key"),
            "obligations": len(obs),
            "discharged": sum(1 for o in obs if o.status == HOLDS),
            "known_findings": sum(1 for o in obs if o.known is not None),
            "undecided": sum(1 for o in obs if o.status == UNDECIDED),
            "per_rule": per_rule,
            "samples": samples or [{"note": "no obligations"}],
            "exhaustive": True,
            "analysed": self.stats,
            "informational": [o.to_json() for o in self.obs if o.status == INFO][:30],
            "notes": self.notes,
            "analysis_errors": self.errors,
        }
        if self.selftest is not None:
            cov["selftest"] = self.selftest
        ev = {
            "property_id": self.pid,
            "tier": self.tier,
            "seed": int(self.seed),
            "level": "other",
            "coverage": cov,
            "assumptions": self.assumptions or [
                "python `ast` parses the files the interpreter would run",
                "numpy/scipy API classification tables in qsa (view vs copy, closeness predicates, sampling routines) are correct",
                "HOLDS means the named structural necessary condition holds, not the numerical behaviour",
            ],
            "wall_s": round(wall, 3),
            "violations": nviol,
        }
        with open(os.path.join(evidence_dir, "%s.json" % self.pid), "w") as fh:
            json.dump(ev, fh, indent=1, default=str)



class Relay:
    """Forwards the obligations a rule function of another property produces to `rep` under this property's
    own rule id, keeping only those `keep(func, construct)` selects.  Lets a property re-run the rule that
    decides a clause it shares with a sibling property (a checker is run per property)."""

    def __init__(self, rep, rule_map, keep=None):
        self.rep, self.rule_map, self.keep = rep, rule_map, keep
        self.stats = rep.stats

    def _go(self, meth, rule, func, construct, *a, **kw):
        if rule not in self.rule_map:
            return None
        if self.keep is not None and not self.keep(func, construct):
            return None
        return getattr(self.rep, meth)(self.rule_map[rule], func, construct, *a, **kw)

    def holds(self, rule, func, construct, *a, **kw):
        return self._go("holds", rule, func, construct, *a, **kw)

    def violation(self, rule, func, construct, *a, **kw):
        return self._go("violation", rule, func, construct, *a, **kw)

    def undecided(self, rule, func, construct, *a, **kw):
        return self._go("undecided", rule, func, construct, *a, **kw)

    def info(self, rule, func, construct, *a, **kw):
        return self._go("info", rule, func, construct, *a, **kw)

    def check(self, cond, rule, func, construct, ok="", bad="", node=None, **kw):
        if cond:
            return self.holds(rule, func, construct, ok, node, **kw)
        return self.violation(rule, func, construct, bad, node, **kw)

    def rule(self, *a, **kw):
        pass

    def note(self, text):
        self.rep.note(text)
