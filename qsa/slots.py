"""R5 - slot conformance, and I7/N4 - state-field completeness of re-creating methods.

Slot: a call whose callee is chosen per subclass - `self.__class__(...)`, or the function a
`_generate_from_var_func()` hook returns.  Every concrete subclass that *inherits* the calling
method must fill the slot with something the call binds to.
"""
from __future__ import annotations

import ast
from typing import Dict, List, Optional, Tuple

from .astutil import inline, returns, single_defs, unparse
from .defined import is_abstract
from .index import Class, Func, dotted, own_nodes
from .resolve import bind_call


def concrete_subclasses(base: Class) -> List[Class]:
    out = []
    for c in [base] + base.all_subclasses():
        # concrete = defines or inherits a non-abstract __init__ and is not the abstract root
        if c is base:
            continue
        out.append(c)
    return sorted(out, key=lambda c: c.qualname)


def class_call_sites(ctx, method: Func) -> List[ast.Call]:
    """`self.__class__(...)` / `type(self)(...)` calls in `method`."""
    out = []
    s = method.self_name
    for n in own_nodes(method.node):
        if isinstance(n, ast.Call):
            fn = n.func
            if isinstance(fn, ast.Attribute) and fn.attr == "__class__" and isinstance(fn.value, ast.Name) and fn.value.id == s:
                out.append(n)
            elif isinstance(fn, ast.Call) and dotted(fn.func) == "type" and fn.args and isinstance(fn.args[0], ast.Name) \
                    and fn.args[0].id == s:
                out.append(n)
    return out


def factory_call_sites(ctx, method: Func, hook: str) -> List[ast.Call]:
    """Calls of the value returned by `self.<hook>()` in `method`."""
    out = []
    defs = single_defs(method)
    s = method.self_name

    def is_hook_call(e):
        return isinstance(e, ast.Call) and isinstance(e.func, ast.Attribute) and e.func.attr == hook \
            and isinstance(e.func.value, ast.Name) and e.func.value.id == s

    for n in own_nodes(method.node):
        if isinstance(n, ast.Call):
            fn = n.func
            if isinstance(fn, ast.Name) and fn.id in defs and is_hook_call(defs[fn.id]):
                out.append(n)
            elif is_hook_call(fn):
                out.append(n)
    return out


def hook_target(ctx, c: Class, hook: str) -> Optional[Func]:
    h = c.lookup(hook)
    if h is None or is_abstract(h):
        return None
    for r in returns(h):
        t = ctx.ix.resolve_expr(h.module, r.value, h) if r.value is not None else None
        if isinstance(t, Func):
            return t
    return None


def check_slots(ctx, base: Class, hook: str = "_generate_from_var_func"):
    """Yields (status, caller Func, subclass, call node, filler description, errors)."""
    subs = concrete_subclasses(base)
    for m in list(base.methods.values()):
        sites_c = class_call_sites(ctx, m)
        sites_f = factory_call_sites(ctx, m, hook)
        if not sites_c and not sites_f:
            continue
        for c in subs:
            if c.lookup(m.name) is not m:
                continue  # subclass overrides the caller
            for call in sites_c:
                init = c.lookup("__init__")
                if init is None:
                    continue
                _, errs = bind_call(call, init, True)
                yield (m, c, call, "%s.__init__" % c.name, errs)
            for call in sites_f:
                t = hook_target(ctx, c, hook)
                if t is None:
                    yield (m, c, call, "%s.%s()" % (c.name, hook), ["hook returns no resolvable function"])
                    continue
                _, errs = bind_call(call, t, False)
                yield (m, c, call, t.qualname, errs)
    # overriding callers in subclasses that themselves use the slots
    for c in subs:
        for m in c.methods.values():
            sites_c = class_call_sites(ctx, m)
            for call in sites_c:
                for k in [c] + c.all_subclasses():
                    if k.lookup(m.name) is not m:
                        continue
                    init = k.lookup("__init__")
                    if init is None:
                        continue
                    _, errs = bind_call(call, init, True)
                    yield (m, k, call, "%s.__init__" % k.name, errs)


# --------------------------------------------------------------------------- I7 / N4
def stored_ctor_params(ctx, c: Class) -> Dict[str, str]:
    """Constructor parameters (through super().__init__ forwarding) that end up stored on the
    instance: param -> attribute."""
    out: Dict[str, str] = {}
    init = c.lookup("__init__")
    if init is None:
        return out
    s = init.self_name
    params = set(init.params)
    for n in own_nodes(init.node):
        if isinstance(n, (ast.Assign, ast.AnnAssign)):
            tgts = n.targets if isinstance(n, ast.Assign) else [n.target]
            v = n.value
            for t in tgts:
                if isinstance(t, ast.Attribute) and isinstance(t.value, ast.Name) and t.value.id == s and v is not None:
                    for nm in ast.walk(v):
                        if isinstance(nm, ast.Name) and nm.id in params:
                            out.setdefault(nm.id, t.attr)
        elif isinstance(n, ast.Call):
            fn = n.func
            # super().__init__(p=p, ...) forwards
            if isinstance(fn, ast.Attribute) and fn.attr == "__init__" and isinstance(fn.value, ast.Call) \
                    and dotted(fn.value.func) == "super":
                for b in c.mro()[1:]:
                    if "__init__" in b.methods:
                        base_stored = stored_ctor_params(ctx, b)
                        binding, _ = bind_call(n, b.methods["__init__"], True)
                        for bp, e in binding.items():
                            if bp in base_stored and isinstance(e, ast.Name) and e.id in params:
                                out.setdefault(e.id, base_stored[bp])
                        break
            # self.set_x(p, q) helpers that store
            elif isinstance(fn, ast.Attribute) and isinstance(fn.value, ast.Name) and fn.value.id == s:
                m = c.lookup(fn.attr)
                if m is not None and m.self_name:
                    binding, _ = bind_call(n, m, True)
                    stores = {}
                    for sub in own_nodes(m.node):
                        if isinstance(sub, ast.Assign):
                            for t in sub.targets:
                                if isinstance(t, ast.Attribute) and isinstance(t.value, ast.Name) and t.value.id == m.self_name:
                                    for nm in ast.walk(sub.value):
                                        if isinstance(nm, ast.Name) and nm.id in binding:
                                            stores[nm.id] = t.attr
                    for mp, attr in stores.items():
                        e = binding.get(mp)
                        if isinstance(e, ast.Name) and e.id in params:
                            out.setdefault(e.id, attr)
    return out


def _own_value(method: Func, e: ast.AST, param: str, attr: str, defs, depth=0, ctx=None) -> Tuple[bool, str]:
    """Is `e` the instance's own value of the field (self.param / self._attr), a deep copy of it,
    a value unpacked from self._copy(), or `x if x is not None else self.param`?"""
    s = method.self_name
    if depth > 5:
        return False, "too deep"
    if isinstance(e, ast.Attribute) and isinstance(e.value, ast.Name) and e.value.id == s:
        return (e.attr in (param, attr, "_" + param), "self.%s" % e.attr)
    if isinstance(e, ast.Call) and dotted(e.func) == "getattr" and len(e.args) == 2 and isinstance(e.args[0], ast.Name) and e.args[0].id == s \
            and isinstance(e.args[1], ast.Constant) and isinstance(e.args[1].value, str):
        return (e.args[1].value in (param, attr, "_" + param), "getattr(self, %r)" % e.args[1].value)
    if isinstance(e, ast.Call) and ctx is not None and (e.args or e.keywords):
        # a small private helper (nested function / _method with one returned expression) is seen through
        from .symsum import expand_calls
        e2 = expand_calls(ctx, method, e)
        if unparse(e2) != unparse(e):
            return _own_value(method, e2, param, attr, defs, depth + 1, ctx)
    if isinstance(e, ast.Call):
        dn = dotted(e.func) or ""
        if dn.split(".")[-1] in ("deepcopy", "copy") and e.args:
            return _own_value(method, e.args[0], param, attr, defs, depth + 1, ctx)
        if isinstance(e.func, ast.Attribute) and isinstance(e.func.value, ast.Name) and e.func.value.id == s and not e.args:
            # self._copy() style helpers return own values
            return True, "self.%s()" % e.func.attr
    if isinstance(e, ast.IfExp):
        # x if x is not None else self.x   |   self.x if x is None else x
        for own, other in ((e.body, e.orelse), (e.orelse, e.body)):
            ok, _ = _own_value(method, own, param, attr, defs, depth + 1, ctx)
            if ok and isinstance(other, ast.Name) and other.id in method.params:
                return True, "caller override defaulting to own value"
        return False, unparse(e)
    if isinstance(e, ast.Name):
        if e.id in defs:
            return _own_value(method, defs[e.id], param, attr, defs, depth + 1, ctx)
        # tuple-unpacked from self._copy()
        for n in own_nodes(method.node):
            if isinstance(n, ast.Assign) and len(n.targets) == 1 and isinstance(n.targets[0], ast.Tuple):
                if any(isinstance(t, ast.Name) and t.id == e.id for t in n.targets[0].elts):
                    return _own_value(method, n.value, param, attr, defs, depth + 1, ctx)
        # reassigned parameter with the defaulting idiom: p = self.p if p is None else p
        binds = [n for n in own_nodes(method.node) if isinstance(n, ast.Assign) and len(n.targets) == 1
                 and isinstance(n.targets[0], ast.Name) and n.targets[0].id == e.id]
        if len(binds) == 1:
            return _own_value(method, binds[0].value, param, attr, defs, depth + 1, ctx)
        if e.id in method.params:
            d = method.param_defaults().get(e.id)
            return False, "parameter '%s' (default %s) never defaults to the instance's value" % (e.id, unparse(d) if d is not None else "none")
    return False, unparse(e)


def check_field_completeness(ctx, method: Func, cls: Class, call: ast.Call, target_init_or_func: Func, bound: bool,
                             value_params=()):
    """For a re-creating call: every stored ctor parameter must receive the instance's own value.
    Yields (param, ok, detail).  `value_params` are the parameters that carry the new value itself."""
    stored = stored_ctor_params(ctx, cls)
    # `**self._settings()` / `**settings`: a dictionary of keyword arguments is written out where it can be read (a dict literal or
    # dict(k=v) call, bound once in the method or returned by a private method of the same object); otherwise what it carries is unknown
    unread = None
    if any(k.arg is None for k in call.keywords):
        import copy as _copy
        defs0 = single_defs(method)
        kws = []
        for k in call.keywords:
            if k.arg is not None:
                kws.append(k)
                continue
            v = k.value
            if isinstance(v, ast.Name) and v.id in defs0:
                v = defs0[v.id]
            if isinstance(v, ast.Call) and isinstance(v.func, ast.Attribute) and isinstance(v.func.value, ast.Name) and v.func.value.id == method.self_name \
                    and not v.args and not v.keywords and method.cls is not None:
                h = method.cls.lookup(v.func.attr)
                from .astutil import returns as _returns
                rs = _returns(h) if h is not None else []
                if len(rs) == 1 and h.self_name == method.self_name:
                    v = rs[0].value
                    if isinstance(v, ast.Name):
                        v = single_defs(h).get(v.id, v)
            if isinstance(v, ast.Dict) and all(isinstance(x, ast.Constant) and isinstance(x.value, str) for x in v.keys):
                kws += [ast.keyword(arg=x.value, value=y) for x, y in zip(v.keys, v.values)]
            elif isinstance(v, ast.Call) and dotted(v.func) == "dict" and not v.args and all(x.arg is not None for x in v.keywords):
                kws += list(v.keywords)
            else:
                unread = unparse(k.value)
        call = _copy.copy(call)
        call.keywords = kws
    binding, _ = bind_call(call, target_init_or_func, bound)
    defs = single_defs(method)
    for p, attr in sorted(stored.items()):
        if p in value_params:
            continue
        if p not in binding and unread is not None:
            yield (p, None, "keyword arguments are handed over as **%s, which is not read" % unread)
            continue
        if p not in binding:
            if p in [a.arg for a in target_init_or_func.all_params]:
                d = target_init_or_func.param_defaults().get(p)
                yield (p, False, "not passed: the new object gets the default %s instead of self.%s" % (
                    unparse(d) if d is not None else "?", attr))
            else:
                yield (p, False, "the slot filler has no parameter '%s', so self.%s cannot be carried over" % (p, attr))
            continue
        ok, why = _own_value(method, binding[p], p, attr, defs, 0, ctx)
        yield (p, ok, why)


def keyword_field_agreement(ctx, func):
    """For every call inside the method `func` that passes `keyword=self.<attr>`: when the object also has a field / property named
    like the keyword, that one is the value meant.  Yields (call node, keyword, attr, ok, has_like_named_field)."""
    from .defined import Definedness
    import ast as _ast
    if func.self_name is None or func.cls is None:
        return
    d = Definedness(ctx.res)
    for c in own_nodes(func.node):
        if not isinstance(c, _ast.Call):
            continue
        for k in c.keywords:
            v = k.value
            if k.arg and isinstance(v, _ast.Attribute) and isinstance(v.value, _ast.Name) and v.value.id == func.self_name:
                same = v.attr.lstrip("_") == k.arg.lstrip("_")
                like = any(d.has_member(func.cls, nm) for nm in (k.arg, "_" + k.arg.lstrip("_"), k.arg.lstrip("_")))
                yield c, k.arg, v.attr, same, like


def cross_wired_keywords(ctx, func):
    """Calls inside `func` that pass `k=v` where k and v are two DIFFERENT parameters of func and the callee (resolved inside the
    repository) has parameters named k and v as well: the option v is wired into the slot of option k.
    Yields (call node, k, v, callee qualname)."""
    import ast as _ast
    from .index import Class as _Class, Func as _Func
    params = {p.arg for p in func.all_params}
    if len(params) < 2:
        return
    for c in own_nodes(func.node):
        if not isinstance(c, _ast.Call) or not c.keywords:
            continue
        cands = [(k.arg, k.value.id) for k in c.keywords if k.arg and isinstance(k.value, _ast.Name) and k.value.id != k.arg
                 and k.arg in params and k.value.id in params]
        if not cands:
            continue
        targets = []
        try:
            for t in ctx.res.resolve_call(func, c, by_name=False):
                if isinstance(t, _Class):
                    init = t.lookup("__init__")
                    if init is not None:
                        targets.append(init)
                elif isinstance(t, _Func):
                    targets.append(t)
        except Exception:
            targets = []
        for k, v in cands:
            for t in targets:
                names = {p.arg for p in t.all_params}
                if k in names and v in names:
                    yield c, k, v, t.qualname
                    break
