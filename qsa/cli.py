"""./check <ID> [--tier quick|thorough] [--replay <path>] [--repo <dir>]"""
from __future__ import annotations

import argparse
import importlib
import json
import os
import sys
import traceback

from . import REPO, VERIF
from .index import AnalysisError, Index
from .report import Report
from .resolve import Resolver


class Ctx:
    def __init__(self, repo: str, tier: str):
        self.repo = repo
        self.tier = tier
        self.ix = Index(repo)
        self.res = Resolver(self.ix)
        self._cfgs = {}

    def cfg(self, func):
        from .cfg import CFG
        c = self._cfgs.get(func.qualname)
        if c is None:
            c = self._cfgs[func.qualname] = CFG(func.node)
        return c


def run_property(pid: str, repo: str, tier: str, seed: int = 0, write=True, evidence_dir=None,
                 quiet=False, selftest=True, _normalise=True):
    """Run all rules of one property; returns (exit code, Report)."""
    rep = Report(pid, tier, seed)
    try:
        ctx = Ctx(repo, tier)
        if ctx.ix.parse_errors:
            for e in ctx.ix.parse_errors:
                rep.error("file does not parse: " + e)
        rep.stats["files_parsed"] = len(ctx.ix.modules)
        rep.stats["functions_indexed"] = len(ctx.ix.funcs)
        rep.stats["classes_indexed"] = len(ctx.ix.classes)
        mod = importlib.import_module("qsa.rules.%s" % pid.lower())
        mod.run(ctx, rep)
        if tier == "thorough" and selftest:
            from . import selftest as st
            rep.selftest = st.run_matrix(pid, repo, rep)
    except AnalysisError as e:
        rep.error(str(e))
    except Exception as e:  # internal error of the analysis, never a property verdict
        rep.error("internal error: %s: %s | %s" % (type(e).__name__, e,
                                                   traceback.format_exc().strip().splitlines()[-3:]))
    if _normalise and not rep.errors:
        try:
            _second_opinion(pid, repo, tier, seed, rep)
        except Exception as e:  # the second opinion is an aid; its failure leaves the first verdicts as they are
            rep.note("normalised re-run failed: %s: %s" % (type(e).__name__, e))
    code = rep.finish(write=write, evidence_dir=evidence_dir, quiet=quiet)
    return code, rep


def _second_opinion(pid, repo, tier, seed, rep):
    """Rules that are contested on the source as written - an obligation could not be decided, an instance count
    collapsed, or a violation is reported - are re-examined on a semantics-preserving normal form of the program
    (private helpers inlined statement by statement, see qsa.normalize).  The property is a statement about behaviour, so
    it has the same truth value on both forms.  Per rule: if the rule is fully decided on the normal form and every
    obligation holds there (or is a listed known finding), those obligations replace the contested ones; otherwise the
    verdicts obtained on the source as written stand."""
    import shutil
    import tempfile
    from .report import UNDECIDED, VIOLATION, HOLDS, INFO
    rep.match_known()
    counts = {}
    for o in rep.obs:
        if o.status != INFO:
            counts[o.rule] = counts.get(o.rule, 0) + 1
    contested = {o.rule for o in rep.obs if o.status == UNDECIDED or (o.status == VIOLATION and o.known is None)}
    contested |= {r for r, fl in rep.floors.items() if counts.get(r, 0) < max(1 if fl > 0 else 0, (fl + 1) // 2)}
    contested = sorted(contested)
    if not contested:
        return
    from .normalize import anchors_from_rules, normalise_repo
    anchors = anchors_from_rules(VERIF)
    all_adopted = []
    for form, opts in (("private helpers inlined", {}),
                       ("private helpers inlined, append loops written as comprehensions", {"comprehensions": True}),
                       ("locals renamed to the rule vocabulary", {"inline": False, "derename": True}),
                       ("private helpers inlined, append loops written as comprehensions, locals renamed to the rule vocabulary",
                        {"comprehensions": True, "derename": True})):
        if not contested:
            break
        d = tempfile.mkdtemp(prefix="qsa_norm_")
        try:
            stats = normalise_repo(repo, d, anchors, **opts)
            if not (stats["calls_inlined"] or stats.get("loops_rewritten") or stats.get("locals_renamed")):
                continue
            code2, rep2 = run_property(pid, d, "quick", seed, write=False, quiet=True, selftest=False, _normalise=False)
            adopted = []
            for r in contested:
                obs2 = [o for o in rep2.obs if o.rule == r and o.status in (HOLDS, VIOLATION, UNDECIDED)]
                if not obs2 or any(o.status == UNDECIDED for o in obs2):
                    continue
                if len(obs2) < max(1, (rep.floors.get(r, 1) + 1) // 2):
                    continue
                if any(o.status == VIOLATION and o.known is None for o in obs2):
                    # a violation on both forms stands as reported on the source; a violation seen on the normal form only is not
                    # adopted either (the rule's reading of the rewritten code is not the reference): the source verdict stays
                    continue
                # replace this rule's obligations by the ones decided on the normal form
                rep.obs = [o for o in rep.obs if o.rule != r]
                rep._bykey = {k: v for k, v in rep._bykey.items() if v.rule != r}
                for o in obs2:
                    o.detail = (o.detail or "") + " [decided on the normal form of the program: %s]" % form
                    rep.add(o)
                adopted.append(r)
            # per function: an obligation speaks about one function, and the normal form preserves the behaviour of every
            # function; where the rule as a whole is not settled on the normal form (the rewriting may take ANOTHER function of
            # the rule out of the recognised fragment), the contested functions are still read there one by one
            for r in contested:
                if r in adopted or counts.get(r, 0) < max(1 if rep.floors.get(r, 0) > 0 else 0, (rep.floors.get(r, 0) + 1) // 2):
                    continue
                bad = [o for o in rep.obs if o.rule == r and (o.status == UNDECIDED or (o.status == VIOLATION and o.known is None))]
                settled = []
                for fn in sorted({o.func for o in bad}):
                    obs2 = [o for o in rep2.obs if o.rule == r and o.func == fn and o.status in (HOLDS, VIOLATION, UNDECIDED)]
                    if not obs2 or any(o.status == UNDECIDED or (o.status == VIOLATION and o.known is None) for o in obs2):
                        continue
                    rep.obs = [o for o in rep.obs if not (o.rule == r and o.func == fn)]
                    rep._bykey = {k: v for k, v in rep._bykey.items() if not (v.rule == r and v.func == fn)}
                    for o in obs2:
                        o.detail = (o.detail or "") + " [decided on the normal form of the program: %s]" % form
                        rep.add(o)
                    settled.append(fn)
                if settled:
                    rep.note("rule %s: the obligations of %s were contested on the source as written and are decided on its normal form (%s)"
                             % (r, ", ".join(settled), form))
                    rep.stats.setdefault("normal_form", dict(stats, rules_adopted=list(all_adopted))).setdefault("functions_adopted", []).extend(
                        "%s:%s" % (r, fn) for fn in settled)
                    if not any(o.rule == r and (o.status == UNDECIDED or (o.status == VIOLATION and o.known is None)) for o in rep.obs):
                        adopted.append(r)
                        all_adopted.append(r)
            if adopted:
                rep.note("rule(s) %s were contested on the source as written and are decided on its normal form (%s: %d helper calls inlined, "
                         "%d loops rewritten, %d locals renamed in %d files)" % (", ".join(adopted), form, stats["calls_inlined"],
                                                                               stats.get("loops_rewritten", 0), stats.get("locals_renamed", 0),
                                                                               stats["files_changed"]))
                all_adopted += [r for r in adopted if r not in all_adopted]
                rep.stats["normal_form"] = dict(stats, rules_adopted=list(all_adopted))
                # a rule adopted with violations stays as it is; the others leave the contested set
                contested = [r for r in contested if r not in adopted]
        finally:
            shutil.rmtree(d, ignore_errors=True)


def replay(path: str, repo: str) -> int:
    with open(path) as fh:
        r = json.load(fh)
    pid = r["property"]
    code, rep = run_property(pid, repo, "quick", write=False, quiet=True, selftest=False)
    hit = [o for o in rep.obs if o.rule == r["rule"] and o.func == r["function"] and o.construct == r["construct"]]
    if not hit:
        print("replay: %s %s no longer has the construct %r on this tree" % (r["rule"], r["function"], r["construct"][:120]))
        return 0
    for o in hit:
        print("replay: [%s] %s:%s %s -> %s (%s)" % (o.rule, o.file, o.line, o.func, o.status, o.detail))
        if o.status == "VIOLATION" and o.known is None:
            print("VIOLATION property=%s replay=%s" % (pid, path))
            return 1
    return 0


def main(argv=None):
    ap = argparse.ArgumentParser(prog="check")
    ap.add_argument("property")
    ap.add_argument("--tier", default=os.environ.get("VERIF_TIER", "quick"), choices=["quick", "thorough"])
    ap.add_argument("--replay")
    ap.add_argument("--repo", default=REPO)
    ap.add_argument("--no-write", action="store_true")
    a = ap.parse_args(argv)
    try:
        seed = int(os.environ.get("VERIF_SEED", "0"))
    except ValueError:
        seed = 0
    if a.replay:
        return replay(a.replay, a.repo)
    code, _ = run_property(a.property.upper(), a.repo, a.tier, seed, write=not a.no_write)
    return code


if __name__ == "__main__":
    try:
        rc = main()
    except SystemExit:
        raise
    except BaseException as e:  # pragma: no cover
        print("ANALYSIS-ERROR internal: %r" % (e,))
        rc = 2
    sys.exit(rc)
