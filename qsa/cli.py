"""./check <ID> [--tier quick|thorough] [--replay <path>] [--repo <dir>]"""
from __future__ import annotations

import argparse
import importlib
import json
import os
import sys
import traceback

from . import REPO, VERIF
from .index import AnalysisError, Index
from .report import Report
from .resolve import Resolver


class Ctx:
    def __init__(self, repo: str, tier: str):
        self.repo = repo
        self.tier = tier
        self.ix = Index(repo)
        self.res = Resolver(self.ix)
        self._cfgs = {}

    def cfg(self, func):
        from .cfg import CFG
        c = self._cfgs.get(func.qualname)
        if c is None:
            c = self._cfgs[func.qualname] = CFG(func.node)
        return c


def run_property(pid: str, repo: str, tier: str, seed: int = 0, write=True, evidence_dir=None,
                 quiet=False, selftest=True):
    """Run all rules of one property; returns (exit code, Report)."""
    rep = Report(pid, tier, seed)
    try:
        ctx = Ctx(repo, tier)
        if ctx.ix.parse_errors:
            for e in ctx.ix.parse_errors:
                rep.error("file does not parse: " + e)
        rep.stats["files_parsed"] = len(ctx.ix.modules)
        rep.stats["functions_indexed"] = len(ctx.ix.funcs)
        rep.stats["classes_indexed"] = len(ctx.ix.classes)
        mod = importlib.import_module("qsa.rules.%s" % pid.lower())
        mod.run(ctx, rep)
        if tier == "thorough" and selftest:
            from . import selftest as st
            rep.selftest = st.run_matrix(pid, repo, rep)
    except AnalysisError as e:
        rep.error(str(e))
    except Exception as e:  # internal error of the analysis, never a property verdict
        rep.error("internal error: %s: %s | %s" % (type(e).__name__, e,
                                                   traceback.format_exc().strip().splitlines()[-3:]))
    code = rep.finish(write=write, evidence_dir=evidence_dir, quiet=quiet)
    return code, rep


def replay(path: str, repo: str) -> int:
    with open(path) as fh:
        r = json.load(fh)
    pid = r["property"]
    code, rep = run_property(pid, repo, "quick", write=False, quiet=True, selftest=False)
    hit = [o for o in rep.obs if o.rule == r["rule"] and o.func == r["function"] and o.construct == r["construct"]]
    if not hit:
        print("replay: %s %s no longer has the construct %r on this tree" % (r["rule"], r["function"], r["construct"][:120]))
        return 0
    for o in hit:
        print("replay: [%s] %s:%s %s -> %s (%s)" % (o.rule, o.file, o.line, o.func, o.status, o.detail))
        if o.status == "VIOLATION" and o.known is None:
            print("VIOLATION property=%s replay=%s" % (pid, path))
            return 1
    return 0


def main(argv=None):
    ap = argparse.ArgumentParser(prog="check")
    ap.add_argument("property")
    ap.add_argument("--tier", default=os.environ.get("VERIF_TIER", "quick"), choices=["quick", "thorough"])
    ap.add_argument("--replay")
    ap.add_argument("--repo", default=REPO)
    ap.add_argument("--no-write", action="store_true")
    a = ap.parse_args(argv)
    try:
        seed = int(os.environ.get("VERIF_SEED", "0"))
    except ValueError:
        seed = 0
    if a.replay:
        return replay(a.replay, a.repo)
    code, _ = run_property(a.property.upper(), a.repo, a.tier, seed, write=not a.no_write)
    return code


if __name__ == "__main__":
    try:
        rc = main()
    except SystemExit:
        raise
    except BaseException as e:  # pragma: no cover
        print("ANALYSIS-ERROR internal: %r" % (e,))
        rc = 2
    sys.exit(rc)
