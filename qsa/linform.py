"""E6 (affine part) - linear forms with exact rational coefficients.

A linear form is sum c_i * t_i; a term t_i is a symbol (str) or an opaque application
('app', name, frozen linear form of its argument).  Commutativity, re-association, double
negation and a - (b - c) normalise away; nothing is widened: expressions outside the fragment
raise NotLinear.
"""
from __future__ import annotations

import ast
from fractions import Fraction
from typing import Callable, Dict, Optional, Tuple

from .astutil import const, unparse, NOCONST


class NotLinear(Exception):
    pass


class Lin:
    __slots__ = ("t",)

    def __init__(self, terms=None):
        self.t: Dict[object, Fraction] = {k: Fraction(v) for k, v in (terms or {}).items() if v != 0}

    @staticmethod
    def sym(name) -> "Lin":
        return Lin({name: 1})

    def __add__(self, o):
        d = dict(self.t)
        for k, v in o.t.items():
            d[k] = d.get(k, Fraction(0)) + v
        return Lin(d)

    def __sub__(self, o):
        return self + o.scale(-1)

    def scale(self, c):
        return Lin({k: v * Fraction(c) for k, v in self.t.items()})

    def frozen(self):
        return tuple(sorted(((repr(k), k, v) for k, v in self.t.items()), key=lambda x: x[0]))

    def key(self):
        return tuple((r, v) for r, _, v in self.frozen())

    def __eq__(self, o):
        return isinstance(o, Lin) and self.key() == o.key()

    def __hash__(self):
        return hash(self.key())

    def app(self, name) -> "Lin":
        return Lin({("app", name, self.key(), self): 1})

    def __repr__(self):
        if not self.t:
            return "0"
        out = []
        for r, k, v in self.frozen():
            ks = k if isinstance(k, str) else "%s(%r)" % (k[1], k[3])
            if v == 1:
                out.append("+ " + ks)
            elif v == -1:
                out.append("- " + ks)
            else:
                out.append("%s %s*%s" % ("+" if v > 0 else "-", abs(v), ks))
        s = " ".join(out)
        return s[2:] if s.startswith("+ ") else s


def eval_lin(e: ast.AST, env: Dict[str, Lin], app: Optional[Callable[[ast.Call, Callable], Optional[Lin]]] = None,
             scalars=()) -> Lin:
    """Evaluate `e` to a linear form.  `app(call, rec)` may interpret a call (returning a Lin or None).
    Names in `scalars` are scalar symbols: `s * v` and `v / s` become opaque linear maps
    scale[s](v) / scale[1/s](v)."""
    def rec(x):
        return eval_lin(x, env, app, scalars)

    if isinstance(e, ast.Name):
        if e.id in env:
            return env[e.id]
        raise NotLinear("unbound name %s" % e.id)
    if isinstance(e, ast.BinOp):
        if isinstance(e.op, ast.Add):
            return rec(e.left) + rec(e.right)
        if isinstance(e.op, ast.Sub):
            return rec(e.left) - rec(e.right)
        if isinstance(e.op, (ast.Mult, ast.Div)):
            if isinstance(e.op, ast.Mult) and isinstance(e.left, ast.Name) and e.left.id in scalars:
                return rec(e.right).app("scale[%s]" % e.left.id)
            if isinstance(e.right, ast.Name) and e.right.id in scalars:
                return rec(e.left).app("scale[%s%s]" % ("" if isinstance(e.op, ast.Mult) else "1/", e.right.id))
            cl, cr = const(e.left), const(e.right)
            if isinstance(e.op, ast.Mult) and cl is not NOCONST and isinstance(cl, (int, float)):
                return rec(e.right).scale(Fraction(cl).limit_denominator(10 ** 9))
            if cr is not NOCONST and isinstance(cr, (int, float)) and cr != 0:
                c = Fraction(cr).limit_denominator(10 ** 9)
                return rec(e.left).scale(c if isinstance(e.op, ast.Mult) else 1 / c)
    if isinstance(e, ast.UnaryOp) and isinstance(e.op, ast.USub):
        return rec(e.operand).scale(-1)
    if isinstance(e, ast.UnaryOp) and isinstance(e.op, ast.UAdd):
        return rec(e.operand)
    if isinstance(e, ast.Call) and app is not None:
        r = app(e, rec)
        if r is not None:
            return r
    raise NotLinear("not a linear expression: %s" % unparse(e)[:100])
