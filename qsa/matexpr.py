"""E6 (matrix part) - normal form of matrix products.

A product is a list of factors (base, conj, transposed) with the identities
(AB)^T = B^T A^T, conj(AB) = conj(A) conj(B), conj∘T = T∘conj, double conj/T cancel.
Recognised spellings: `@`, np.dot/np.matmul/.dot, `.T`, np.transpose/.transpose(),
`.conj()`, `.conjugate()`, np.conjugate/np.conj.  Anything else is an opaque base whose text
is its normalised source.
"""
from __future__ import annotations

import ast
from typing import List, Optional, Tuple

from .astutil import unparse
from .index import dotted

Factor = Tuple[str, bool, bool]  # (base text, conj, transposed)


def _last(d: Optional[str]) -> str:
    return (d or "").split(".")[-1]


def product(e: ast.AST) -> List[Factor]:
    """Normal form of expression `e` as a matrix product."""
    return _prod(e, False, False)


def _prod(e: ast.AST, conj: bool, tr: bool) -> List[Factor]:
    if isinstance(e, ast.BinOp) and isinstance(e.op, ast.MatMult):
        l, r = _prod(e.left, conj, tr), _prod(e.right, conj, tr)
        return (r + l) if tr else (l + r)
    if isinstance(e, ast.Attribute) and e.attr == "T":
        return _prod(e.value, conj, not tr)
    if isinstance(e, ast.Call):
        dn = dotted(e.func)
        fn = e.func
        # method spellings
        if isinstance(fn, ast.Attribute) and not e.args and not e.keywords:
            if fn.attr in ("conj", "conjugate"):
                return _prod(fn.value, not conj, tr)
            if fn.attr == "transpose":
                return _prod(fn.value, conj, not tr)
            if fn.attr in ("toarray", "todense", "copy"):
                return _prod(fn.value, conj, tr)
        if isinstance(fn, ast.Attribute) and fn.attr == "dot" and len(e.args) == 1 and _last(dn) == "dot" \
                and not (dn or "").startswith(("np.", "numpy.")):
            l, r = _prod(fn.value, conj, tr), _prod(e.args[0], conj, tr)
            return (r + l) if tr else (l + r)
        if dn and (dn.startswith("np.") or dn.startswith("numpy.")):
            name = _last(dn)
            if name in ("conjugate", "conj") and len(e.args) == 1:
                return _prod(e.args[0], not conj, tr)
            if name == "transpose" and len(e.args) == 1:
                return _prod(e.args[0], conj, not tr)
            if name in ("dot", "matmul") and len(e.args) == 2:
                l, r = _prod(e.args[0], conj, tr), _prod(e.args[1], conj, tr)
                return (r + l) if tr else (l + r)
            if name in ("asarray", "array") and len(e.args) == 1 and isinstance(e.args[0], ast.Name):
                return _prod(e.args[0], conj, tr)
    return [(unparse(e), conj, tr)]


def is_adjoint_of(a: Factor, b: Factor) -> bool:
    return a[0] == b[0] and a[1] != b[1] and a[2] != b[2]


def fmt(p: List[Factor]) -> str:
    out = []
    for base, c, t in p:
        s = base
        if c and t:
            s += "^†"
        elif c:
            s += "^*"
        elif t:
            s += "^T"
        out.append(s)
    return " · ".join(out)


def product_nodes(e: ast.AST):
    """Like `product` but each factor is (node, conj, transposed)."""
    return _prodn(e, False, False)


def _prodn(e, conj, tr):
    if isinstance(e, ast.BinOp) and isinstance(e.op, ast.MatMult):
        l, r = _prodn(e.left, conj, tr), _prodn(e.right, conj, tr)
        return (r + l) if tr else (l + r)
    if isinstance(e, ast.Attribute) and e.attr == "T":
        return _prodn(e.value, conj, not tr)
    if isinstance(e, ast.Call):
        dn = dotted(e.func)
        fn = e.func
        if isinstance(fn, ast.Attribute) and not e.args and not e.keywords:
            if fn.attr in ("conj", "conjugate"):
                return _prodn(fn.value, not conj, tr)
            if fn.attr == "transpose":
                return _prodn(fn.value, conj, not tr)
        if isinstance(fn, ast.Attribute) and fn.attr == "dot" and len(e.args) == 1 and not (dn or "").startswith(("np.", "numpy.")):
            l, r = _prodn(fn.value, conj, tr), _prodn(e.args[0], conj, tr)
            return (r + l) if tr else (l + r)
        if dn and dn.startswith(("np.", "numpy.")):
            name = _last(dn)
            if name in ("conjugate", "conj") and len(e.args) == 1:
                return _prodn(e.args[0], not conj, tr)
            if name == "transpose" and len(e.args) == 1:
                return _prodn(e.args[0], conj, not tr)
            if name in ("dot", "matmul") and len(e.args) == 2:
                l, r = _prodn(e.args[0], conj, tr), _prodn(e.args[1], conj, tr)
                return (r + l) if tr else (l + r)
    return [(e, conj, tr)]
