"""E7 (shapes) - symbolic numpy shapes for straight-line code: tuples of polynomials.

Small on purpose: zeros/ones/eye/identity, `.shape` (also unpacked), basic slicing and integer
indexing, element-wise arithmetic with broadcasting (unequal symbolic extents are unified),
inv/`.T`/copy.  Unknown constructs give None (unknown shape), never a guess.
"""
from __future__ import annotations

import ast
from typing import Dict, List, Optional, Tuple

from .astutil import unparse
from .index import dotted
from .poly import Poly

Shape = Tuple[Poly, ...]


class ShapeEnv:
    def __init__(self):
        self.shape: Dict[str, Optional[Shape]] = {}
        self.scalar: Dict[str, Poly] = {}
        self.eqs: List[Tuple[Poly, Poly]] = []
        self._n = 0

    def fresh(self, hint="n") -> Poly:
        self._n += 1
        return Poly.sym("%s%d" % (hint, self._n))

    # ---------------------------------------------------------------- scalars
    def sc(self, e: ast.AST) -> Optional[Poly]:
        if isinstance(e, ast.Constant) and isinstance(e.value, int) and not isinstance(e.value, bool):
            return Poly.const(e.value)
        if isinstance(e, ast.Name):
            return self.scalar.get(e.id)
        if isinstance(e, ast.UnaryOp) and isinstance(e.op, ast.USub):
            v = self.sc(e.operand)
            return -v if v is not None else None
        if isinstance(e, ast.BinOp):
            l, r = self.sc(e.left), self.sc(e.right)
            if l is None or r is None:
                return None
            if isinstance(e.op, ast.Add):
                return l + r
            if isinstance(e.op, ast.Sub):
                return l - r
            if isinstance(e.op, ast.Mult):
                return l * r
            if isinstance(e.op, ast.Pow):
                try:
                    return l ** r
                except ValueError:
                    return None
        if isinstance(e, ast.Subscript) and isinstance(e.value, ast.Attribute) and e.value.attr == "shape":
            sh = self.sh(e.value.value)
            if sh is not None and isinstance(e.slice, ast.Constant) and isinstance(e.slice.value, int) and -len(sh) <= e.slice.value < len(sh):
                return sh[e.slice.value]
        if isinstance(e, ast.Call) and dotted(e.func) == "len" and e.args:
            sh = self.sh(e.args[0])
            if sh:
                return sh[0]
        return None

    # ----------------------------------------------------------------- shapes
    def sh(self, e: ast.AST) -> Optional[Shape]:
        if isinstance(e, ast.Name):
            return self.shape.get(e.id)
        if isinstance(e, ast.Attribute) and e.attr == "T":
            s = self.sh(e.value)
            return tuple(reversed(s)) if s is not None else None
        if isinstance(e, ast.Call):
            dn = dotted(e.func) or ""
            base = dn.split(".")[-1]
            if base in ("zeros", "ones", "empty") and e.args:
                return self.shape_arg(e.args[0])
            if base in ("eye", "identity") and e.args:
                n = self.sc(e.args[0])
                if n is None:
                    return None
                if base == "eye" and len(e.args) > 1:
                    m = self.sc(e.args[1])
                    return (n, m) if m is not None else None
                return (n, n)
            if base in ("inv", "pinv", "copy", "deepcopy", "conj", "conjugate", "abs", "sqrt", "real") and e.args:
                return self.sh(e.args[0])
            if base in ("zeros_like", "ones_like") and e.args:
                return self.sh(e.args[0])
            if isinstance(e.func, ast.Attribute) and e.func.attr in ("copy", "conj", "conjugate") and not e.args:
                return self.sh(e.func.value)
            return None
        if isinstance(e, ast.BinOp) and isinstance(e.op, (ast.Add, ast.Sub, ast.Mult, ast.Div, ast.Pow)):
            l, r = self.sh(e.left), self.sh(e.right)
            ls, rs = self.sc(e.left), self.sc(e.right)
            if l is None and (ls is not None or self._is_scalar_expr(e.left)):
                return r
            if r is None and (rs is not None or self._is_scalar_expr(e.right)):
                return l
            if l is None or r is None:
                return None
            return self.broadcast(l, r)
        if isinstance(e, ast.Subscript):
            base = self.sh(e.value)
            if base is None:
                return None
            idx = e.slice.elts if isinstance(e.slice, ast.Tuple) else [e.slice]
            out: List[Poly] = []
            for i, dim in enumerate(base):
                if i >= len(idx):
                    out.append(dim)
                    continue
                ix = idx[i]
                if isinstance(ix, ast.Slice):
                    if ix.step is not None:
                        return None
                    lo = self.sc(ix.lower) if ix.lower is not None else Poly.const(0)
                    hi = self.sc(ix.upper) if ix.upper is not None else dim
                    if lo is None or hi is None:
                        return None
                    c = hi.as_const()
                    if c is not None and c < 0:
                        hi = dim + hi
                    c = lo.as_const()
                    if c is not None and c < 0:
                        lo = dim + lo
                    out.append(hi - lo)
                else:
                    if self.sc(ix) is None and not isinstance(ix, ast.Constant):
                        return None
                    # integer index drops the axis
            return tuple(out)
        return None

    def _is_scalar_expr(self, e) -> bool:
        if isinstance(e, ast.Constant) and isinstance(e.value, (int, float)):
            return True
        if isinstance(e, ast.Name) and e.id in self.scalar:
            return True
        if isinstance(e, ast.BinOp):
            return self._is_scalar_expr(e.left) and self._is_scalar_expr(e.right)
        if isinstance(e, ast.UnaryOp):
            return self._is_scalar_expr(e.operand)
        return False

    def shape_arg(self, e: ast.AST) -> Optional[Shape]:
        if isinstance(e, (ast.Tuple, ast.List)):
            out = [self.sc(x) for x in e.elts]
            return tuple(out) if all(o is not None for o in out) else None
        if isinstance(e, ast.Attribute) and e.attr == "shape":
            return self.sh(e.value)
        s = self.sc(e)
        if s is not None:
            return (s,)
        if isinstance(e, ast.Name) and e.id in self.shape_tuples:
            return self.shape_tuples[e.id]
        return None

    shape_tuples: Dict[str, Shape] = {}

    def broadcast(self, l: Shape, r: Shape) -> Optional[Shape]:
        n = max(len(l), len(r))
        one = Poly.const(1)
        l = (one,) * (n - len(l)) + tuple(l)
        r = (one,) * (n - len(r)) + tuple(r)
        out = []
        for a, b in zip(l, r):
            if a == b or b == one:
                out.append(a)
            elif a == one:
                out.append(b)
            else:
                # both symbolic and different: numpy requires equality - unify
                self.eqs.append((a, b))
                out.append(a)
        return tuple(out)

    def unify_subst(self) -> Dict[str, Poly]:
        """Substitution making recorded equalities hold, when one side is a bare symbol +/- const."""
        sub: Dict[str, Poly] = {}
        for a, b in self.eqs:
            d = (a - b).subst(sub)
            syms = sorted(d.symbols())
            for s in syms:
                coef = d.t.get(((s, 1),))
                if coef is not None and all(s not in [x for x, _ in m] for m in d.t if m != ((s, 1),)):
                    rest = d - Poly({((s, 1),): coef})
                    sub[s] = rest * Poly.const(-1 / coef)
                    break
        return sub
