"""S1/S2 - spectral discipline: how the eigenvectors of an eigen-decomposition are used.

For `w, V = np.linalg.eigh(M)` (or `eig`):
* a reconstruction that multiplies with V must normalise to V · D · V† with D = diag(w) (possibly
  clipped); with `eig` (non-Hermitian routine) V† is not an inverse, so the same shape is wrong;
* where eigenvectors are enumerated they must be columns (`V[:, i]`, iteration over `V.T`), never
  the rows that `zip(w, V)` / `for v in V` yield;
* an outer product of an eigenvector conjugates one side;
* between D = diag(w) and the reconstruction the only store is D[D < 0] = 0 (or <=).
"""
from __future__ import annotations

import ast
from typing import List, Optional, Tuple

from .astutil import const, is_num, unparse
from .index import Func, dotted, own_nodes
from .matexpr import fmt, is_adjoint_of, product


class Finding:
    def __init__(self, ok: bool, node, text: str, kind: str):
        self.ok, self.node, self.text, self.kind = ok, node, text, kind


def decompositions(f: Func):
    """(assign node, routine, eigenvalue name, eigenvector name)"""
    out = []
    for n in own_nodes(f.node):
        if isinstance(n, ast.Assign) and len(n.targets) == 1 and isinstance(n.targets[0], ast.Tuple) and len(n.targets[0].elts) == 2 \
                and isinstance(n.value, ast.Call):
            dn = dotted(n.value.func) or ""
            base = dn.split(".")[-1]
            if base in ("eigh", "eig") and all(isinstance(x, ast.Name) for x in n.targets[0].elts):
                out.append((n, base, n.targets[0].elts[0].id, n.targets[0].elts[1].id))
    return out


def _scope_stmts(f: Func, dec: ast.Assign) -> List[ast.stmt]:
    """statements after the decomposition in its own block (and nested inside them)"""
    par = getattr(dec, "_parent", None)
    for field in ("body", "orelse", "finalbody"):
        blk = getattr(par, field, None)
        if isinstance(blk, list) and dec in blk:
            return blk[blk.index(dec) + 1:]
    return []


def check(f: Func) -> List[Finding]:
    out: List[Finding] = []
    for dec, routine, w, V in decompositions(f):
        stmts = _scope_stmts(f, dec)
        nodes = [n for s in stmts for n in ast.walk(s)]
        uses_V = [n for n in nodes if isinstance(n, ast.Name) and n.id == V and isinstance(n.ctx, ast.Load)]
        if not uses_V:
            continue
        # D = np.diag(w) names
        diag_names = {}
        for s in stmts:
            for n in ast.walk(s):
                if isinstance(n, ast.Assign) and len(n.targets) == 1 and isinstance(n.targets[0], ast.Name) and isinstance(n.value, ast.Call) \
                        and (dotted(n.value.func) or "").endswith("diag") and n.value.args and unparse(n.value.args[0]) == w:
                    diag_names[n.targets[0].id] = n
        handled = set()
        # (a) reconstructions: matrix products containing V
        for n in nodes:
            if isinstance(n, ast.BinOp) and isinstance(n.op, ast.MatMult) and not isinstance(getattr(n, "_parent", None), ast.BinOp):
                p = product(n)
                if not any(b == V for b, _, _ in p):
                    continue
                for x in ast.walk(n):
                    if isinstance(x, ast.Name) and x.id == V:
                        handled.add(id(x))
                ok = len(p) == 3 and p[0] == (V, False, False) and is_adjoint_of(p[0], p[2]) and p[1][0] in diag_names and not p[1][1] and not p[1][2]
                if ok and routine == "eig":
                    out.append(Finding(False, n, "reconstruction %s uses V† as the inverse of the eigenvector matrix, but the decomposition is "
                                                 "np.linalg.eig: its eigenvectors are not orthonormal in general (use eigh for the Hermitian "
                                                 "matrix, or inv(V))" % fmt(p), "S1"))
                elif ok:
                    out.append(Finding(True, n, "%s with D = diag(%s)" % (fmt(p), w), "S1"))
                else:
                    why = "reconstruction is %s; a spectral reconstruction is V · diag(w) · V† (conjugate transpose on the right)" % fmt(p)
                    out.append(Finding(False, n, why, "S1"))
        # (b) enumeration of eigenvectors
        for n in nodes:
            it = None
            if isinstance(n, (ast.For, ast.comprehension)):
                it = n.iter
            if it is None:
                continue
            rows = False
            cols = False
            if isinstance(it, ast.Name) and it.id == V:
                rows = True
            elif isinstance(it, ast.Call) and dotted(it.func) in ("zip", "enumerate"):
                for a in it.args:
                    if isinstance(a, ast.Name) and a.id == V:
                        rows = True
                    elif unparse(a) in (V + ".T", "np.transpose(%s)" % V, V + ".transpose()"):
                        cols = True
            elif unparse(it) in (V + ".T", "np.transpose(%s)" % V, V + ".transpose()"):
                cols = True
            if rows:
                for x in ast.walk(it):
                    if isinstance(x, ast.Name) and x.id == V:
                        handled.add(id(x))
                out.append(Finding(False, it, "iterating %s yields the ROWS of the eigenvector matrix; the eigenvectors returned by %s are its "
                                              "columns (use %s.T or %s[:, i])" % (unparse(it), routine, V, V), "S1"))
            elif cols:
                for x in ast.walk(it):
                    if isinstance(x, ast.Name) and x.id == V:
                        handled.add(id(x))
                out.append(Finding(True, it, "eigenvectors enumerated by column (%s)" % unparse(it), "S1"))
        # column subscripts V[:, i]
        for n in nodes:
            if isinstance(n, ast.Subscript) and isinstance(n.value, ast.Name) and n.value.id == V:
                handled.add(id(n.value))
                sl = n.slice
                if isinstance(sl, ast.Tuple) and len(sl.elts) == 2 and isinstance(sl.elts[0], ast.Slice) and sl.elts[0].lower is None and sl.elts[0].upper is None:
                    out.append(Finding(True, n, "column access %s" % unparse(n), "S1"))
                else:
                    out.append(Finding(False, n, "%s takes a row (or element) of the eigenvector matrix; eigenvectors are columns" % unparse(n), "S1"))
        # (c) outer products of single eigenvectors (names bound by the enumerations above)
        # other uses of V: shape queries are harmless; anything else is out of the fragment
        for u in uses_V:
            if id(u) in handled:
                continue
            par = getattr(u, "_parent", None)
            if isinstance(par, ast.Attribute) and par.attr in ("shape", "dtype", "ndim"):
                continue
            if isinstance(par, ast.Attribute) and par.attr == "T":
                gp = getattr(par, "_parent", None)
                if isinstance(gp, (ast.For, ast.comprehension)) or (isinstance(gp, ast.Call) and dotted(gp.func) in ("zip", "enumerate")):
                    continue
            out.append(Finding(None, u, "use of the eigenvector matrix outside the recognised forms: %s" % unparse(par if par is not None else u)[:80], "S1"))
        # S2: stores into D
        for dname, dnode in diag_names.items():
            for s in stmts:
                for n in ast.walk(s):
                    tg = None
                    if isinstance(n, ast.Assign) and len(n.targets) == 1 and isinstance(n.targets[0], ast.Subscript) \
                            and isinstance(n.targets[0].value, ast.Name) and n.targets[0].value.id == dname:
                        tg = n.targets[0]
                        m = tg.slice
                        good = isinstance(m, ast.Compare) and len(m.ops) == 1 and unparse(m.left) == dname and is_num(m.comparators[0], 0) \
                            and isinstance(m.ops[0], (ast.Lt, ast.LtE)) and is_num(n.value, 0)
                        if good:
                            out.append(Finding(True, n, "only negative eigenvalues are set to 0", "S2"))
                        else:
                            out.append(Finding(False, n, "the spectrum is changed by `%s`; a projection onto the positive cone replaces exactly the "
                                                         "negative eigenvalues by 0 (`%s[%s < 0] = 0`)" % (unparse(n), dname, dname), "S2"))
                    elif isinstance(n, ast.AugAssign) and isinstance(n.target, (ast.Name, ast.Subscript)) and dname in unparse(n.target):
                        out.append(Finding(False, n, "the spectrum is modified in place by `%s`" % unparse(n), "S2"))
            # clipping present at all?
    return out


def outer_products(f: Func) -> List[Finding]:
    """v v^T style outer products built from a loop variable: must conjugate one side."""
    out = []
    for n in own_nodes(f.node):
        # np.array([v]).T @ np.array([w])   |  np.outer(v, w)
        if isinstance(n, ast.Call) and (dotted(n.func) or "").endswith("outer") and len(n.args) == 2:
            a, b = product(n.args[0]), product(n.args[1])
            if len(a) == 1 and len(b) == 1 and a[0][0] == b[0][0]:
                ok = a[0][1] != b[0][1]
                out.append(Finding(ok, n, "outer(%s, %s)%s" % (fmt(a), fmt(b), "" if ok else ": a projector |v><v| needs the conjugate on one side"), "S1"))
        elif (isinstance(n, ast.BinOp) and isinstance(n.op, ast.MatMult)) or \
                (isinstance(n, ast.Call) and (dotted(n.func) or "") in ("np.dot", "numpy.dot", "np.matmul") and len(n.args) == 2):
            l, r = (n.left, n.right) if isinstance(n, ast.BinOp) else (n.args[0], n.args[1])

            def wrapped(e):
                # np.array([v]) / np.array([v]).T / v.reshape(-1, 1) ...
                t = False
                if isinstance(e, ast.Attribute) and e.attr == "T":
                    e, t = e.value, True
                conj = False
                if isinstance(e, ast.Call) and isinstance(e.func, ast.Attribute) and e.func.attr in ("conj", "conjugate") and not e.args:
                    e, conj = e.func.value, True
                if isinstance(e, ast.Attribute) and e.attr == "T":
                    e, t = e.value, not t
                if isinstance(e, ast.Call) and (dotted(e.func) or "").split(".")[-1] in ("array", "asarray") and e.args \
                        and isinstance(e.args[0], ast.List) and len(e.args[0].elts) == 1:
                    inner = e.args[0].elts[0]
                    p = product(inner)
                    if len(p) == 1:
                        return p[0][0], (p[0][1] != conj), t
                return None

            wl, wr = wrapped(l), wrapped(r)
            if wl and wr and wl[0] == wr[0] and wl[2] and not wr[2]:
                ok = wl[1] != wr[1]
                out.append(Finding(ok, n, "column·row product of %s%s" % (wl[0], "" if ok else " without complex conjugation: |v><v| needs v v†, "
                                                                                  "this is v v^T"), "S1"))
    return out
