"""S1/S2 - spectral discipline: how the eigenvectors of an eigen-decomposition are used.

For `w, V = np.linalg.eigh(M)` (or `eig`):
* a reconstruction that multiplies with V must normalise to V · D · V† with D = diag(w) (possibly
  clipped); with `eig` (non-Hermitian routine) V† is not an inverse, so the same shape is wrong;
* where eigenvectors are enumerated they must be columns (`V[:, i]`, iteration over `V.T`), never
  the rows that `zip(w, V)` / `for v in V` yield;
* an outer product of an eigenvector conjugates one side;
* between D = diag(w) and the reconstruction the only store is D[D < 0] = 0 (or <=).
"""
from __future__ import annotations

import ast
from typing import List, Optional, Tuple

from .astutil import const, is_num, unparse
from .index import Func, dotted, own_nodes
from .matexpr import fmt, is_adjoint_of, product


class Finding:
    def __init__(self, ok: bool, node, text: str, kind: str):
        self.ok, self.node, self.text, self.kind = ok, node, text, kind


def decompositions(f: Func):
    """(assign node, routine, eigenvalue name, eigenvector name)"""
    out = []
    for n in own_nodes(f.node):
        if isinstance(n, ast.Assign) and len(n.targets) == 1 and isinstance(n.targets[0], ast.Tuple) and len(n.targets[0].elts) == 2 \
                and isinstance(n.value, ast.Call):
            dn = dotted(n.value.func) or ""
            base = dn.split(".")[-1]
            if base in ("eigh", "eig") and all(isinstance(x, ast.Name) for x in n.targets[0].elts):
                out.append((n, base, n.targets[0].elts[0].id, n.targets[0].elts[1].id))
    return out


def _scope_stmts(f: Func, dec: ast.Assign) -> List[ast.stmt]:
    """statements after the decomposition in its own block (and nested inside them)"""
    par = getattr(dec, "_parent", None)
    for field in ("body", "orelse", "finalbody"):
        blk = getattr(par, field, None)
        if isinstance(blk, list) and dec in blk:
            return blk[blk.index(dec) + 1:]
    return []


def _is_product_root(n) -> bool:
    def is_prod(x):
        if isinstance(x, ast.BinOp) and isinstance(x.op, ast.MatMult):
            return True
        if isinstance(x, ast.Call) and (dotted(x.func) or "") in ("np.dot", "numpy.dot", "np.matmul", "numpy.matmul") and len(x.args) == 2:
            return True
        return False
    if not is_prod(n):
        return False
    par = getattr(n, "_parent", None)
    # nested inside another product (directly, or as an argument of np.dot / through .T / .conj())
    while par is not None and isinstance(par, (ast.Attribute,)) or (isinstance(par, ast.Call) and isinstance(par.func, ast.Attribute)
                                                                     and par.func.attr in ("conj", "conjugate", "transpose") and not par.args):
        par = getattr(par, "_parent", None)
    return not is_prod(par)


def check(f: Func) -> List[Finding]:
    from .astutil import clone
    out: List[Finding] = []
    for dec, routine, w, V in decompositions(f):
        stmts = _scope_stmts(f, dec)
        nodes = [n for s in stmts for n in ast.walk(s)]
        uses_V = [n for n in nodes if isinstance(n, ast.Name) and n.id == V and isinstance(n.ctx, ast.Load)]
        if not uses_V:
            continue
        # locals of the scope: name -> value, for names bound once and never updated in place
        bound, dirty = {}, set()
        for n in nodes:
            if isinstance(n, ast.Assign) and len(n.targets) == 1:
                t = n.targets[0]
                if isinstance(t, ast.Name):
                    if t.id in bound:
                        dirty.add(t.id)
                    bound[t.id] = n.value
                else:
                    b = t
                    while isinstance(b, (ast.Subscript, ast.Attribute)):
                        b = b.value
                    if isinstance(b, ast.Name):
                        dirty.add(b.id)
            elif isinstance(n, ast.AugAssign):
                b = n.target
                while isinstance(b, (ast.Subscript, ast.Attribute)):
                    b = b.value
                if isinstance(b, ast.Name):
                    dirty.add(b.id)
        # D = np.diag(w) names (these are updated in place by the clipping, so they stay names)
        diag_names = {}
        for nm, v in bound.items():
            if isinstance(v, ast.Call) and (dotted(v.func) or "").endswith("diag") and v.args and unparse(v.args[0]) == w:
                diag_names[nm] = v
        pure = {k: v for k, v in bound.items() if k not in dirty and k not in diag_names and k not in (V, w)}

        class _Inl(ast.NodeTransformer):
            def __init__(self, depth=6):
                self.depth = depth

            def visit_Name(self, n):
                if isinstance(n.ctx, ast.Load) and n.id in pure and self.depth > 0 and any(
                        isinstance(x, ast.Name) and x.id in (V, w) or isinstance(x, ast.Name) and x.id in pure for x in ast.walk(pure[n.id])):
                    return _Inl(self.depth - 1).visit(clone(pure[n.id]))
                return n
        handled = set()
        # names of pure locals that stand for (a transform of) V: uses of V inside their definitions are accounted for
        # at the place where the local is used
        for nm, v in pure.items():
            if all(isinstance(x, (ast.Name, ast.Attribute, ast.Call, ast.Load)) or not isinstance(x, ast.AST) for x in ast.walk(v)) and len(product(v)) == 1 \
                    and product(v)[0][0] == V:
                for x in ast.walk(v):
                    if isinstance(x, ast.Name) and x.id == V:
                        handled.add(id(x))
        # (a) reconstructions: matrix products containing V (after inlining the locals above)
        for n in nodes:
            if not _is_product_root(n):
                continue
            e = _Inl().visit(clone(n))
            p = product(e)
            if not any(b == V for b, _, _ in p):
                continue
            for x in ast.walk(n):
                if isinstance(x, ast.Name) and x.id == V:
                    handled.add(id(x))
            mid_ok = len(p) == 3 and (p[1][0] in diag_names or p[1][0].replace(" ", "") in ("np.diag(%s)" % w, "numpy.diag(%s)" % w)) and not p[1][1] and not p[1][2]
            ok = len(p) == 3 and p[0] == (V, False, False) and is_adjoint_of(p[0], p[2]) and mid_ok
            if ok and routine == "eig":
                out.append(Finding(False, n, "reconstruction %s uses V† as the inverse of the eigenvector matrix, but the decomposition is "
                                             "np.linalg.eig: its eigenvectors are not orthonormal in general (use eigh for the Hermitian "
                                             "matrix, or inv(V))" % fmt(p), "S1"))
            elif ok:
                out.append(Finding(True, n, "%s with D = diag(%s)" % (fmt(p), w), "S1"))
            elif len(p) == 3 and p[0][0] == V and p[2][0] == V and mid_ok:
                why = "reconstruction is %s; a spectral reconstruction is V · diag(w) · V† (conjugate transpose on the right)" % fmt(p)
                out.append(Finding(False, n, why, "S1"))
            else:
                out.append(Finding(None, n, "product %s involving the eigenvector matrix is outside the recognised reconstruction forms" % fmt(p), "S1"))
        # (b) enumeration of eigenvectors
        for n in nodes:
            it = None
            if isinstance(n, (ast.For, ast.comprehension)):
                it = n.iter
            if it is None:
                continue
            rows = False
            cols = False
            if isinstance(it, ast.Name) and it.id == V:
                rows = True
            elif isinstance(it, ast.Call) and dotted(it.func) in ("zip", "enumerate"):
                for a in it.args:
                    if isinstance(a, ast.Name) and a.id == V:
                        rows = True
                    elif unparse(a) in (V + ".T", "np.transpose(%s)" % V, V + ".transpose()"):
                        cols = True
            elif unparse(it) in (V + ".T", "np.transpose(%s)" % V, V + ".transpose()"):
                cols = True
            if rows:
                for x in ast.walk(it):
                    if isinstance(x, ast.Name) and x.id == V:
                        handled.add(id(x))
                out.append(Finding(False, it, "iterating %s yields the ROWS of the eigenvector matrix; the eigenvectors returned by %s are its "
                                              "columns (use %s.T or %s[:, i])" % (unparse(it), routine, V, V), "S1"))
            elif cols:
                for x in ast.walk(it):
                    if isinstance(x, ast.Name) and x.id == V:
                        handled.add(id(x))
                out.append(Finding(True, it, "eigenvectors enumerated by column (%s)" % unparse(it), "S1"))
        # column subscripts V[:, i]
        for n in nodes:
            if isinstance(n, ast.Subscript) and isinstance(n.value, ast.Name) and n.value.id == V:
                handled.add(id(n.value))
                sl = n.slice
                if isinstance(sl, ast.Tuple) and len(sl.elts) == 2 and isinstance(sl.elts[0], ast.Slice) and sl.elts[0].lower is None and sl.elts[0].upper is None:
                    out.append(Finding(True, n, "column access %s" % unparse(n), "S1"))
                else:
                    out.append(Finding(False, n, "%s takes a row (or element) of the eigenvector matrix; eigenvectors are columns" % unparse(n), "S1"))
        # other uses of V: shape queries are harmless; anything else is out of the fragment
        for u in uses_V:
            if id(u) in handled:
                continue
            par = getattr(u, "_parent", None)
            if isinstance(par, ast.Attribute) and par.attr in ("shape", "dtype", "ndim"):
                continue
            if isinstance(par, ast.Attribute) and par.attr == "T":
                gp = getattr(par, "_parent", None)
                if isinstance(gp, (ast.For, ast.comprehension)) or (isinstance(gp, ast.Call) and dotted(gp.func) in ("zip", "enumerate")):
                    continue
            out.append(Finding(None, u, "use of the eigenvector matrix outside the recognised forms: %s" % unparse(par if par is not None else u)[:80], "S1"))
        # S2: stores into D
        for dname, dnode in diag_names.items():
            for s in stmts:
                for n in ast.walk(s):
                    if isinstance(n, ast.Assign) and len(n.targets) == 1 and isinstance(n.targets[0], ast.Subscript) \
                            and isinstance(n.targets[0].value, ast.Name) and n.targets[0].value.id == dname:
                        m = n.targets[0].slice
                        good = isinstance(m, ast.Compare) and len(m.ops) == 1 and unparse(m.left) == dname and is_num(m.comparators[0], 0) \
                            and isinstance(m.ops[0], (ast.Lt, ast.LtE)) and is_num(n.value, 0)
                        if good:
                            out.append(Finding(True, n, "only negative eigenvalues are set to 0", "S2"))
                        else:
                            out.append(Finding(False, n, "the spectrum is changed by `%s`; a projection onto the positive cone replaces exactly the "
                                                         "negative eigenvalues by 0 (`%s[%s < 0] = 0`)" % (unparse(n), dname, dname), "S2"))
                    elif isinstance(n, ast.AugAssign) and isinstance(n.target, (ast.Name, ast.Subscript)) and dname in unparse(n.target):
                        out.append(Finding(False, n, "the spectrum is modified in place by `%s`" % unparse(n), "S2"))
    return out


def outer_products(f: Func) -> List[Finding]:
    """v v^T style outer products built from a loop variable: must conjugate one side."""
    out = []
    for n in own_nodes(f.node):
        # np.array([v]).T @ np.array([w])   |  np.outer(v, w)
        if isinstance(n, ast.Call) and (dotted(n.func) or "").endswith("outer") and len(n.args) == 2:
            a, b = product(n.args[0]), product(n.args[1])
            if len(a) == 1 and len(b) == 1 and a[0][0] == b[0][0]:
                ok = a[0][1] != b[0][1]
                out.append(Finding(ok, n, "outer(%s, %s)%s" % (fmt(a), fmt(b), "" if ok else ": a projector |v><v| needs the conjugate on one side"), "S1"))
        elif (isinstance(n, ast.BinOp) and isinstance(n.op, ast.MatMult)) or \
                (isinstance(n, ast.Call) and (dotted(n.func) or "") in ("np.dot", "numpy.dot", "np.matmul") and len(n.args) == 2):
            l, r = (n.left, n.right) if isinstance(n, ast.BinOp) else (n.args[0], n.args[1])

            def wrapped(e):
                # np.array([v]) / np.array([v]).T / v.reshape(-1, 1) ...
                t = False
                if isinstance(e, ast.Attribute) and e.attr == "T":
                    e, t = e.value, True
                conj = False
                if isinstance(e, ast.Call) and isinstance(e.func, ast.Attribute) and e.func.attr in ("conj", "conjugate") and not e.args:
                    e, conj = e.func.value, True
                if isinstance(e, ast.Attribute) and e.attr == "T":
                    e, t = e.value, not t
                if isinstance(e, ast.Call) and (dotted(e.func) or "").split(".")[-1] in ("array", "asarray") and e.args \
                        and isinstance(e.args[0], ast.List) and len(e.args[0].elts) == 1:
                    inner = e.args[0].elts[0]
                    p = product(inner)
                    if len(p) == 1:
                        return p[0][0], (p[0][1] != conj), t
                return None

            wl, wr = wrapped(l), wrapped(r)
            if wl and wr and wl[0] == wr[0] and wl[2] and not wr[2]:
                ok = wl[1] != wr[1]
                out.append(Finding(ok, n, "column·row product of %s%s" % (wl[0], "" if ok else " without complex conjugation: |v><v| needs v v†, "
                                                                                  "this is v v^T"), "S1"))
    return out


def clipping(f: Func, w: str):
    """How the eigenvalues `w` are clipped between the decomposition and the reconstruction.
    Returns [(ok, node, text)]: ok True = negative values are replaced by 0; False = a different set of values is
    replaced / a different replacement; empty list = no clipping construct found."""
    out = []
    nodes = list(own_nodes(f.node))
    diag = {n.targets[0].id for n in nodes if isinstance(n, ast.Assign) and len(n.targets) == 1 and isinstance(n.targets[0], ast.Name)
            and isinstance(n.value, ast.Call) and (dotted(n.value.func) or "").endswith("diag") and n.value.args and unparse(n.value.args[0]) == w}
    holders = {w} | diag

    def neg_test(t, elem_names):
        """test `x < 0` / `x <= 0` / `0 > x` on one of the element expressions -> True; a different comparison with 0 -> False; else None"""
        if isinstance(t, ast.Compare) and len(t.ops) == 1:
            l, r, op = t.left, t.comparators[0], t.ops[0]
            if unparse(l) in elem_names and is_num(r, 0):
                return isinstance(op, (ast.Lt, ast.LtE))
            if unparse(r) in elem_names and is_num(l, 0):
                return isinstance(op, (ast.Gt, ast.GtE))
        return None
    for n in nodes:
        # masked store  H[H < 0] = 0
        if isinstance(n, ast.Assign) and len(n.targets) == 1 and isinstance(n.targets[0], ast.Subscript) and isinstance(n.targets[0].value, ast.Name) \
                and n.targets[0].value.id in holders and isinstance(n.targets[0].slice, ast.Compare):
            h = n.targets[0].value.id
            r = neg_test(n.targets[0].slice, {h})
            if r is not None:
                out.append((bool(r) and is_num(n.value, 0), n, unparse(n)))
        # element loop
        if isinstance(n, ast.For):
            elems = set()
            idx = None
            if isinstance(n.target, ast.Name) and unparse(n.iter).replace(" ", "") == "range(len(%s))" % w:
                idx = n.target.id
                elems = {"%s[%s]" % (w, idx)}
            elif isinstance(n.target, ast.Tuple) and len(n.target.elts) == 2 and unparse(n.iter).replace(" ", "") == "enumerate(%s)" % w \
                    and all(isinstance(x, ast.Name) for x in n.target.elts):
                idx = n.target.elts[0].id
                elems = {"%s[%s]" % (w, idx), n.target.elts[1].id}
            if idx is None:
                continue
            for st in n.body:
                if isinstance(st, ast.If):
                    r = neg_test(st.test, elems)
                    stores = [x for x in st.body if isinstance(x, ast.Assign) and unparse(x.targets[0]) == "%s[%s]" % (w, idx)]
                    if r is not None and stores:
                        out.append((bool(r) and is_num(stores[0].value, 0) and not st.orelse, st, unparse(st.test)))
        # functional forms
        if isinstance(n, ast.Assign) and len(n.targets) == 1 and isinstance(n.targets[0], ast.Name) and isinstance(n.value, ast.Call):
            t = unparse(n.value).replace(" ", "")
            good = ("np.clip(%s,0,None)" % w, "np.maximum(%s,0)" % w, "np.maximum(0,%s)" % w, "%s.clip(min=0)" % w, "%s.clip(0)" % w,
                    "np.where(%s<0,0,%s)" % (w, w), "np.clip(%s,a_min=0,a_max=None)" % w)
            if t in good:
                out.append((True, n, unparse(n)))
            elif t.startswith(("np.clip(%s" % w, "np.minimum(%s" % w, "np.where(%s" % w, "np.abs(%s" % w, "np.maximum(%s" % w)):
                out.append((False, n, unparse(n)))
    return out
