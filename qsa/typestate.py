"""Field-flow facts for one concrete class: which attributes a method may/must write and reads
(through self-calls and super-calls resolved on that class), and a two-state typestate
(fresh/stale) for a derived field D that has to be rebuilt after its source S changes."""
from __future__ import annotations

import ast
from typing import Dict, FrozenSet, List, Optional, Set, Tuple

from .cfg import CFG, Node
from .index import Class, Func, dotted, own_nodes


class FieldFlow:
    def __init__(self, ctx, cls: Class):
        self.ctx = ctx
        self.cls = cls
        self._may: Dict[str, Set[str]] = {}
        self._must: Dict[str, Set[str]] = {}
        self._reads: Dict[str, Set[str]] = {}
        self._stack: List[str] = []

    # ------------------------------------------------------------- resolution
    def callee(self, method: Func, call: ast.Call) -> Optional[Func]:
        """Resolve self.m(...) / super().m(...) inside `method` as seen from self.cls."""
        fn = call.func
        if not isinstance(fn, ast.Attribute):
            return None
        s = method.self_name
        if isinstance(fn.value, ast.Name) and fn.value.id == s:
            m = self.cls.lookup(fn.attr)
            return m if m is not None and m.kind in ("method",) else None
        if isinstance(fn.value, ast.Call) and dotted(fn.value.func) == "super" and method.cls is not None:
            mro = self.cls.mro()
            if method.cls in mro:
                for c in mro[mro.index(method.cls) + 1:]:
                    if fn.attr in c.methods:
                        return c.methods[fn.attr]
        return None

    def prop(self, method: Func, attr: ast.Attribute) -> Optional[Func]:
        s = method.self_name
        if isinstance(attr.value, ast.Name) and attr.value.id == s:
            m = self.cls.lookup(attr.attr)
            if m is not None and m.kind == "property":
                return m
        return None

    @staticmethod
    def direct_stores(node: ast.AST, selfname: str) -> Set[str]:
        out = set()
        for n in ast.walk(node):
            if isinstance(n, ast.Attribute) and isinstance(n.ctx, (ast.Store, ast.Del)) and isinstance(n.value, ast.Name) \
                    and n.value.id == selfname:
                out.add(n.attr)
        return out

    # ----------------------------------------------------------------- may/must
    def may_writes(self, m: Func) -> Set[str]:
        k = m.qualname
        if k in self._may:
            return self._may[k]
        self._may[k] = set()
        out = set()
        if m.self_name:
            out |= self.direct_stores(ast.Module(body=m.node.body, type_ignores=[]), m.self_name)
            for n in own_nodes(m.node):
                if isinstance(n, ast.Call):
                    c = self.callee(m, n)
                    if c is not None:
                        out |= self.may_writes(c)
        self._may[k] = out
        return out

    def reads(self, m: Func) -> Set[str]:
        k = m.qualname
        if k in self._reads:
            return self._reads[k]
        self._reads[k] = set()
        out = set()
        s = m.self_name
        if s:
            for n in own_nodes(m.node):
                if isinstance(n, ast.Attribute) and isinstance(n.ctx, ast.Load) and isinstance(n.value, ast.Name) and n.value.id == s:
                    p = self.prop(m, n)
                    if p is not None:
                        out |= self.reads(p)
                    elif self.cls.lookup(n.attr) is None:
                        out.add(n.attr)
                elif isinstance(n, ast.Call):
                    c = self.callee(m, n)
                    if c is not None:
                        out |= self.reads(c)
        self._reads[k] = out
        return out

    def _node_exprs(self, node: Node) -> List[ast.AST]:
        a = node.ast
        if a is None or node.kind in ("pre", "join", "entry", "exit", "raise"):
            return []
        if node.kind == "test":
            return [a.test]
        if node.kind == "for":
            return [a.iter]
        if node.kind == "with":
            return [i.context_expr for i in a.items]
        if node.kind == "except":
            return []
        if isinstance(a, (ast.FunctionDef, ast.ClassDef)):
            return []
        return [a]

    def must_writes(self, m: Func) -> Set[str]:
        k = m.qualname
        if k in self._must:
            return self._must[k]
        self._must[k] = set()
        if not m.self_name:
            return set()
        cfg: CFG = self.ctx.cfg(m)

        def transfer(node: Node, s):
            add = set()
            for e in self._node_exprs(node):
                add |= self.direct_stores(e, m.self_name)
                for n in ast.walk(e):
                    if isinstance(n, ast.Call):
                        c = self.callee(m, n)
                        if c is not None:
                            add |= self.must_writes(c)
            return frozenset(set(s) | add) if add else s

        def meet(states):
            it = iter(states)
            acc = set(next(it))
            for x in it:
                acc &= x
            return frozenset(acc)

        IN, OUT = cfg.forward(frozenset(), transfer, meet)
        res = set(IN.get(cfg.exit.id, frozenset()))
        self._must[k] = res
        return res

    # ---------------------------------------------------------------- typestate
    def freshness(self, m: Func, src: Set[str], derived: str, start: str = "F", _depth=0) -> Set[str]:
        """Possible states ('F' fresh / 'S' stale) of `derived` w.r.t. `src` at the normal exit of `m`
        when entered in state `start`.  A store to a source attribute makes it stale, a store to the
        derived attribute (the builder) makes it fresh."""
        key = (m.qualname, start)
        if not hasattr(self, "_fr"):
            self._fr = {}
        ck = (key, frozenset(src), derived)
        if ck in self._fr:
            return self._fr[ck]
        self._fr[ck] = {start}
        if not m.self_name or _depth > 12:
            return {start}
        cfg: CFG = self.ctx.cfg(m)

        def apply(e: ast.AST, states: FrozenSet[str]) -> FrozenSet[str]:
            # evaluation order: calls before the store of an assignment
            calls = [n for n in ast.walk(e) if isinstance(n, ast.Call)]
            cur = set(states)
            for n in calls:
                c = self.callee(m, n)
                if c is not None:
                    if c.self_name and derived in self.direct_stores(ast.Module(body=c.node.body, type_ignores=[]), c.self_name):
                        # the builder itself: atomic (its own "nothing to build" early exits are its business) - unless one of
                        # its exits tests the derived field itself: a builder that does nothing when the field is already set
                        # does not refresh it, so a stale value stays stale
                        memo = False
                        for t in ast.walk(c.node):
                            if isinstance(t, (ast.If, ast.While, ast.IfExp)) and any(
                                    isinstance(x, ast.Attribute) and x.attr == derived and isinstance(x.value, ast.Name) and x.value.id == c.self_name
                                    for x in ast.walk(t.test)):
                                memo = True
                        if not memo:
                            cur = {"F"}
                        continue
                    nxt = set()
                    for s in cur:
                        nxt |= self.freshness(c, src, derived, s, _depth + 1)
                    cur = nxt
            st = self.direct_stores(e, m.self_name)
            if st & src:
                cur = {"S"}
            if derived in st:
                cur = {"F"}
            return frozenset(cur)

        def transfer(node: Node, s):
            cur = s
            for e in self._node_exprs(node):
                cur = apply(e, cur)
            return cur

        def meet(states):
            acc = set()
            for x in states:
                acc |= x
            return frozenset(acc)

        IN, OUT = cfg.forward(frozenset({start}), transfer, meet)
        res = set(IN.get(cfg.exit.id, frozenset({start})))
        self._fr[ck] = res
        return res
