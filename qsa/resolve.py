"""E2 - callee resolution and call graph.

Receivers are typed from (in order): `self`/`cls`; a dominating `type(x) == T` /
`isinstance(x, T)` / `type(x) in [..]` guard; the parameter annotation; a local
assignment from a constructor call or from a call whose return annotation names a repo
class.  Dynamic dispatch on `self.m()` is over-approximated by the MRO target plus every
override in subclasses.  What cannot be resolved is returned as `Unresolved` and counted.
"""
from __future__ import annotations

import ast
from typing import Dict, List, Optional, Set, Tuple, Union

from .index import Class, Func, Index, Module, dotted, own_nodes, parents


class Unresolved:
    def __init__(self, text):
        self.text = text

    def __repr__(self):
        return "<Unresolved %s>" % self.text


CallTarget = Union[Func, Class, str, Unresolved]


class Resolver:
    def __init__(self, index: Index):
        self.ix = index
        self._env_cache: Dict[tuple, Dict[str, Set[Class]]] = {}
        self._byname: Dict[str, List[Func]] = {}
        for f in index.funcs.values():
            if f.cls is not None and f.parent is None:
                self._byname.setdefault(f.name, []).append(f)
        self._callgraph = None
        self._local_cache: Dict[str, Set[str]] = {}

    # ---------------------------------------------------------------- annotation
    def classes_of_annotation(self, mod: Module, ann: Optional[ast.AST], func=None) -> Set[Class]:
        """Classes named by an annotation (Union members; not container elements)."""
        out: Set[Class] = set()
        if ann is None:
            return out
        if isinstance(ann, ast.Constant) and isinstance(ann.value, str):
            try:
                ann = ast.parse(ann.value, mode="eval").body
            except SyntaxError:
                return out
        if isinstance(ann, ast.Subscript):
            head = dotted(ann.value) or ""
            if head.split(".")[-1] in ("Union", "Optional"):
                sl = ann.slice
                elts = sl.elts if isinstance(sl, ast.Tuple) else [sl]
                for e in elts:
                    out |= self.classes_of_annotation(mod, e, func)
            return out
        if isinstance(ann, ast.BinOp) and isinstance(ann.op, ast.BitOr):
            return self.classes_of_annotation(mod, ann.left, func) | self.classes_of_annotation(mod, ann.right, func)
        t = self.ix.resolve_expr(mod, ann, func)
        if isinstance(t, Class):
            out.add(t)
        return out

    def elem_classes_of_annotation(self, mod: Module, ann: Optional[ast.AST], func=None) -> Set[Class]:
        """Element classes of `List[X]` / `Tuple[X, ...]` annotations."""
        if isinstance(ann, ast.Subscript):
            head = (dotted(ann.value) or "").split(".")[-1]
            if head in ("List", "Sequence", "Iterable", "list", "Tuple", "tuple"):
                sl = ann.slice
                elts = sl.elts if isinstance(sl, ast.Tuple) else [sl]
                out: Set[Class] = set()
                for e in elts:
                    out |= self.classes_of_annotation(mod, e, func)
                return out
        return set()

    # ---------------------------------------------------------------- local env
    def env(self, func: Func, strong: bool = False) -> Dict[str, Set[Class]]:
        """Flow-insensitive local variable -> possible repo classes.  `strong` ignores
        annotations (parameters, returns), which are unreliable in parts of this repo."""
        key = (func.qualname, strong)
        if key in self._env_cache:
            return self._env_cache[key]
        env: Dict[str, Set[Class]] = {}
        self._env_cache[key] = env
        mod = func.module
        if func.parent is not None:
            for k, v in self.env(func.parent, strong).items():
                env[k] = set(v)
        for p in func.all_params:
            cs = self.classes_of_annotation(mod, p.annotation, func) if not strong else set()
            if cs:
                env[p.arg] = cs
        if func.self_name and func.cls is not None:
            env[func.self_name] = {func.cls}
        if func.kind == "classmethod" and func.all_params and func.cls is not None:
            env["@cls:" + func.all_params[0].arg] = {func.cls}
        # two passes so that chains v = C(); w = v.copy() settle
        for _ in range(2):
            for n in own_nodes(func.node):
                if isinstance(n, ast.Assign) and len(n.targets) == 1 and isinstance(n.targets[0], ast.Name):
                    cs = self.expr_classes(func, n.value, env, strong)
                    if cs:
                        env.setdefault(n.targets[0].id, set()).update(cs)
                elif isinstance(n, ast.AnnAssign) and isinstance(n.target, ast.Name):
                    cs = self.classes_of_annotation(mod, n.annotation, func) if not strong else set()
                    if cs:
                        env.setdefault(n.target.id, set()).update(cs)
                elif isinstance(n, (ast.For, ast.comprehension)) and isinstance(n.target, ast.Name):
                    it = n.iter
                    while isinstance(it, ast.Call) and isinstance(it.func, ast.Name) and it.func.id in ("reversed", "list", "tuple", "sorted", "iter") and it.args:
                        it = it.args[0]
                    cs = self.iter_elem_classes(func, it, env, strong)
                    if cs:
                        env.setdefault(n.target.id, set()).update(cs)
                elif isinstance(n, (ast.For, ast.comprehension)) and isinstance(n.target, ast.Tuple) and isinstance(n.iter, ast.Call) \
                        and isinstance(n.iter.func, ast.Name) and n.iter.func.id in ("enumerate", "zip"):
                    # for i, x in enumerate(xs) / for a, b in zip(xs, ys)
                    if n.iter.func.id == "enumerate" and len(n.target.elts) == 2 and n.iter.args:
                        pairs = [(n.target.elts[1], n.iter.args[0])]
                    elif n.iter.func.id == "zip" and len(n.target.elts) == len(n.iter.args):
                        pairs = list(zip(n.target.elts, n.iter.args))
                    else:
                        pairs = []
                    for t, it in pairs:
                        if isinstance(t, ast.Name) and not isinstance(it, ast.Starred):
                            cs = self.iter_elem_classes(func, it, env, strong)
                            if cs:
                                env.setdefault(t.id, set()).update(cs)
                elif isinstance(n, ast.withitem) and isinstance(n.optional_vars, ast.Name):
                    cs = self.expr_classes(func, n.context_expr, env, strong)
                    if cs:
                        env.setdefault(n.optional_vars.id, set()).update(cs)
        return env

    def iter_elem_classes(self, func: Func, it: ast.AST, env, strong=False) -> Set[Class]:
        if strong:
            return set()
        if isinstance(it, ast.Name):
            ann = func.param_annotation(it.id)
            if ann is not None:
                return self.elem_classes_of_annotation(func.module, ann, func)
        if isinstance(it, ast.Attribute) and isinstance(it.value, ast.Name):
            # self.xs with a property annotated -> List[X]
            for c in self.expr_classes(func, it.value, env):
                m = c.lookup(it.attr)
                if m is not None and m.kind == "property":
                    return self.elem_classes_of_annotation(m.module, m.node.returns, m)
        return set()

    def expr_classes(self, func: Func, e: ast.AST, env=None, strong=False) -> Set[Class]:
        """Possible repo classes of the value of expression `e` (empty = unknown)."""
        if env is None:
            env = self.env(func, strong)
        mod = func.module
        if isinstance(e, ast.Name):
            g = self.guard_classes(func, e)
            if g is not None:
                return g
            return set(env.get(e.id, ()))
        if isinstance(e, ast.Call):
            fn = e.func
            # copy.copy(x) / copy.deepcopy(x) keep the class
            dn = dotted(fn) or ""
            if dn in ("copy.copy", "copy.deepcopy", "deepcopy") and e.args:
                return self.expr_classes(func, e.args[0], env, strong)
            out: Set[Class] = set()
            for t in self.resolve_call(func, e, env, by_name=False):
                if isinstance(t, Class):
                    out.add(t)
                elif isinstance(t, Func):
                    if t.name == "copy" and t.cls is not None and isinstance(fn, ast.Attribute):
                        out |= self.expr_classes(func, fn.value, env, strong)
                    if not strong:
                        out |= self.classes_of_annotation(t.module, t.node.returns, t)
            return out
        if isinstance(e, ast.Attribute):
            out = set()
            if strong:
                return out
            for c in self.expr_classes(func, e.value, env):
                m = c.lookup(e.attr)
                if m is not None and m.kind == "property":
                    out |= self.classes_of_annotation(m.module, m.node.returns, m)
            return out
        if isinstance(e, ast.IfExp):
            return self.expr_classes(func, e.body, env, strong) | self.expr_classes(func, e.orelse, env, strong)
        if isinstance(e, ast.Subscript):
            # element of an annotated list parameter / property
            return self.iter_elem_classes(func, e.value, env, strong)
        return set()

    # ------------------------------------------------------------------- guards
    def _guard_of_test(self, func: Func, test: ast.AST, var: str, positive: bool) -> Optional[Set[Class]]:
        """Classes `var` is known to have when `test` evaluates to `positive`."""
        mod = func.module
        if isinstance(test, ast.BoolOp):
            if isinstance(test.op, ast.And) and positive:
                for v in test.values:
                    g = self._guard_of_test(func, v, var, True)
                    if g is not None:
                        return g
            if isinstance(test.op, ast.Or) and not positive:
                for v in test.values:
                    g = self._guard_of_test(func, v, var, False)
                    if g is not None:
                        return g
            if isinstance(test.op, ast.Or) and positive:
                acc: Set[Class] = set()
                for v in test.values:
                    g = self._guard_of_test(func, v, var, True)
                    if g is None:
                        return None
                    acc |= g
                return acc
            return None
        if isinstance(test, ast.UnaryOp) and isinstance(test.op, ast.Not):
            return self._guard_of_test(func, test.operand, var, not positive)
        if not positive:
            return None
        if isinstance(test, ast.Compare) and len(test.ops) == 1:
            l, r = test.left, test.comparators[0]
            if (isinstance(l, ast.Call) and dotted(l.func) == "type" and l.args
                    and isinstance(l.args[0], ast.Name) and l.args[0].id == var):
                if isinstance(test.ops[0], (ast.Eq, ast.Is)):
                    t = self.ix.resolve_expr(mod, r, func)
                    return {t} if isinstance(t, Class) else None
                if isinstance(test.ops[0], ast.In) and isinstance(r, (ast.List, ast.Tuple, ast.Set)):
                    out = set()
                    for el in r.elts:
                        t = self.ix.resolve_expr(mod, el, func)
                        if isinstance(t, Class):
                            out.add(t)
                    return out or None
        if isinstance(test, ast.Call) and dotted(test.func) == "isinstance" and len(test.args) == 2:
            a, t = test.args
            if isinstance(a, ast.Name) and a.id == var:
                elts = t.elts if isinstance(t, ast.Tuple) else [t]
                out = set()
                for el in elts:
                    c = self.ix.resolve_expr(mod, el, func)
                    if isinstance(c, Class):
                        out.add(c)
                return out or None
        return None

    def guard_classes(self, func: Func, name_node: ast.Name) -> Optional[Set[Class]]:
        """Narrowing from the innermost enclosing `if` whose test types this name."""
        var = name_node.id
        child = name_node
        for p in parents(name_node):
            if isinstance(p, (ast.FunctionDef, ast.AsyncFunctionDef, ast.Lambda)):
                break
            if isinstance(p, ast.If):
                if child in p.body or any(child is b for b in p.body):
                    g = self._guard_of_test(func, p.test, var, True)
                    if g is not None:
                        return g
                elif child in p.orelse:
                    g = self._guard_of_test(func, p.test, var, False)
                    if g is not None:
                        return g
            if isinstance(p, ast.IfExp):
                if child is p.body:
                    g = self._guard_of_test(func, p.test, var, True)
                    if g is not None:
                        return g
            child = p
        return None

    # --------------------------------------------------------------------- calls
    def resolve_call(self, func: Func, call: ast.Call, env=None, by_name=True) -> List[CallTarget]:
        """Possible callees of a call expression inside `func`."""
        if env is None:
            env = self.env(func)
        fn = call.func
        mod = func.module
        ix = self.ix
        if isinstance(fn, ast.Name):
            f: Optional[Func] = func
            while f is not None:
                if fn.id in f.nested:
                    return [f.nested[fn.id]]
                f = f.parent
            if self._is_local(func, fn.id):
                vals = self.local_func_values(func, fn.id)
                return vals if vals else [Unresolved(fn.id)]
            t = ix.scope_lookup(mod, func, fn.id)
            if t is not None:
                return [t] if not isinstance(t, Module) else [Unresolved(fn.id)]
            import builtins
            if hasattr(builtins, fn.id):
                return ["builtins." + fn.id]
            return [Unresolved(fn.id)]
        if isinstance(fn, ast.Attribute):
            recv = fn.value
            # super().m()
            if isinstance(recv, ast.Call) and dotted(recv.func) == "super" and func.cls is not None:
                for c in func.cls.mro()[1:]:
                    if fn.attr in c.methods:
                        return [c.methods[fn.attr]]
                return ["<external-base>." + fn.attr]
            # module / class qualified
            d = dotted(fn)
            if d is not None:
                head = d.split(".")[0]
                if not self._is_local(func, head) or head in ("self",):
                    t = ix.resolve_expr(mod, fn, func)
                    if t is not None and not (head == func.self_name):
                        if isinstance(t, Module):
                            return [Unresolved(d)]
                        return [t]
            # self.__class__(...) / type(self)(...)
            if fn.attr == "__class__":
                return []
            # typed receiver
            cs = self.expr_classes(func, recv, env)
            if cs:
                out: List[CallTarget] = []
                for c in sorted(cs, key=lambda c: c.qualname):
                    for o in c.overrides(fn.attr):
                        if o not in out:
                            out.append(o)
                if out:
                    return out
            if fn.attr not in self._byname:
                return ["<value>." + fn.attr]
            if (by_name or cs) and not self._looks_external(func, recv):
                return list(self._byname[fn.attr])
            d = dotted(fn)
            return [Unresolved(d or ("<expr>." + fn.attr))]
        if isinstance(fn, ast.Call):
            # f(...)(...) : e.g. delayed(g)(...), self.__class__(...)
            inner = self.resolve_call(func, fn, env)
            return [Unresolved("call-of-call:%s" % (dotted(fn.func) or "?"))] if inner else []
        return [Unresolved(type(fn).__name__)]

    def class_call_targets(self, func: Func, call: ast.Call) -> Optional[List[Class]]:
        """`self.__class__(...)` / `type(self)(...)` -> the class and all subclasses."""
        fn = call.func
        base = None
        if isinstance(fn, ast.Attribute) and fn.attr == "__class__" and isinstance(fn.value, ast.Name):
            base = fn.value.id
        elif isinstance(fn, ast.Call) and dotted(fn.func) == "type" and fn.args and isinstance(fn.args[0], ast.Name):
            base = fn.args[0].id
        if base is None:
            return None
        cs = self.expr_classes(func, ast.Name(id=base, ctx=ast.Load()), self.env(func)) or set()
        if not cs:
            cs = set(self.env(func).get(base, ()))
        out: List[Class] = []
        for c in cs:
            for k in [c] + c.all_subclasses():
                if k not in out:
                    out.append(k)
        return out

    def _looks_external(self, func: Func, recv: ast.AST) -> bool:
        d = dotted(recv)
        if d is None:
            return False
        head = d.split(".")[0]
        t = self.ix.scope_lookup(func.module, func, head)
        return isinstance(t, str)

    def locals_of(self, func: Func) -> Set[str]:
        key = func.qualname
        c = self._local_cache.get(key)
        if c is not None:
            return c
        names: Set[str] = set(p.arg for p in func.all_params)
        a = func.node.args
        if a.vararg:
            names.add(a.vararg.arg)
        if a.kwarg:
            names.add(a.kwarg.arg)
        for n in own_nodes(func.node):
            if isinstance(n, ast.Name) and isinstance(n.ctx, (ast.Store, ast.Del)):
                names.add(n.id)
            elif isinstance(n, ast.ExceptHandler) and n.name:
                names.add(n.name)
        self._local_cache[key] = names
        return names

    def _is_local(self, func: Func, name: str) -> bool:
        f: Optional[Func] = func
        while f is not None:
            if name in self.locals_of(f):
                return True
            f = f.parent
        return False

    def local_func_values(self, func: Func, name: str) -> List[CallTarget]:
        """Function values a local name may hold: `f = obj.func_x(...)` factories that
        return a nested def, `f = some_func`, parameters are unknown."""
        out: List[CallTarget] = []
        f: Optional[Func] = func
        while f is not None:
            for n in own_nodes(f.node):
                if isinstance(n, ast.Assign) and any(isinstance(t, ast.Name) and t.id == name for t in n.targets):
                    v = n.value
                    if isinstance(v, ast.Call):
                        for t in self.resolve_call(f, v):
                            if isinstance(t, Func):
                                out.extend(self.returned_closures(t))
                    else:
                        t = self.ix.resolve_expr(f.module, v, f)
                        if isinstance(t, (Func, Class)):
                            out.append(t)
            f = f.parent
        return out

    def returned_closures(self, factory: Func) -> List[Func]:
        out = []
        for n in own_nodes(factory.node):
            if isinstance(n, ast.Return) and isinstance(n.value, ast.Name) and n.value.id in factory.nested:
                out.append(factory.nested[n.value.id])
        return out

    # --------------------------------------------------------------- call graph
    def calls_in(self, func: Func, include_nested=False) -> List[ast.Call]:
        nodes = ast.walk(func.node) if include_nested else own_nodes(func.node)
        return [n for n in nodes if isinstance(n, ast.Call)]

    def callgraph(self):
        """dict qualname -> list of (call node, [targets])"""
        if self._callgraph is None:
            cg = {}
            for qn, f in self.ix.funcs.items():
                sites = []
                for c in self.calls_in(f):
                    ts = self.resolve_call(f, c)
                    sites.append((c, ts))
                cg[qn] = sites
            self._callgraph = cg
        return self._callgraph

    def property_reads(self, func: Func) -> List[Tuple[ast.Attribute, Func]]:
        """Attribute loads that resolve to a property getter of a repo class."""
        out = []
        env = self.env(func)
        for n in own_nodes(func.node):
            if isinstance(n, ast.Attribute) and isinstance(n.ctx, ast.Load):
                for c in self.expr_classes(func, n.value, env):
                    m = c.lookup(n.attr)
                    if m is not None and m.kind == "property":
                        out.append((n, m))
                        for o in c.overrides(n.attr):
                            if o is not m and o.kind == "property":
                                out.append((n, o))
        return out

    def cone(self, roots: List[Func], max_depth=12, follow_properties=True, by_name=False) -> Dict[str, Tuple[Func, Tuple[str, ...]]]:
        """Functions reachable from `roots`: qualname -> (Func, call chain)."""
        seen: Dict[str, Tuple[Func, Tuple[str, ...]]] = {}
        todo = [(r, (r.qualname,)) for r in roots]
        while todo:
            f, chain = todo.pop(0)
            if f.qualname in seen or len(chain) > max_depth:
                continue
            seen[f.qualname] = (f, chain)
            succ: List[Func] = []
            for c in self.calls_in(f):
                for t in self.resolve_call(f, c, by_name=by_name):
                    if isinstance(t, Func):
                        succ.append(t)
                    elif isinstance(t, Class):
                        init = t.lookup("__init__")
                        if init is not None:
                            succ.append(init)
            if follow_properties:
                for _, m in self.property_reads(f):
                    succ.append(m)
            for nf in f.nested.values():
                succ.append(nf)
            for s in succ:
                if s.qualname not in seen:
                    todo.append((s, chain + (s.qualname,)))
        return seen


def bind_call(call: ast.Call, target: Func, bound: bool) -> Tuple[Dict[str, ast.AST], List[str]]:
    """Bind the arguments of `call` to the parameters of `target`.

    `bound` = the call supplies no explicit `self` (method called on an instance, or a
    constructor).  Returns (param -> argument expression, [binding errors]).
    """
    a = target.node.args
    pos = [p.arg for p in list(a.posonlyargs) + list(a.args)]
    if bound and target.kind in ("method", "property", "setter", "classmethod") and pos:
        pos = pos[1:]
    kwonly = [p.arg for p in a.kwonlyargs]
    defaults = target.param_defaults()
    errors: List[str] = []
    binding: Dict[str, ast.AST] = {}
    star = any(isinstance(x, ast.Starred) for x in call.args)
    dstar = any(k.arg is None for k in call.keywords)
    args = [x for x in call.args if not isinstance(x, ast.Starred)]
    if len(args) > len(pos) and a.vararg is None:
        errors.append("too many positional arguments (%d > %d)" % (len(args), len(pos)))
    for p, x in zip(pos, args):
        binding[p] = x
    for k in call.keywords:
        if k.arg is None:
            continue
        if k.arg in binding:
            errors.append("multiple values for parameter '%s'" % k.arg)
        elif k.arg in pos or k.arg in kwonly:
            binding[k.arg] = k.value
        elif a.kwarg is None:
            errors.append("unexpected keyword argument '%s'" % k.arg)
    if not star and not dstar:
        for p in pos + kwonly:
            if p not in binding and p not in defaults:
                errors.append("missing required argument '%s'" % p)
    return binding, errors
