"""E3 - statement-level control-flow graph and the data-flow analyses built on it.

The CFG covers the statement kinds the repository uses: if/elif/else, for/while with
break/continue/else, try/except/else/finally, with, return, raise, assert.  Statements
inside a `try` body get a *pre* node from which the exceptional edges leave, so a handler
sees the state *before* the statement that raised (an assignment that raised did not
happen).  No third-party graph library is needed: dominators are computed iteratively.
"""
from __future__ import annotations

import ast
from typing import Callable, Dict, Iterable, List, Optional, Set, Tuple


class Node:
    __slots__ = ("id", "kind", "ast", "succ", "pred", "label")

    def __init__(self, id, kind, astnode=None, label=None):
        self.id = id
        self.kind = kind  # entry|exit|raise|stmt|test|for|pre|except|with|join
        self.ast = astnode
        self.succ: List[Tuple["Node", Optional[str]]] = []
        self.pred: List[Tuple["Node", Optional[str]]] = []
        self.label = label

    @property
    def line(self):
        return getattr(self.ast, "lineno", None)

    def __repr__(self):
        return "<N%d %s L%s>" % (self.id, self.kind, self.line)


class CFG:
    def __init__(self, func_node: ast.AST):
        self.func = func_node
        self.nodes: List[Node] = []
        self.entry = self._new("entry")
        self.exit = self._new("exit")       # normal return (explicit or fall-through)
        self.raise_exit = self._new("raise")  # exception leaves the function
        self.by_ast: Dict[int, Node] = {}
        self._loops: List[Tuple[Node, Node]] = []       # (continue target, break target)
        self._handlers: List[List[Node]] = []            # stack of handler entry lists
        self._finally: List[Optional[List[ast.stmt]]] = []
        frontier = self._body(func_node.body, [(self.entry, None)])
        for n, lab in frontier:
            self._edge(n, self.exit, lab)

    # ------------------------------------------------------------------ building
    def _new(self, kind, astnode=None, label=None) -> Node:
        n = Node(len(self.nodes), kind, astnode, label)
        self.nodes.append(n)
        if astnode is not None and kind in ("stmt", "test", "for", "with", "except"):
            self.by_ast[id(astnode)] = n
        return n

    def _edge(self, a: Node, b: Node, label=None):
        a.succ.append((b, label))
        b.pred.append((a, label))

    def _connect(self, frontier, node: Node):
        for n, lab in frontier:
            self._edge(n, node, lab)

    def _exc_targets(self) -> List[Node]:
        if self._handlers:
            return self._handlers[-1]
        return [self.raise_exit]

    def _may_raise_pre(self, frontier, astnode) -> List[Tuple[Node, Optional[str]]]:
        """Inside a try body: insert a pre node with exceptional edges to the handlers."""
        if not self._handlers:
            return frontier
        pre = self._new("pre", astnode)
        self._connect(frontier, pre)
        for h in self._handlers[-1]:
            self._edge(pre, h, "exc")
        return [(pre, None)]

    def _body(self, stmts: List[ast.stmt], frontier):
        for st in stmts:
            frontier = self._stmt(st, frontier)
        return frontier

    def _stmt(self, st: ast.stmt, frontier):
        if isinstance(st, ast.If):
            frontier = self._may_raise_pre(frontier, st)
            t = self._new("test", st)
            self._connect(frontier, t)
            out = self._body(st.body, [(t, "T")])
            if st.orelse:
                out = out + self._body(st.orelse, [(t, "F")])
            else:
                out = out + [(t, "F")]
            return out
        if isinstance(st, (ast.For, ast.AsyncFor)):
            frontier = self._may_raise_pre(frontier, st)
            head = self._new("for", st)
            self._connect(frontier, head)
            brk = self._new("join", st, "break")
            self._loops.append((head, brk))
            body_out = self._body(st.body, [(head, "T")])
            self._loops.pop()
            if self._handlers:
                # the implicit next() at the loop head may raise as well
                for n, lab in body_out:
                    pass
            self._connect(body_out, head)
            out = self._body(st.orelse, [(head, "F")]) if st.orelse else [(head, "F")]
            if brk.pred:
                out = out + [(brk, None)]
            return out
        if isinstance(st, ast.While):
            frontier = self._may_raise_pre(frontier, st)
            head = self._new("test", st)
            self._connect(frontier, head)
            brk = self._new("join", st, "break")
            self._loops.append((head, brk))
            body_out = self._body(st.body, [(head, "T")])
            self._loops.pop()
            self._connect(body_out, head)
            const_true = isinstance(st.test, ast.Constant) and bool(st.test.value) is True
            out = []
            if not const_true:
                out = self._body(st.orelse, [(head, "F")]) if st.orelse else [(head, "F")]
            if brk.pred:
                out = out + [(brk, None)]
            return out
        if isinstance(st, ast.Try):
            handler_nodes = [self._new("except", h) for h in st.handlers]
            outer_targets = self._exc_targets()
            if st.finalbody:
                # exceptions not caught run the finally block and propagate
                fin_exc = self._new("join", st, "finally-exc")
                targets = handler_nodes + [fin_exc]
            else:
                fin_exc = None
                targets = handler_nodes + ([] if self._catches_all(st) else outer_targets)
            self._handlers.append(targets)
            body_out = self._body(st.body, frontier)
            self._handlers.pop()
            # handlers / else run under the outer handler set (+ finally)
            if fin_exc is not None:
                self._handlers.append([fin_exc])
            else_out = self._body(st.orelse, body_out) if st.orelse else body_out
            outs = list(else_out)
            for h, hn in zip(st.handlers, handler_nodes):
                outs += self._body(h.body, [(hn, None)])
            if fin_exc is not None:
                self._handlers.pop()
                fin_norm = self._body(st.finalbody, outs)
                fexc_out = self._body(st.finalbody, [(fin_exc, None)]) if fin_exc.pred else []
                for n, lab in fexc_out:
                    for t in outer_targets:
                        self._edge(n, t, "exc")
                return fin_norm
            return outs
        if isinstance(st, (ast.With, ast.AsyncWith)):
            frontier = self._may_raise_pre(frontier, st)
            w = self._new("with", st)
            self._connect(frontier, w)
            return self._body(st.body, [(w, None)])
        if isinstance(st, (ast.FunctionDef, ast.AsyncFunctionDef, ast.ClassDef)):
            n = self._new("stmt", st)
            self._connect(frontier, n)
            return [(n, None)]
        # simple statements
        frontier = self._may_raise_pre(frontier, st)
        n = self._new("stmt", st)
        self._connect(frontier, n)
        if isinstance(st, ast.Return):
            self._edge(n, self.exit, "return")
            return []
        if isinstance(st, ast.Raise):
            for t in self._exc_targets():
                self._edge(n, t, "raise")
            return []
        if isinstance(st, ast.Break):
            if self._loops:
                self._edge(n, self._loops[-1][1], "break")
            return []
        if isinstance(st, ast.Continue):
            if self._loops:
                self._edge(n, self._loops[-1][0], "continue")
            return []
        if isinstance(st, ast.Assert):
            for t in self._exc_targets():
                self._edge(n, t, "assert")
            return [(n, None)]
        return [(n, None)]

    @staticmethod
    def _catches_all(st: ast.Try) -> bool:
        for h in st.handlers:
            if h.type is None:
                return True
            names = []
            if isinstance(h.type, ast.Tuple):
                names = [getattr(e, "id", getattr(e, "attr", "")) for e in h.type.elts]
            else:
                names = [getattr(h.type, "id", getattr(h.type, "attr", ""))]
            if "BaseException" in names:
                return True
        return False

    # ------------------------------------------------------------------ queries
    def node_of(self, astnode: ast.AST) -> Optional[Node]:
        """CFG node of the statement that contains `astnode`."""
        cur = astnode
        while cur is not None:
            n = self.by_ast.get(id(cur))
            if n is not None:
                return n
            cur = getattr(cur, "_parent", None)
        return None

    def reachable(self, start: Node, blocked: Optional[Set[int]] = None, skip_exc=False) -> Set[int]:
        blocked = blocked or set()
        seen: Set[int] = set()
        todo = [start]
        while todo:
            n = todo.pop()
            if n.id in seen or n.id in blocked:
                continue
            seen.add(n.id)
            for s, lab in n.succ:
                if skip_exc and lab in ("exc",):
                    continue
                todo.append(s)
        return seen

    def must_pass(self, through: Iterable[Node], start: Optional[Node] = None, end: Optional[Node] = None) -> bool:
        """Every path start -> end passes one of `through` (vacuously true if end is
        unreachable)."""
        start = start or self.entry
        end = end or self.exit
        blocked = {n.id for n in through}
        if start.id in blocked:
            return True
        return end.id not in self.reachable(start, blocked)

    def dominators(self) -> Dict[int, Set[int]]:
        nodes = [n for n in self.nodes if n.id in self.reachable(self.entry)]
        ids = {n.id for n in nodes}
        dom: Dict[int, Set[int]] = {n.id: set(ids) for n in nodes}
        dom[self.entry.id] = {self.entry.id}
        changed = True
        while changed:
            changed = False
            for n in nodes:
                if n is self.entry:
                    continue
                ps = [p.id for p, _ in n.pred if p.id in ids]
                new = set(ids)
                for p in ps:
                    new &= dom[p]
                new = new | {n.id}
                if new != dom[n.id]:
                    dom[n.id] = new
                    changed = True
        return dom

    def dominates(self, a: Node, b: Node) -> bool:
        if not hasattr(self, "_dom"):
            self._dom = self.dominators()
        return b.id in self._dom and a.id in self._dom[b.id]

    # ---------------------------------------------------------------- data flow
    def forward(self, init, transfer: Callable[[Node, object], object], meet: Callable[[List[object]], object], top=None):
        """Generic forward data-flow; returns IN state per node id."""
        IN: Dict[int, object] = {}
        OUT: Dict[int, object] = {}
        reach = self.reachable(self.entry)
        order = [n for n in self.nodes if n.id in reach]
        IN[self.entry.id] = init
        OUT[self.entry.id] = transfer(self.entry, init)
        changed = True
        it = 0
        while changed and it < 200:
            changed = False
            it += 1
            for n in order:
                if n is self.entry:
                    continue
                ps = [OUT[p.id] for p, _ in n.pred if p.id in OUT]
                if not ps:
                    continue
                i = meet(ps)
                o = transfer(n, i)
                if IN.get(n.id) != i or OUT.get(n.id) != o:
                    IN[n.id] = i
                    OUT[n.id] = o
                    changed = True
        return IN, OUT


# ---------------------------------------------------------------------- def/use
def stored_names(node: Node) -> Set[str]:
    """Names (and `self.attr` pseudo-names) definitely assigned by executing `node`."""
    a = node.ast
    out: Set[str] = set()
    if a is None or node.kind in ("pre", "join", "entry", "exit", "raise"):
        return out

    def tgt(t):
        if isinstance(t, ast.Name):
            out.add(t.id)
        elif isinstance(t, (ast.Tuple, ast.List)):
            for e in t.elts:
                tgt(e)
        elif isinstance(t, ast.Starred):
            tgt(t.value)
        elif isinstance(t, ast.Attribute):
            d = _dotted(t)
            if d:
                out.add(d)

    if node.kind == "stmt":
        if isinstance(a, ast.Assign):
            for t in a.targets:
                tgt(t)
        elif isinstance(a, (ast.AugAssign, ast.AnnAssign)):
            if not (isinstance(a, ast.AnnAssign) and a.value is None):
                tgt(a.target)
        elif isinstance(a, (ast.Import, ast.ImportFrom)):
            for al in a.names:
                out.add((al.asname or al.name).split(".")[0])
        elif isinstance(a, (ast.FunctionDef, ast.AsyncFunctionDef, ast.ClassDef)):
            out.add(a.name)
        for sub in ast.walk(a) if not isinstance(a, (ast.FunctionDef, ast.ClassDef)) else []:
            if isinstance(sub, ast.NamedExpr):
                tgt(sub.target)
    elif node.kind == "with":
        for it in a.items:
            if it.optional_vars is not None:
                tgt(it.optional_vars)
    elif node.kind == "except":
        if a.name:
            out.add(a.name)
    return out


def _dotted(node):
    parts = []
    while isinstance(node, ast.Attribute):
        parts.append(node.attr)
        node = node.value
    if isinstance(node, ast.Name):
        parts.append(node.id)
        return ".".join(reversed(parts))
    return None


def definite_assignment(cfg: CFG, params: Iterable[str]) -> Dict[int, Set[str]]:
    """IN-set of definitely assigned names at each node.  The `for` target is assigned on
    the T edge only, which is modelled by adding it in the transfer of body statements'
    predecessor: we treat the head as assigning (sound for uses inside the body; uses
    after the loop are checked with `for_targets_after_loop` by the caller if needed)."""
    universe = None

    def transfer(n: Node, s):
        s = set(s)
        s |= stored_names(n)
        return frozenset(s)

    def meet(states):
        it = iter(states)
        acc = set(next(it))
        for s in it:
            acc &= s
        return frozenset(acc)

    # the for head assigns its target only when the body is entered: split by edge label
    IN: Dict[int, frozenset] = {}
    OUT_T: Dict[int, frozenset] = {}
    OUT: Dict[int, frozenset] = {}
    reach = cfg.reachable(cfg.entry)
    order = [n for n in cfg.nodes if n.id in reach]
    init = frozenset(params)
    OUT[cfg.entry.id] = init
    changed = True
    while changed:
        changed = False
        for n in order:
            if n is cfg.entry:
                continue
            ps = []
            for p, lab in n.pred:
                if p.id not in OUT:
                    continue
                if p.kind == "for" and lab == "T":
                    ps.append(OUT_T[p.id])
                else:
                    ps.append(OUT[p.id])
            if not ps:
                continue
            i = meet(ps)
            if n.kind == "for":
                o = i
                tnames = set()
                _collect_targets(n.ast.target, tnames)
                ot = frozenset(set(i) | tnames)
            else:
                o = transfer(n, i)
                ot = o
            if IN.get(n.id) != i or OUT.get(n.id) != o or OUT_T.get(n.id) != ot:
                IN[n.id], OUT[n.id], OUT_T[n.id] = i, o, ot
                changed = True
    return {k: set(v) for k, v in IN.items()}


def _collect_targets(t, out: Set[str]):
    if isinstance(t, ast.Name):
        out.add(t.id)
    elif isinstance(t, (ast.Tuple, ast.List)):
        for e in t.elts:
            _collect_targets(e, out)
    elif isinstance(t, ast.Starred):
        _collect_targets(t.value, out)


def loaded_names(astnode: ast.AST, own_only=True) -> List[ast.Name]:
    """Name loads in the part of a compound statement that its CFG node evaluates."""
    out: List[ast.Name] = []

    def walk(n):
        for sub in ast.walk(n):
            if isinstance(sub, ast.Name) and isinstance(sub.ctx, ast.Load):
                out.append(sub)

    if isinstance(astnode, ast.If) or isinstance(astnode, ast.While):
        walk(astnode.test)
    elif isinstance(astnode, (ast.For, ast.AsyncFor)):
        walk(astnode.iter)
    elif isinstance(astnode, (ast.With, ast.AsyncWith)):
        for it in astnode.items:
            walk(it.context_expr)
    elif isinstance(astnode, ast.ExceptHandler):
        if astnode.type is not None:
            walk(astnode.type)
    elif isinstance(astnode, (ast.FunctionDef, ast.AsyncFunctionDef, ast.ClassDef)):
        for d in astnode.decorator_list:
            walk(d)
    elif isinstance(astnode, ast.Try):
        pass
    else:
        walk(astnode)
    return out


def reaching_definitions(cfg: CFG) -> Dict[int, Dict[str, Set[int]]]:
    """IN map per node: name -> set of node ids whose definition may reach."""

    def transfer(n: Node, s):
        names = stored_names(n)
        if n.kind == "for":
            t = set()
            _collect_targets(n.ast.target, t)
            names = names | t
        if not names:
            return s
        d = dict(s)
        for nm in names:
            d[nm] = frozenset([n.id])
        return d

    def meet(states):
        acc: Dict[str, frozenset] = {}
        for s in states:
            for k, v in s.items():
                acc[k] = acc.get(k, frozenset()) | v
        return acc

    IN, _ = cfg.forward({}, transfer, meet)
    return {k: {a: set(b) for a, b in v.items()} for k, v in IN.items()}
