"""Loop facts: loop-carried dependences and loop invariance (E3)."""
from __future__ import annotations

import ast
from typing import Dict, List, Set, Tuple

from .astutil import unparse


def _stores(stmts) -> Set[str]:
    out: Set[str] = set()
    for st in stmts:
        for n in ast.walk(st):
            if isinstance(n, ast.Name) and isinstance(n.ctx, (ast.Store, ast.Del)):
                out.add(n.id)
    return out


def carried_reads(loop: ast.For) -> List[Tuple[str, ast.AST]]:
    """Names written in the loop body that some path reads before writing them in the same
    iteration (a value carried from an earlier iteration).  Reads and writes under `if C:` with
    the same loop-invariant condition C are correlated (the repo's `if is_computation_time_required:`
    idiom).  Comprehension-local names are ignored."""
    body = loop.body
    written = _stores(body)
    tgt = set()
    for n in ast.walk(loop.target):
        if isinstance(n, ast.Name):
            tgt.add(n.id)
    invariant_conds = set()
    for st in ast.walk(loop):
        if isinstance(st, ast.If):
            names = {n.id for n in ast.walk(st.test) if isinstance(n, ast.Name)}
            if names and not (names & written) and not (names & tgt):
                invariant_conds.add(unparse(st.test))
    out: List[Tuple[str, ast.AST]] = []

    def walk(stmts, assigned: Set[str], conds: Dict[str, Set[str]]) -> Set[str]:
        assigned = set(assigned)
        for st in stmts:
            if isinstance(st, ast.If):
                ctext = unparse(st.test)
                reads(st.test, assigned, conds)
                extra = conds.get(ctext, set()) if ctext in invariant_conds else set()
                a1 = walk(st.body, assigned | extra, conds)
                a2 = walk(st.orelse, assigned, conds)
                if ctext in invariant_conds:
                    conds.setdefault(ctext, set()).update(a1 - assigned)
                assigned = assigned | (a1 & a2)
            elif isinstance(st, (ast.For, ast.While)):
                if isinstance(st, ast.For):
                    reads(st.iter, assigned, conds)
                    inner = set(assigned) | {n.id for n in ast.walk(st.target) if isinstance(n, ast.Name)}
                else:
                    reads(st.test, assigned, conds)
                    inner = set(assigned)
                walk(st.body, inner, conds)
            elif isinstance(st, ast.Try):
                a = walk(st.body, assigned, conds)
                for h in st.handlers:
                    walk(h.body, assigned, conds)
                assigned = a if not st.handlers else assigned
            elif isinstance(st, ast.With):
                for it in st.items:
                    reads(it.context_expr, assigned, conds)
                assigned = walk(st.body, assigned, conds)
            else:
                if isinstance(st, ast.AugAssign):
                    reads(st.target, assigned, conds, force=True)
                    reads(st.value, assigned, conds)
                elif isinstance(st, ast.Assign):
                    reads(st.value, assigned, conds)
                    for t in st.targets:
                        if not isinstance(t, ast.Name):
                            reads(t, assigned, conds)
                else:
                    reads(st, assigned, conds)
                for n in ast.walk(st):
                    if isinstance(n, ast.Name) and isinstance(n.ctx, ast.Store):
                        assigned.add(n.id)
        return assigned

    def reads(node, assigned, conds, force=False):
        comp_locals: Set[str] = set()
        for n in ast.walk(node):
            if isinstance(n, ast.comprehension):
                for t in ast.walk(n.target):
                    if isinstance(t, ast.Name):
                        comp_locals.add(t.id)
        for n in ast.walk(node):
            if isinstance(n, ast.Name) and (isinstance(n.ctx, ast.Load) or force) and n.id in written and n.id not in tgt \
                    and n.id not in assigned and n.id not in comp_locals:
                out.append((n.id, n))

    walk(body, set(), {})
    return out
